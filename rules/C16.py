"""C16 - Key-usage policy: operations use a component allowed to perform them, or refuse.

  C16.1 precondition table of every key operation (flags + key-form conditions) = the policy of the statement
  C16.2 KeyAction.__call__: refusals first, preconditions before the action, the action runs on the selected component
  C16.3 usage scan: primary then subkeys, intersection test is the only way to select, for-else raises unless enforcement is off
  C16.4 issuer key id / issuer fingerprint / recipient key id / key material all come from the operating key itself
  C16.5 effective flags come from the MOST RECENT self-signature (consumers of time-sorted collections read the recent end)
  C16.6 decryption finds the addressed component (recipient match, subkey delegation, own session-key packet)

All rules read interpreter values (what is returned / yielded / called on each path, which collection a bound variable ranges
over, which decisions a path took); "which end of a time-sorted collection" is decided on the expression tree of the value
(reversed / [::-1] / sorted flip the order, next / [0] / [-1] / max / min pick an end), not on its spelling.
"""
import ast
import re

from sa.interp import Interp, Scenario, Sym, Const, render, alpha
from sa.loader import AnalysisError, dotted
from sa import families, keyaction
from sa.keyaction import atom_key, truthiness

noinline = lambda f: False  # noqa: E731


def run(rep, prog, tier):
    rep.rule('C16.1', 'KeyAction arguments of each operation equal the policy table', floor=14)
    rep.rule('C16.2', 'order of refusals, precondition check and action in KeyAction.__call__', floor=7)
    rep.rule('C16.3', 'usage scan: order, intersection test, refusal when nothing qualifies', floor=5)
    rep.rule('C16.4', 'ids written and key material used are rooted at the operating key', floor=8)
    rep.rule('C16.5', 'most recent self-signature decides (recency forms on sorted collections)', floor=4)
    rep.rule('C16.6', 'decrypt addressing: recipient match, delegation to the addressed subkey, own PKESK', floor=3)
    rep.rule('C16.7', 'a key is locked again after every exit of an unlock scope (the C06.1 family under this property)', floor=5)
    rep.assume('SorteDeque keeps signatures sorted ascending by creation time (insort bisects on PGPSignature.__lt__ = created)')

    keyaction.check_table(rep, prog, 'C16.1')
    keyaction.check_call_order(rep, prog, 'C16.2')
    keyaction.check_usage_scan(rep, prog, 'C16.3')
    families.check_ids_rooted_at_self(rep, prog, 'C16.4')
    check_recency(rep, prog)
    check_key_form_predicates(rep, prog)
    check_pkesk_selection(rep, prog)
    check_sessionkey_consumers(rep, prog)
    check_decrypt_delegation(rep, prog)
    check_relock(rep, prog)


def check_relock(rep, prog):
    """'Private operations refuse on locked keys' holds after an unlock scope only if the scope's cleanup really runs over the key and
    every subkey on every exit: the KeyAction refusal reads `is_unlocked`, i.e. whether the secret fields are still there.  The rule
    family is the one C06.1 decides (CFG of PGPKey.unlock: every exit after an unprotect passes a clear() over the same components, a
    one-shot iterator is not iterated twice); relabelled here because a key that stays unlocked signs and decrypts when it must refuse
    (seeded change C16-w6mut1)."""
    from rules import C06
    from rules.C02 import _Proxy
    C06.check_unlock(_Proxy(rep, 'C16.7'), prog)


# ------------------------------------------------------------------------------------------------ which end of a sorted collection
def _norm_each(text):
    """[x for x in C] / (x for x in C) rendered as EACH($k in C;$k) is the collection C in order"""
    for _ in range(4):
        new = re.sub(r'EACH\((\$[\d.]+) in ((?:[^;()]|\([^()]*\))+);\1\)', r'list(\2)', text)
        if new == text:
            break
        text = new
    return text


def _parse(text):
    text = _norm_each(text)
    try:
        return ast.parse(re.sub(r'\$(\d+)(?:\.(\d+))?', lambda m: 'B_%s_%s' % (m.group(1), m.group(2) or ''), text), mode='eval').body
    except SyntaxError:
        return None


def order_of(node):
    """('asc' | 'desc', base text) of an expression that re-arranges an ascending (time-sorted) base collection, else None."""
    if isinstance(node, ast.Call):
        fn = dotted(node.func)
        if fn in ('list', 'tuple', 'iter', 'collections.deque', 'deque') and len(node.args) == 1 and not node.keywords:
            return order_of(node.args[0])
        if fn == 'reversed' and len(node.args) == 1:
            o = order_of(node.args[0])
            return None if o is None else ('desc' if o[0] == 'asc' else 'asc', o[1])
        if fn == 'sorted' and len(node.args) == 1:
            o = order_of(node.args[0])
            kws = {k.arg: k.value for k in node.keywords}
            if o is None or set(kws) - {'reverse'}:
                return None
            rev = kws.get('reverse')
            if rev is not None and not isinstance(rev, ast.Constant):
                return None
            return ('desc' if rev is not None and rev.value else 'asc', o[1])
        return None
    if isinstance(node, ast.Subscript) and isinstance(node.slice, ast.Slice):
        sl = node.slice
        if sl.lower is None and sl.upper is None:
            o = order_of(node.value)
            if o is None:
                return None
            if sl.step is None:
                return o
            st = sl.step
            if isinstance(st, ast.UnaryOp) and isinstance(st.op, ast.USub) and isinstance(st.operand, ast.Constant) and st.operand.value == 1:
                return ('desc' if o[0] == 'asc' else 'asc', o[1])
        return None
    if isinstance(node, (ast.Attribute, ast.Name)):
        return ('asc', ast.unparse(node))
    return None


def _int(node):
    if isinstance(node, ast.Constant) and isinstance(node.value, int):
        return node.value
    if isinstance(node, ast.UnaryOp) and isinstance(node.op, ast.USub) and isinstance(node.operand, ast.Constant):
        return -node.operand.value
    return None


def recency_of(text):
    """('recent' | 'oldest', base text) if the value text selects one end of a re-arranged time-sorted base, else None."""
    node = _parse(text)
    if node is None:
        return None
    end = coll = None
    if isinstance(node, ast.Call):
        fn = dotted(node.func)
        if fn == 'next' and node.args:
            end, coll = 'first', node.args[0]
        elif fn in ('max', 'min') and len(node.args) == 1 and not node.keywords:
            o = order_of(node.args[0])
            return None if o is None else ('recent' if fn == 'max' else 'oldest', o[1])
        elif isinstance(node.func, ast.Attribute) and node.func.attr in ('pop', 'popleft') and not node.args:
            end, coll = ('last' if node.func.attr == 'pop' else 'first'), node.func.value
    elif isinstance(node, ast.Subscript) and not isinstance(node.slice, ast.Slice):
        i = _int(node.slice)
        if i in (0, -1):
            end, coll = ('first' if i == 0 else 'last'), node.value
    if end is None:
        return None
    o = order_of(coll)
    if o is None:
        return None
    recent = (end == 'first') == (o[0] == 'desc')
    return ('recent' if recent else 'oldest', o[1])


def _unslice(t):
    """SLICE(x;lo;hi) of the interpreter's rendering back to x[lo:hi]"""
    while 'SLICE(' in t:
        i = t.rindex('SLICE(')
        depth, j, parts, cur = 0, i + 6, [], ''
        while j < len(t):
            ch = t[j]
            if ch in '([{':
                depth += 1
            elif ch in ')]}':
                if depth == 0:
                    break
                depth -= 1
            if ch == ';' and depth == 0:
                parts.append(cur)
                cur = ''
            else:
                cur += ch
            j += 1
        parts.append(cur)
        if len(parts) != 3 or j >= len(t):
            return t
        t = t[:i] + '%s[%s:%s]' % tuple(parts) + t[j + 1:]
    return t


def simulate_selection(text, me):
    """Which element of a time-sorted collection an expression selects, decided by evaluating the expression (checker-side,
    MiniEval) on concrete ascending collections of 1..5 elements: ('recent' | 'oldest' | 'other', base text) or None."""
    node = _parse(_unslice(text))
    if node is None:
        return None
    verdicts, bases = set(), set()
    for n_ in (1, 2, 3, 5):
        fake = _Fake('self', self_signatures=list(range(n_)), _signatures=list(range(100, 100 + n_)))
        try:
            v = MiniEval().ev(node, {me: fake})
        except (_NoEval, _Ret, StopIteration, _Cont):
            return None
        if not isinstance(v, int) or isinstance(v, bool):
            return None
        base, k = ('%s._signatures' % me, v - 100) if v >= 100 else ('%s.self_signatures' % me, v)
        bases.add(base)
        if n_ > 1:
            verdicts.add('recent' if k == n_ - 1 else 'oldest' if k == 0 else 'other')
    if len(bases) != 1:
        return None
    v = 'other' if len(verdicts) != 1 else verdicts.pop()
    return v, bases.pop()


def _strip(t):
    t = t.strip()
    while t.startswith('(') and t.endswith(')') and keyaction._balanced(t[1:-1]):
        t = t[1:-1].strip()
    return t


def _split_top(t, sep):
    out, depth, cur, i = [], 0, '', 0
    while i < len(t):
        ch = t[i]
        if ch in '([{':
            depth += 1
        elif ch in ')]}':
            depth -= 1
        if depth == 0 and t.startswith(sep, i):
            out.append(cur)
            cur = ''
            i += len(sep)
            continue
        cur += ch
        i += 1
    out.append(cur)
    return [x.strip() for x in out]


class BoolFn(object):
    """A rendered condition (possibly several fused `if` clauses) as a boolean function of its relations (skeleton built by
    keyaction.skel_from_text; == / != / is / is not atoms are one relation with a polarity, as in keyaction.atom_key)."""
    def __init__(self, text):
        self.skels = [keyaction.skel_from_text(p_) for p_ in _split_top(text, ' if ')]
        self.atoms = []
        for sk in self.skels:
            for a in keyaction.skel_atoms(sk):
                if a[0] != 'const' and atom_key(a)[0] not in self.atoms:
                    self.atoms.append(atom_key(a)[0])

    def value(self, assign):
        def val(a):
            if a[0] == 'const':
                return a[1]
            k, pos = atom_key(a)
            return assign[k] if pos else not assign[k]
        return all(keyaction.eval_skel(sk, val) for sk in self.skels)

    def assignments(self):
        import itertools
        for vals in itertools.product((True, False), repeat=len(self.atoms)):
            yield dict(zip(self.atoms, vals))


def path_relations(s):
    """relation key -> truth value, for the decisions of a path whose outcome fixes the relation: a bare test, a negated one,
    a conjunction taken as true (every conjunct holds), a disjunction taken as false (no disjunct holds)."""
    out = {}

    def learn(sk, v):
        if sk is None or sk[0] == 'const':
            return
        if sk[0] == 'not':
            learn(sk[1], not v)
        elif sk[0] in ('and', 'or'):
            if (sk[0] == 'and') == v:
                for x in sk[1]:
                    learn(x, v)
        else:
            k, pos = atom_key(sk)
            out[k] = v if pos else not v
    for t, v, sk in s.facts:
        learn(sk, v)
    return out


class _K(object):
    """An element of a time-sorted collection for checker-side evaluation: ordered by its key only, so that ties are told apart."""
    def __init__(self, key, tag):
        self.key, self.tag = key, tag

    def __lt__(self, o):
        return self.key < o.key

    def __gt__(self, o):
        return self.key > o.key

    def __le__(self, o):
        return self.key <= o.key

    def __ge__(self, o):
        return self.key >= o.key

    def __repr__(self):
        return '%s%s' % (self.key, self.tag)


def check_insort_by_evaluation(rep, prog, ins):
    """SorteDeque.insort is evaluated checker-side (MiniEval over the checker's own collections.deque / bisect - nothing of the
    repository runs) on ascending collections of 0..4 elements with ties, for a new value below / between / equal to / above
    the elements, unbounded (and bounded - full, one free place - if the program ever creates a bounded SorteDeque): the result must be what the reference insertion gives - the
    item at the bisect_left position (ties: before its equals), and for a bounded deque the same element dropped.
    Returns False when the body is outside the evaluator (the caller then reads the call shape)."""
    import collections
    import bisect as _bisect
    me, item = ins.params[0], ins.params[1]

    def reference(d, x):
        k = _bisect.bisect_left(d, x)
        d.rotate(-k)
        d.appendleft(x)
        d.rotate(k)

    def outcome(fn, keys, newkey, maxlen):
        d = collections.deque([_K(k, chr(97 + n)) for n, k in enumerate(keys)], maxlen)
        x = _K(newkey, '*')
        try:
            fn(d, x)
        except (IndexError, ValueError) as ex:
            return 'raises %s' % type(ex).__name__
        return [repr(e) for e in d]
    # bounded deques drop elements on insertion; that only matters if the program ever makes a bounded SorteDeque
    bounded = False
    for fn_ in prog.all_functions():
        for c in ast.walk(fn_.node):
            if isinstance(c, ast.Call) and (dotted(c.func) or '').split('.')[-1] == 'SorteDeque' and (len(c.args) > 1 or any(k.arg in ('maxlen', None) for k in c.keywords)):
                bounded = True
    bad, n = None, 0
    colls = [[], [2], [2, 2], [1, 3], [1, 2, 2, 3], [2, 2, 2], [1, 2, 3, 4]]
    for keys in colls:
        for newkey in sorted(set([0, 5] + keys + [k + 0.5 for k in keys])):
            for maxlen in ((None, len(keys), len(keys) + 1) if bounded else (None,)):
                if maxlen == 0:
                    continue
                want = outcome(reference, keys, newkey, maxlen)
                try:
                    got = outcome(lambda d, x: MiniEval().call(ins.node, [d, x]), keys, newkey, maxlen)
                except (_NoEval, StopIteration, _Cont):
                    return False
                n += 1
                if got != want and bad is None:
                    bad = 'deque %s%s + %s -> %s, sorted insertion gives %s' % (keys, '' if maxlen is None else ' (maxlen %d)' % maxlen, newkey, got, want)
    rep.check(bad is None, 'C16.5', 'SorteDeque.insort', 'sorted insertion on %d concrete cases' % n, 'insertion keeps the deque sorted ascending',
              where=ins.where, expected='the item at its bisect_left position (ties: before its equals)', found=bad)
    return True


def _check_insort_by_shape(rep, prog, ins):
    """Fallback when the body is outside the checker-side evaluator: the known insertion shapes, read from call events."""
    me, item = ins.params[0], ins.params[1]
    for s in Interp(prog, Scenario(inline=noinline)).run(ins):
        calls = [(c[0], [a.replace('--', '') for a in c[1]]) for c in s.calls]
        # the position: a bisection of the deque itself for the new item (optionally over the explicit full range)
        pos = [('%s(%s)' % (f, ', '.join(a))) for f, a in calls if f in ('bisect.bisect_left', 'bisect.bisect_right', 'bisect.bisect') and
               a[:2] == [me, item] and a[2:] in ([], ['0'], ['0', 'len(%s)' % me])]
        mut = [(f, a) for f, a in calls if f.startswith(me + '.') or f.startswith('bisect.insort')]
        ok = any(mut == [('%s.rotate' % me, ['-' + p]), ('%s.appendleft' % me, [item]), ('%s.rotate' % me, [p])] or
                 mut == [('%s.insert' % me, [p, item])] for p in pos) or \
            mut in ([(f, [me, item])] for f in ('bisect.insort', 'bisect.insort_left', 'bisect.insort_right'))
        known = ('rotate', 'appendleft', 'append', 'insert', 'insort', 'insort_left', 'insort_right')
        if not ok and any(f.split('.')[-1] not in known for f, a in mut):
            raise AnalysisError('SorteDeque.insort: unrecognised sorted insertion %s' % mut)
        rep.check(ok, 'C16.5', 'SorteDeque.insort', 'bisect + rotate insert', 'insertion keeps the deque sorted ascending', where=ins.where, found=mut)


# ------------------------------------------------------------------------------------------------ C16.5
def check_recency(rep, prog):
    # sorting premise: signatures compare by creation time; insertion bisects
    lt = prog.method('pgpy.pgp', 'PGPSignature', '__lt__')
    a, b = lt.params[0], lt.params[1]
    for s in Interp(prog, Scenario(inline=noinline)).run(lt):
        r = _strip(render(s.ret))
        good = ('%s.created < %s.created' % (a, b), '%s.created > %s.created' % (b, a), 'operator.lt(%s.created, %s.created)' % (a, b),
                'operator.gt(%s.created, %s.created)' % (b, a))
        if r not in good and not re.match(r'^(?:operator\.\w+\()?[\w.]+(?: [<>]=? |, )[\w.]+\)?$', r):
            raise AnalysisError('PGPSignature.__lt__: ordering %s not understood' % r)
        rep.check(r in good, 'C16.5', 'PGPSignature.__lt__', 'orders by %s' % r,
                  'signature collections are ordered by creation time (premise of the recency rule)', where=lt.where)
    ins = prog.method('pgpy.types', 'SorteDeque', 'insort')
    if not check_insort_by_evaluation(rep, prog, ins):
        _check_insort_by_shape(rep, prog, ins)
    check_selfsig(rep, prog)
    check_get_key_flags(rep, prog)
    check_identity_selection(rep, prog)
    check_self_signatures(rep, prog)
    # key_flags reads the hashed KeyFlags subpacket
    kf = prog.method('pgpy.pgp', 'PGPSignature', 'key_flags')
    reads = []
    for s in Interp(prog, Scenario(inline=noinline)).run(kf):
        if s.raised is None and s.ret is not None:
            reads += re.findall(r"subpackets\[('[^']*')\]", render(s.ret))
    rep.check(bool(reads) and set(reads) == {"'h_KeyFlags'"}, 'C16.5', 'PGPSignature.key_flags', 'reads the hashed KeyFlags subpacket',
              'capabilities must come from the signed (hashed) key-flags subpacket', where=kf.where, expected="subpackets['h_KeyFlags']", found=sorted(set(reads)))


def check_selfsig(rep, prog):
    """PGPUID.selfsig: the first signature issued by the parent key, scanning from the recent end."""
    ss = prog.method('pgpy.pgp', 'PGPUID', 'selfsig')
    me = ss.params[0]
    outs = Interp(prog, Scenario(inline=noinline)).run(ss)
    found = [s for s in outs if s.raised is None and s.ret is not None and render(s.ret) != 'None']
    scans, issuer_ok, first_ok = [], True, True
    sides = {}
    for s in found:
        r = render(s.ret)
        coll = s.bound.get(r)
        if coll is None:
            mm = re.match(r'^%s\.(\w+)$' % re.escape(me), r)
            if mm and mm.group(1) != '_signatures':
                # a remembered answer: it is the most recent self-signature only as long as every operation that adds or removes a
                # signature of this identity forgets it again (seeded change C16-w6mut2: PGPUID.__or__ files a newer self-certification,
                # the flags of the superseded one stay in effect)
                attr = mm.group(1)
                cls = ss.cls if hasattr(ss, 'cls') else prog.cls('pgpy.pgp', 'PGPUID')
                stale = []
                for name, f in sorted(cls.methods.items()):
                    if name == '__init__' or f is ss:
                        continue
                    muts = [n for n in ast.walk(f.node) if isinstance(n, ast.Call) and isinstance(n.func, ast.Attribute)
                            and isinstance(n.func.value, ast.Attribute) and n.func.value.attr == '_signatures'
                            and n.func.attr in ('insort', 'append', 'appendleft', 'extend', 'remove', 'pop', 'popleft', 'clear', 'insert', 'resort')]
                    muts += [n for n in ast.walk(f.node) if isinstance(n, (ast.Assign, ast.AugAssign)) and
                             any(isinstance(t, ast.Attribute) and t.attr == '_signatures' for t in (n.targets if isinstance(n, ast.Assign) else [n.target]))]
                    resets = [n for n in ast.walk(f.node) if isinstance(n, (ast.Assign, ast.Delete)) and
                              any(isinstance(t, ast.Attribute) and t.attr == attr for t in n.targets)]
                    if muts and not resets:
                        stale.append('%s.%s' % (cls.name, name))
                if stale:
                    rep.violation('C16.5', 'PGPUID.selfsig', 'remembered self-signature %s' % r,
                                  'selfsig answers from %s, which is filled once; %s change(s) the signatures of the identity without forgetting it, so a '
                                  'newer self-certification (other key flags, other preferences) never takes effect on the live object' % (r, ', '.join(stale)),
                                  where=ss.where, expected='the most recent self-signature at the time of the call', found='%s, not reset by %s' % (r, stale))
                    return
            sel = recency_of(r)          # e.g. next(sig for sig in reversed(...) if ...) is not a bound variable
            raise AnalysisError('PGPUID.selfsig: returned value %s is not an element of a scanned collection (%s)' % (r, sel))
        o = order_of(_parse(coll)) if _parse(coll) is not None else None
        scans.append((coll, o))
        # inside the loop and returned at once: the first match in scan order
        first_ok = first_ok and any(f[0].startswith('in loop over') for f in s.facts)
        # the decisions on this path say: issued by the key the identity belongs to
        rel = path_relations(s)
        mine = []
        for k, v in rel.items():
            if v is True and k[0] == 'eq' and ('%s._parent.fingerprint' % me) in k[1] and len(k[1]) == 2:
                other = [x for x in k[1] if x != '%s._parent.fingerprint' % me][0]
                fields = re.findall(r'%s\.(signer_fingerprint|signer)\b' % re.escape(r), other)
                # the issuer named by the candidate itself: its issuer fingerprint, its issuer key id, or the first of them that is set
                if fields and not re.sub(r'%s\.(signer_fingerprint|signer)\b|[()\s]|\bor\b' % re.escape(r), '', other):
                    mine.append(k)
                    for fld in fields:
                        sides[fld] = True
        issuer_ok = issuer_ok and bool(mine)
    if not found:
        raise AnalysisError('PGPUID.selfsig: no path returns a signature')
    ok = all(o is not None and o == ('desc', '%s._signatures' % me) for c, o in scans)
    if not ok and any(o is None for c, o in scans):
        raise AnalysisError('PGPUID.selfsig: scan order of %s not understood' % [c for c, o in scans if o is None])
    rep.check(ok, 'C16.5', 'PGPUID.selfsig', 'scan %s' % sorted(set(c for c, o in scans)),
              'the self-signature in effect is the most recent one: the scan must start at the recent end', where=ss.where,
              expected='for sig in reversed(self._signatures)', found=sorted(set(c for c, o in scans)))
    rep.check(first_ok, 'C16.5', 'PGPUID.selfsig', 'returns the matching signature',
              'the first (most recent) signature issued by the parent key is the self-signature', where=ss.where)
    rep.check(issuer_ok and set(sides) == {'signer_fingerprint', 'signer'}, 'C16.5', 'PGPUID.selfsig',
              'issuer tests %s' % sorted(sides), 'a self-signature is one issued by the key the identity belongs to', where=ss.where,
              expected='parent fingerprint == issuer fingerprint, else == issuer key id', found=sorted(sides))


def check_get_key_flags(rep, prog):
    gk = prog.method('pgpy.pgp', 'PGPKey', '_get_key_flags')
    me = gk.params[0]
    up = gk.params[1] if len(gk.params) > 1 else None
    if up is None:
        raise AnalysisError('PGPKey._get_key_flags: identity parameter vanished')
    CERT = '{KeyFlags.Certify}'
    for label, uval in (('default identity', Const(None)), ('chosen identity', Sym(up, nonnull=True))):
        sc = Scenario(bind={'%s.is_primary' % me: Const(True)}, args={up: uval}, inline=noinline)
        granted = []
        for s in Interp(prog, sc).run(gk):
            if s.raised is not None:
                continue
            r = render(s.ret)
            ops = _split_top(_strip(r), ' | ')
            rel = path_relations(s)
            ok = CERT in ops
            rest = [o for o in ops if o != CERT]
            for o in rest:
                m = re.match(r'^(.+)\.selfsig\.key_flags$', _strip(o))
                m2 = re.match(r'^\((.+)\.selfsig\.key_flags if (.+)\.selfsig else set\(\)\)$', o)
                if m2 and m2.group(1) == m2.group(2):
                    granted.append(m2.group(1))
                elif m and rel.get(('expr', '%s.selfsig' % m.group(1)), True):
                    granted.append(m.group(1))
                elif _strip(o) == 'set()' and any(k[0] == 'expr' and k[1].endswith('.selfsig') and v is False for k, v in rel.items()):
                    pass
                else:
                    ok = False
            if not rest:
                # Certify alone: only for a key that has no identity at all, or whose identity has no self-signature
                empty = [k for k, v in rel.items() for c in ('%s._uids' % me, '%s.userids' % me)
                         if truthiness(k, c) is not None and v != truthiness(k, c)]
                nosig = [k for k, v in rel.items() if k[0] == 'expr' and k[1].endswith('.selfsig') and v is False]
                ok = ok and ((bool(empty) and label == 'default identity') or bool(nosig))
            rep.check(ok, 'C16.5', 'PGPKey._get_key_flags', 'primary (%s): %s' % (label, r[:100]),
                      'a primary key has Certify plus the flags of its identity\'s (most recent) self-signature', where=gk.where, found=r, scenario=label)
        want = '%s.get_uid(%s)' % (me, up) if label == 'chosen identity' else None
        ok = bool(granted) and all((g == want) if want else re.search(r'(?<![\w.])%s\.(userids|_uids)\b' % re.escape(me), g) is not None for g in granted)
        rep.check(ok, 'C16.5', 'PGPKey._get_key_flags', 'flags granted through %s' % sorted(set(granted)),
                  'the capabilities of a primary key are those its (chosen) identity\'s self-signature grants', where=gk.where,
                  expected=want or 'an identity of this key', found=sorted(set(granted)), scenario=label)
    sc = Scenario(bind={'%s.is_primary' % me: Const(False)}, args={up: Const(None)}, inline=noinline)
    for s in Interp(prog, sc).run(gk):
        if s.raised is not None:
            continue
        r = render(s.ret)
        sel = recency_of(r[:-len('.key_flags')]) if r.endswith('.key_flags') else None
        if sel is None and r.endswith('.key_flags'):
            sel = simulate_selection(r[:-len('.key_flags')], me)
        if sel is None:
            every = [b for b, coll in s.bound.items() if re.search(re.escape(b) + r'(?!\.?\d)', r) and
                     order_of(_parse(coll) or ast.Constant(0)) == ('asc', '%s.self_signatures' % me)]
            if every and not r.endswith('.key_flags'):
                # a value computed from EVERY binding signature (union, accumulation) - not the one in effect
                rep.violation('C16.5', 'PGPKey._get_key_flags', 'subkey: %s' % r,
                              'a subkey\'s capability comes from its MOST RECENT binding signature, not from all of them', where=gk.where,
                              expected='next(reversed(list(self.self_signatures))).key_flags', found=r)
                continue
            if re.match(r'^%s\.\w+(\[[^\]]*\]|\.get\([^)]*\))?$' % re.escape(me), r) and 'signatures' not in r:
                # flags remembered on the object (a cache): what was in effect when it was filled, not what the signatures say now
                rep.violation('C16.5', 'PGPKey._get_key_flags', 'subkey: %s' % r,
                              'a subkey\'s capability comes from its MOST RECENT binding signature, not from remembered state', where=gk.where,
                              expected='next(reversed(list(self.self_signatures))).key_flags', found=r)
                continue
            raise AnalysisError('PGPKey._get_key_flags subkey arm: unrecognised selection %s' % r)
        rep.check(sel == ('recent', '%s.self_signatures' % me), 'C16.5', 'PGPKey._get_key_flags', 'subkey: %s' % r,
                  'a subkey\'s capability comes from its MOST RECENT binding signature, not the oldest', where=gk.where,
                  expected='next(reversed(list(self.self_signatures))).key_flags', found=r)


def check_self_signatures(rep, prog):
    """self_signatures keeps the sorted order (the time-sorted deque, filtered): right type, issued by the owning primary, not expired."""
    sf = prog.cls('pgpy.pgp', 'PGPKey').methods.get('self_signatures')
    if sf is None:
        raise AnalysisError('PGPKey.self_signatures vanished')
    me = sf.params[0]
    sigs = '%s._signatures' % me
    for primary, owner, kind in ((True, '%s.fingerprint.keyid' % me, 'SignatureType.DirectlyOnKey'),
                                 (False, '%s._parent.fingerprint.keyid' % me, 'SignatureType.Subkey_Binding')):
        scen = 'primary=%s' % primary
        sc = Scenario(bind={'%s.is_primary' % me: Const(primary)}, inline=noinline, extended=True)
        outs = Interp(prog, sc).run(sf)
        gen, gargs = sf, {}
        for _hop in range(2):
            # `return self._helper(<types>)`: the property hands back the generator another method of the key makes - follow it,
            # the helper's parameters bound to the argument values of this call
            if len(outs) == 1 and not outs[0].yields and outs[0].ret is not None:
                mm = re.match(r'^\*?%s\.(\w+)\(' % re.escape(me), render(outs[0].ret))
                tgt = prog.cls('pgpy.pgp', 'PGPKey').find_method(mm.group(1)) if mm else None
                call = next((c for c in outs[0].calls if mm and c[0] == '%s.%s' % (me, mm.group(1))), None)
                if tgt is None or call is None or tgt.params[0] != me or len(call[1]) > len(tgt.params) - 1:
                    break
                gargs = {p_: Sym(t_) for p_, t_ in zip(tgt.params[1:], call[1])}
                gargs.update({k_: Sym(t_) for k_, t_ in call[2].items() if k_ in tgt.params})
                gen = tgt
                sc = Scenario(bind={'%s.is_primary' % me: Const(primary)}, args=gargs, inline=noinline, extended=True)
                outs = Interp(prog, sc).run(gen)
        if len(outs) == 1 and len(outs[0].yields) == 1 and render(outs[0].yields[0]).startswith('*%s.' % me):
            # `yield from self._helper(..)`
            mm = re.match(r'^\*%s\.(\w+)\(' % re.escape(me), render(outs[0].yields[0]))
            tgt = prog.cls('pgpy.pgp', 'PGPKey').find_method(mm.group(1)) if mm else None
            call = next((c for c in outs[0].calls if mm and c[0] == '%s.%s' % (me, mm.group(1))), None)
            if tgt is not None and call is not None and tgt.params[0] == me and len(call[1]) <= len(tgt.params) - 1:
                gargs = {p_: Sym(t_) for p_, t_ in zip(tgt.params[1:], call[1])}
                gen = tgt
                sc = Scenario(bind={'%s.is_primary' % me: Const(primary)}, args=gargs, inline=noinline, extended=True)
                outs = Interp(prog, sc).run(gen)
        ys = [render(y) for s in outs for y in s.yields]
        m = re.match(r'^\*?EACH\((\$[\d.]+) in (.+?)(?: if (.+))?;(?:(\$[\d.]+)|ALT\((\$[\d.]+) \| \)|ALT\( \| (\$[\d.]+)\))\)$', ys[0]) \
            if len(outs) == 1 and len(ys) == 1 else None
        if not m or m.group(1) != (m.group(4) or m.group(5) or m.group(6)):
            raise AnalysisError('PGPKey.self_signatures: yields %s, not the filtered elements of one collection' % ys)
        v, coll, cond = m.group(1), m.group(2), m.group(3)
        if m.group(4) is None and cond is not None:
            raise AnalysisError('PGPKey.self_signatures: filtered twice (%s)' % ys)
        o = order_of(_parse(coll)) if _parse(coll) is not None else None
        rep.check(o == ('asc', sigs), 'C16.5', 'PGPKey.self_signatures', 'iterates %s' % coll,
                  'the candidates are taken from the time-sorted signature collection in order', where=sf.where, scenario=scen)
        want = [('eq', frozenset(('%s.type' % v, kind))), ('eq', frozenset(('%s.signer' % v, owner))), ('expr', '%s.is_expired' % v)]
        if cond is not None:
            # the filter as a boolean function: it may only pass signatures for which all three relations hold, and passes some
            fn = BoolFn(cond)
            if not any(w in fn.atoms for w in want):
                raise AnalysisError('PGPKey.self_signatures: filter %s not understood' % cond)
            ok, found, passes = True, None, False
            for a in fn.assignments():
                if fn.value(a):
                    passes = True
                    if not (a.get(want[0]) is True and a.get(want[1]) is True and a.get(want[2]) is False):
                        ok, found = False, 'passes a signature under [%s]' % keyaction._show(a)
            if not passes:
                ok, found = False, 'the filter %s never passes' % cond
        else:
            # a plain loop with an inner test: decisions inside a summarised loop are not kept, so run the body for one
            # element and read the truth table: the element is yielded iff all three relations hold
            el = Sym('SIG', nonnull=True)
            want = [(w[0], frozenset(x.replace(v, 'SIG') for x in w[1])) if w[0] == 'eq' else (w[0], w[1].replace(v, 'SIG')) for w in want]
            outs = Interp(prog, Scenario(bind={'%s.is_primary' % me: Const(primary)}, args=gargs, unroll={coll: [el]}, inline=noinline, extended=True)).run(gen)
            ok, found = True, None
            for assign in keyaction.assignments(outs):
                hit = [s for s in outs if keyaction.consistent(s, assign)]
                expect = assign.get(want[0]) is True and assign.get(want[1]) is True and assign.get(want[2]) is False
                for s in hit:
                    got = [render(y) for y in s.yields]
                    if got not in ([], ['SIG']):
                        raise AnalysisError('PGPKey.self_signatures: yields %s for one element' % got)
                    if (got == ['SIG']) != expect:
                        ok, found = False, 'under [%s] the signature is %s' % (keyaction._show(assign), 'yielded' if got else 'dropped')
        rep.check(ok, 'C16.5', 'PGPKey.self_signatures', 'filters',
                  'self-signatures are those of the right type issued by the owning primary and not expired', where=sf.where,
                  expected=[str(w) for w in want], found=found, scenario=scen)


# ------------------------------------------------------------------------------------------------ identity selection (get_uid)
class _NoEval(Exception):
    pass


class _Ret(Exception):
    def __init__(self, v):
        self.v = v


class _Fake(object):
    """A checker-side stand-in for an object of the analysed program: just a table of attribute values."""
    def __init__(self, label, **attrs):
        self.label, self.attrs = label, attrs

    def __repr__(self):
        return '<%s>' % self.label


class MiniEval(object):
    """Checker-side evaluation of a small selection function on concrete strings (nothing of the repository runs): the
    statements if / for / return / assignment / expression, and expressions over str, tuple, list, set, None, bool and _Fake
    objects with comparisons, boolean operators, comprehensions, lambda, any / all / next / filter / map / list / tuple / set /
    len / bool / str / iter / reversed / sorted and the usual str methods.  Anything else raises _NoEval."""
    STR_METHODS = ('lower', 'upper', 'casefold', 'strip', 'lstrip', 'rstrip', 'startswith', 'endswith', 'find', 'index', 'count', 'split',
                   'title', 'replace', 'partition', 'rpartition', 'encode', 'format', 'join', 'isspace')

    def __init__(self, budget=20000):
        self.budget = budget

    def call(self, fn_node, args):
        env = dict(zip([a.arg for a in fn_node.args.args], args))
        try:
            self.block(fn_node.body, env)
        except _Ret as r:
            return r.v
        return None

    def block(self, stmts, env):
        for st in stmts:
            self.budget -= 1
            if self.budget < 0:
                raise _NoEval('budget')
            if isinstance(st, ast.Return):
                raise _Ret(self.ev(st.value, env) if st.value is not None else None)
            elif isinstance(st, ast.If):
                self.block(st.body if self.ev(st.test, env) else st.orelse, env)
            elif isinstance(st, ast.For):
                broke = False
                for x in self.ev(st.iter, env):
                    self.bind(st.target, x, env)
                    try:
                        self.block(st.body, env)
                    except StopIteration:
                        broke = True
                        break
                    except _Cont:
                        continue
                if not broke:
                    self.block(st.orelse, env)
            elif isinstance(st, ast.Assign) and len(st.targets) == 1:
                self.bind(st.targets[0], self.ev(st.value, env), env)
            elif isinstance(st, ast.Expr):
                if not isinstance(st.value, ast.Constant):
                    self.ev(st.value, env)
            elif isinstance(st, ast.Break):
                raise StopIteration()
            elif isinstance(st, ast.Continue):
                raise _Cont()
            elif isinstance(st, ast.Pass):
                pass
            else:
                raise _NoEval(type(st).__name__)

    def bind(self, target, v, env):
        if isinstance(target, ast.Name):
            env[target.id] = v
        elif isinstance(target, (ast.Tuple, ast.List)):
            vs = list(v)
            if len(vs) != len(target.elts):
                raise _NoEval('unpack')
            for t, x in zip(target.elts, vs):
                self.bind(t, x, env)
        else:
            raise _NoEval('target')

    def comp(self, node, env, make):
        out = []

        def rec(i, e):
            if i == len(node.generators):
                out.append(make(e))
                return
            g = node.generators[i]
            for x in self.ev(g.iter, e):
                e2 = dict(e)
                self.bind(g.target, x, e2)
                if all(self.ev(c, e2) for c in g.ifs):
                    rec(i + 1, e2)
        rec(0, dict(env))
        return out

    def ev(self, n, env):
        self.budget -= 1
        if self.budget < 0:
            raise _NoEval('budget')
        if isinstance(n, ast.Constant):
            return n.value
        if isinstance(n, ast.Name):
            if n.id in env:
                return env[n.id]
            if n.id in ('True', 'False', 'None'):
                return {'True': True, 'False': False, 'None': None}[n.id]
            raise _NoEval('name %s' % n.id)
        if isinstance(n, (ast.Tuple, ast.List, ast.Set)):
            vs = [self.ev(e, env) for e in n.elts]
            return tuple(vs) if isinstance(n, ast.Tuple) else (vs if isinstance(n, ast.List) else set(vs))
        if isinstance(n, ast.Attribute):
            o = self.ev(n.value, env)
            if isinstance(o, _Fake):
                if n.attr in o.attrs:
                    return o.attrs[n.attr]
                raise _NoEval('attribute %s of %r' % (n.attr, o))
            if isinstance(o, str) and n.attr in self.STR_METHODS:
                return getattr(o, n.attr)
            if isinstance(o, list) and n.attr in ('pop', 'index', 'count', 'copy'):
                return getattr(o, n.attr)
            if type(o).__name__ == 'deque' and n.attr in ('rotate', 'appendleft', 'append', 'insert', 'pop', 'popleft', 'extend', 'extendleft', 'index',
                                                          'count', 'clear', 'copy', 'reverse', 'remove', 'maxlen'):
                return getattr(o, n.attr)
            raise _NoEval('attribute %s' % n.attr)
        if isinstance(n, ast.BoolOp):
            v = None
            for x in n.values:
                v = self.ev(x, env)
                if isinstance(n.op, ast.And) and not v:
                    return v
                if isinstance(n.op, ast.Or) and v:
                    return v
            return v
        if isinstance(n, ast.UnaryOp) and isinstance(n.op, ast.Not):
            return not self.ev(n.operand, env)
        if isinstance(n, ast.IfExp):
            return self.ev(n.body if self.ev(n.test, env) else n.orelse, env)
        if isinstance(n, ast.Compare):
            left = self.ev(n.left, env)
            for op, c in zip(n.ops, n.comparators):
                right = self.ev(c, env)
                try:
                    if isinstance(op, ast.In):
                        r = left in right
                    elif isinstance(op, ast.NotIn):
                        r = left not in right
                    elif isinstance(op, ast.Eq):
                        r = left == right
                    elif isinstance(op, ast.NotEq):
                        r = left != right
                    elif isinstance(op, ast.Is):
                        r = left is right
                    elif isinstance(op, ast.IsNot):
                        r = left is not right
                    elif isinstance(op, (ast.Lt, ast.LtE, ast.Gt, ast.GtE)):
                        r = {ast.Lt: lambda a, b: a < b, ast.LtE: lambda a, b: a <= b, ast.Gt: lambda a, b: a > b, ast.GtE: lambda a, b: a >= b}[type(op)](left, right)
                    else:
                        raise _NoEval('comparison')
                except TypeError:
                    raise _NoEval('comparison of %r and %r' % (left, right))
                if not r:
                    return False
                left = right
            return True
        if isinstance(n, ast.GeneratorExp):
            return iter(self.comp(n, env, lambda e: self.ev(n.elt, e)))
        if isinstance(n, ast.ListComp):
            return self.comp(n, env, lambda e: self.ev(n.elt, e))
        if isinstance(n, ast.SetComp):
            return set(self.comp(n, env, lambda e: self.ev(n.elt, e)))
        if isinstance(n, ast.Lambda):
            names = [a.arg for a in n.args.args]
            return lambda *a: self.ev(n.body, dict(env, **dict(zip(names, a))))
        if isinstance(n, ast.Subscript) and isinstance(n.slice, ast.Slice):
            base = self.ev(n.value, env)
            lo, hi, st_ = [self.ev(x, env) if x is not None else None for x in (n.slice.lower, n.slice.upper, n.slice.step)]
            try:
                return base[lo:hi:st_]
            except TypeError:
                raise _NoEval('slice')
        if isinstance(n, ast.BinOp) and isinstance(n.op, (ast.Add, ast.Sub, ast.Mult, ast.FloorDiv, ast.Mod)):
            a, b = self.ev(n.left, env), self.ev(n.right, env)
            if isinstance(a, int) and isinstance(b, int) and not isinstance(a, bool) and not isinstance(b, bool):
                try:
                    return {ast.Add: a.__add__, ast.Sub: a.__sub__, ast.Mult: a.__mul__, ast.FloorDiv: a.__floordiv__, ast.Mod: a.__mod__}[type(n.op)](b)
                except ZeroDivisionError:
                    raise _NoEval('division')
            raise _NoEval('arithmetic')
        if isinstance(n, ast.UnaryOp) and isinstance(n.op, ast.USub):
            v = self.ev(n.operand, env)
            if isinstance(v, int):
                return -v
            raise _NoEval('minus')
        if isinstance(n, ast.Subscript) and not isinstance(n.slice, ast.Slice):
            try:
                return self.ev(n.value, env)[self.ev(n.slice, env)]
            except (IndexError, KeyError, TypeError):
                raise _NoEval('subscript')
        if isinstance(n, ast.Call):
            fn = dotted(n.func)
            args = [self.ev(a, env) for a in n.args]
            if fn in ('collections.deque', 'deque') and len(args) <= 2 and all(k.arg == 'maxlen' for k in n.keywords):
                import collections
                ml = [self.ev(k.value, env) for k in n.keywords] or (args[1:2] or [None])
                try:
                    return collections.deque(args[0] if args else (), ml[0])
                except (TypeError, ValueError) as ex:
                    raise _NoEval(str(ex))
            if n.keywords and not (fn == 'sorted' and all(k.arg == 'reverse' for k in n.keywords)):
                raise _NoEval('keywords')
            table = {'any': any, 'all': all, 'list': list, 'tuple': tuple, 'set': set, 'frozenset': frozenset, 'len': len, 'bool': bool, 'str': str,
                     'iter': iter, 'reversed': lambda x: iter(list(reversed(list(x)))), 'filter': lambda f, x: iter([y for y in x if (f(y) if f is not None else y)]),
                     'map': lambda f, *xs: iter([f(*t) for t in zip(*xs)]), 'enumerate': lambda x: iter(list(enumerate(x))), 'zip': lambda *xs: iter(list(zip(*xs)))}
            if fn in ('bisect.bisect_left', 'bisect.bisect_right', 'bisect.bisect', 'bisect.insort', 'bisect.insort_left', 'bisect.insort_right'):
                import bisect as _bisect
                try:
                    return getattr(_bisect, fn.split('.')[1])(*args)
                except TypeError as ex:
                    raise _NoEval(str(ex))
            if fn == 'next' and 1 <= len(args) <= 2:
                try:
                    return next(args[0])
                except StopIteration:
                    if len(args) == 2:
                        return args[1]
                    raise _NoEval('next() on an exhausted iterator')
                except TypeError:
                    raise _NoEval('next() of a non-iterator')
            if fn == 'sorted' and len(args) == 1:
                rev = [self.ev(k.value, env) for k in n.keywords if k.arg == 'reverse']
                try:
                    return sorted(args[0], reverse=bool(rev and rev[0]))
                except TypeError:
                    raise _NoEval('sorted')
            if fn in ('max', 'min') and len(args) == 1:
                try:
                    return (max if fn == 'max' else min)(args[0])
                except (TypeError, ValueError):
                    raise _NoEval(fn)
            if fn in table and fn not in env:
                try:
                    return table[fn](*args)
                except TypeError as ex:
                    raise _NoEval(str(ex))
            f = self.ev(n.func, env)
            if callable(f):
                try:
                    return f(*args)
                except (TypeError, ValueError) as ex:
                    raise _NoEval(str(ex))
            raise _NoEval('call of %s' % ast.unparse(n.func))
        raise _NoEval(type(n).__name__)


class _Cont(Exception):
    pass


def check_identity_selection(rep, prog):
    """The identity whose self-signature grants the capability is the one the caller NAMED: PGPKey.get_uid selects by exact match
    of the string against name / comment / e-mail address.  The selection function is evaluated, checker-side, on concrete
    strings: a request that is only a prefix, a substring, another case or padded with blanks must select nothing."""
    K = prog.cls('pgpy.pgp', 'PGPKey')
    f = K.methods.get('get_uid')
    if f is None or len(f.params) != 2:
        raise AnalysisError('PGPKey.get_uid vanished')
    u1 = _Fake('uid Bob', name='Bob', comment='x', email='bob@b', is_uid=True, is_ua=False)
    u2 = _Fake('uid Alice', name='Alice Example', comment='', email='a@b', is_uid=True, is_ua=False)
    ua = _Fake('photo id', name='', comment='', email='', is_uid=False, is_ua=True)
    uids = [u1, ua, u2]
    key = _Fake('key', is_primary=True, _uids=uids, userids=[u1, u2], userattributes=[ua])
    key.attrs['get_uid'] = lambda req_: MiniEval().call(f.node, [key, req_])          # the same function, on the primary
    probes = [('Alice Example', u2, 'the full name'), ('a@b', u2, 'the e-mail address'), ('Bob', u1, 'the full name'), ('x', u1, 'the comment'),
              ('Alice', None, 'a prefix of a name'), ('Example', None, 'a suffix of a name'), ('alice example', None, 'a name in another case'),
              ('Alice Example ', None, 'a name padded with a blank'), ('ob', None, 'a substring of a name'), ('@', None, 'a substring of an address'),
              ('Carol', None, 'an unknown name')]
    for req, want, what in probes:
        try:
            got = MiniEval().call(f.node, [key, req])
        except _NoEval as ex:
            raise AnalysisError('PGPKey.get_uid: selection not evaluable on concrete strings (%s)' % ex)
        rep.check(got is want, 'C16.5', 'PGPKey.get_uid', 'request %r (%s) selects %r' % (req, what, got),
                  'the identity used for the capability must be the one the caller named exactly (name, comment or e-mail address): '
                  'a fuzzy match lets another identity\'s flags authorise the operation', where=f.where, expected=repr(want), found=repr(got),
                  scenario=req)
    # a subkey asks its primary
    sub = _Fake('subkey', is_primary=False, parent=key, _parent=key, _uids=[], userids=[], userattributes=[])
    try:
        got = MiniEval().call(f.node, [sub, 'Bob'])
    except _NoEval as ex:
        raise AnalysisError('PGPKey.get_uid: subkey arm not evaluable (%s)' % ex)
    rep.check(got is u1, 'C16.5', 'PGPKey.get_uid', 'subkey: request answered by the primary (%r)' % got,
              'a subkey resolves the identity on its primary key', where=f.where, expected=repr(u1), found=repr(got))


# ------------------------------------------------------------------------------------------------ key-form predicates
def check_key_form_predicates(rep, prog):
    """is_unlocked / is_protected are derived from the packet, so the precondition table means what it says."""
    iu = prog.method('pgpy.pgp', 'PGPKey', 'is_unlocked')
    me = iu.params[0]
    # the packet-level facts are the scenario; is_protected is read through its own definition (so a getter that asks the packet
    # directly and one that goes through the property are the same)
    cases = [({'%s.is_public' % me: Const(True)}, 'True'), ({'%s.is_public' % me: Const(False), '%s._key.protected' % me: Const(False)}, 'True'),
             ({'%s.is_public' % me: Const(False), '%s._key.protected' % me: Const(True)}, '%s._key.unlocked' % me)]
    for bind, want in cases:
        for s in Interp(prog, Scenario(bind=bind, inline=noinline, inline_props={'is_protected'}, extended=True)).run(iu):
            rep.check(render(s.ret) == want, 'C16.2', 'PGPKey.is_unlocked', '%s -> %s' % ({k: render(v) for k, v in bind.items()}, render(s.ret)),
                      'a protected private key counts as unlocked only when its packet says so', where=iu.where, expected=want, found=render(s.ret))
    ul = prog.method('pgpy.packet.packets', 'PrivKeyV4', 'unlocked')
    me = ul.params[0]
    km = '%s.keymaterial' % me

    def zero_free(text):
        """True: the text says "no element of the key material is 0"; False: recognisably something else; None: not understood"""
        t = alpha(_strip(_norm_each(text)))
        if re.match(r'^all\(EACH\(\$1 in %s;\(\$1 != 0\)\)\)$' % re.escape(km), t) or \
                re.match(r'^not any\(EACH\(\$1 in %s;\(\$1 == 0\)\)\)$' % re.escape(km), t):
            return True
        node = _parse(t)
        neg = False
        while isinstance(node, ast.UnaryOp) and isinstance(node.op, ast.Not):
            node, neg = node.operand, not neg
        if isinstance(node, ast.Constant):
            return False
        if isinstance(node, ast.Compare) and len(node.ops) == 1 and isinstance(node.ops[0], (ast.In, ast.NotIn)) and _int(node.left) == 0:
            coll = node.comparators[0]
            if isinstance(coll, ast.Call) and dotted(coll.func) in ('set', 'frozenset') and len(coll.args) == 1:
                coll = coll.args[0]
            o = order_of(coll)
            if o is not None and o[1] == km:
                return isinstance(node.ops[0], ast.NotIn) != neg
        return None
    for s in Interp(prog, Scenario(bind={'%s.protected' % me: Const(True)}, inline=noinline, extended=True)).run(ul):
        z = zero_free(render(s.ret))
        if z is None:
            raise AnalysisError('PrivKeyV4.unlocked: unrecognised form %s' % render(s.ret))
        rep.check(z, 'C16.2', 'PrivKeyV4.unlocked', render(s.ret),
                  'a protected key packet is unlocked iff none of its integers is the zero placeholder', where=ul.where, found=render(s.ret))
    pr = prog.method('pgpy.packet.packets', 'PrivKeyV4', 'protected')
    me = pr.params[0]
    s2k = '%s.keymaterial.s2k' % me
    for truth in (True, False):
        for s in Interp(prog, Scenario(inline=noinline, oracle=lambda t, _v=truth: _v if t == s2k else None)).run(pr):
            r = render(s.ret)
            rep.check(r in ('bool(%s)' % s2k, '%s.__bool__()' % s2k, repr(truth)), 'C16.2', 'PrivKeyV4.protected', '%s -> %s' % (truth, r),
                      'protection is what the S2K usage octet says', where=pr.where, found=r, scenario='s2k=%s' % truth)
    sb = prog.method('pgpy.packet.fields', 'String2Key', '__bool__')
    me = sb.params[0]
    wrong = []
    for octet in range(256):
        for s in Interp(prog, Scenario(bind={'%s.usage' % me: Const(octet)}, inline=noinline)).run(sb):
            if not (isinstance(s.ret, Const) and isinstance(s.ret.value, bool)):
                raise AnalysisError('String2Key.__bool__: %s is not decided for usage octet %d' % (render(s.ret), octet))
            if s.ret.value != (octet in (254, 255)):
                wrong.append(octet)
    rep.check(not wrong, 'C16.2', 'String2Key.__bool__', 'true exactly for usage octets 254, 255',
              'secret material is protected iff the S2K usage octet is 254 or 255', where=sb.where, expected=[254, 255],
              found='differs for %s' % wrong[:8])


def check_pkesk_selection(rep, prog):
    """Addressed itself, the key unwraps the session-key packet that is a public-key session-key packet of its own algorithm
    AND names its own key id.  "Addressed" is a scenario fact (own key id in message.encrypters, whichever way the test is
    spelled or oriented); the selection filter is evaluated as a boolean function."""
    fi = prog.method('pgpy.pgp', 'PGPKey', 'decrypt')
    me, msg = fi.params[0], fi.params[1]
    own = '%s.fingerprint.keyid' % me

    def oracle(t):
        m = re.match(r'^\((.+?) (not in|in) (.+)\)$', t)
        if m and m.group(1) == own and m.group(3) in ('%s.encrypters' % msg, 'set(%s.encrypters)' % msg):
            return m.group(2) == 'in'
        return None
    outs = Interp(prog, Scenario(bind={'%s.is_encrypted' % msg: Const(True)}, inline=noinline, oracle=oracle)).run(fi)
    n = 0
    for s in outs:
        if s.raised is not None:
            continue
        dsk = [c for c in s.calls if c[0].endswith('.decrypt_sk')]
        if not dsk:
            rep.violation('C16.6', 'PGPKey.decrypt', 'no decrypt_sk call', 'the key never recovers a session key', where=fi.where)
            continue
        n += 1
        t = dsk[0][0][:-len('.decrypt_sk')]
        m = re.match(r'^next\(EACH\((\$[\d.]+) in %s\._sessionkeys if (.*);\1\)(?:, None)?\)$' % re.escape(msg), t)
        if not m:
            v = t if t in s.bound and s.bound[t] == '%s._sessionkeys' % msg else None
            cond = s.filters.get(v) if v else None
            if cond is None:
                raise AnalysisError('PGPKey.decrypt: selection of the session-key packet %s not understood' % t[:120])
        else:
            v, cond = m.group(1), m.group(2)
        fn = BoolFn(cond)
        want = [('call', 'isinstance', (v, 'PKESessionKey')), ('eq', frozenset(('%s.pkalg' % v, '%s.key_algorithm' % me))),
                ('eq', frozenset(('%s.encrypter' % v, own)))]
        bad = None
        for a in fn.assignments():
            if fn.value(a) and not all(a.get(w) is True for w in want):
                bad = bad or a
        rep.check(bad is None, 'C16.6', 'PGPKey.decrypt', 'session-key packet selection %s' % t[:140],
                  'with several recipients the packet used must be the one addressed to this key id (and algorithm)', where=fi.where,
                  expected='isinstance(pk, PKESessionKey) and pk.pkalg == self.key_algorithm and pk.encrypter == self.fingerprint.keyid',
                  found=t if bad is None else '%s passes a packet under [%s]' % (cond, keyaction._show(bad)))
    if not n:
        rep.violation('C16.6', 'PGPKey.decrypt', 'no decrypt_sk call', 'the key never recovers a session key', where=fi.where)


def check_sessionkey_consumers(rep, prog):
    """Every iteration over a `_sessionkeys` list reads class-specific attributes of an element only where an isinstance test of
    that element guards the read: a filter of the comprehension / generator (placed before the read), or an enclosing `if` in
    a loop body (guard clauses are already nested ifs after canonicalisation)."""
    pk = prog.cls('pgpy.packet.packets', 'PKESessionKeyV3')
    sk = prog.cls('pgpy.packet.packets', 'SKESessionKeyV4')
    common = families.class_attr_names(pk) & families.class_attr_names(sk)

    def is_guard(test, var):
        """isinstance(var, ..) itself, or the first conjunct of an `and` chain"""
        if isinstance(test, ast.BoolOp) and isinstance(test.op, ast.And):
            return is_guard(test.values[0], var)
        return isinstance(test, ast.Call) and dotted(test.func) == 'isinstance' and bool(test.args) and \
            isinstance(test.args[0], ast.Name) and test.args[0].id == var

    def reads(node, var):
        return set(x.attr for x in ast.walk(node) if isinstance(x, ast.Attribute) and isinstance(x.value, ast.Name) and x.value.id == var)

    def unguarded(stmts, var):
        out = set()
        for st in stmts:
            if isinstance(st, ast.If) and is_guard(st.test, var):
                first = st.test.values[0] if isinstance(st.test, ast.BoolOp) else st.test
                out |= reads(first, var) | unguarded(st.orelse, var)
            elif isinstance(st, ast.If):
                out |= reads(st.test, var) | unguarded(st.body, var) | unguarded(st.orelse, var)
            elif isinstance(st, (ast.For, ast.While, ast.With, ast.Try)):
                for part in ('body', 'orelse', 'finalbody'):
                    out |= unguarded(getattr(st, part, []) or [], var)
                for h in getattr(st, 'handlers', []) or []:
                    out |= unguarded(h.body, var)
                for f_ in ('iter', 'test'):
                    if getattr(st, f_, None) is not None:
                        out |= reads(getattr(st, f_), var)
            else:
                out |= reads(st, var)
        return out
    n = 0
    for fn in prog.all_functions():
        for node in ast.walk(fn.node):
            sites = []
            if isinstance(node, (ast.GeneratorExp, ast.ListComp, ast.SetComp, ast.DictComp)):
                for g in node.generators:
                    if isinstance(g.target, ast.Name) and '_sessionkeys' in ast.unparse(g.iter):
                        var, touched, guarded = g.target.id, set(), 'isinstance' in ast.unparse(g.iter)
                        for i in g.ifs:
                            if not guarded:
                                if is_guard(i, var):
                                    guarded = True
                                    first = i.values[0] if isinstance(i, ast.BoolOp) else i
                                    touched |= reads(first, var)
                                else:
                                    touched |= reads(i, var)
                        if not guarded:
                            touched |= reads(node.elt if not isinstance(node, ast.DictComp) else node.value, var)
                            if isinstance(node, ast.DictComp):
                                touched |= reads(node.key, var)
                        sites.append((g.iter, var, touched))
            elif isinstance(node, ast.For) and isinstance(node.target, ast.Name) and '_sessionkeys' in ast.unparse(node.iter):
                var = node.target.id
                pre = 'isinstance' in ast.unparse(node.iter)         # an inner generator may already have filtered
                sites.append((node.iter, var, set() if pre else unguarded(node.body, var)))
            for it, var, touched in sites:
                n += 1
                specific = sorted(a for a in touched if a not in common)
                rep.check(not specific, 'C16.6', fn.qualname, 'iteration over %s touching %s' % (ast.unparse(it)[:50], specific),
                          'a message can carry public-key and passphrase session-key packets at once; class-specific fields %s are read '
                          'without an isinstance filter' % specific, where='%s:%d' % (fn.module.relpath, node.lineno),
                          expected='isinstance(%s, <class>) filter' % var, found=ast.unparse(node)[:160])
    return n


def check_decrypt_delegation(rep, prog):
    fi = prog.method('pgpy.pgp', 'PGPKey', 'decrypt')
    me, msg = fi.params[0], fi.params[1]
    outs = Interp(prog, Scenario(bind={'%s.is_encrypted' % msg: Const(True)}, inline=noinline)).run(fi)
    seen = False
    subs = ('%s.subkeys' % me, '%s._children' % me)
    enc = '%s.encrypters' % msg
    for s in outs:
        r = render(s.ret) if s.ret is not None else ''
        m = re.match(r'^(.+)\.decrypt\(%s\)$' % re.escape(msg), r)
        if not m or m.group(1) == me:
            continue
        tgt = m.group(1)
        idx = None
        for sb in subs:
            if tgt.startswith(sb + '[') and tgt.endswith(']'):
                idx = tgt[len(sb) + 1:-1]
        if idx is None and tgt in s.bound:
            idx = tgt
        pair = re.match(r'^(\$[\d.]+)_1$', tgt)
        if idx is None and pair and s.bound.get(pair.group(1)) in [sb + '.items()' for sb in subs]:
            idx = pair.group(1) + '_0'
        if idx is None:
            raise AnalysisError('PGPKey.decrypt: delegation target %s not understood' % tgt)
        seen = True
        sets = [r'(?:set\()?%s(?:\.keys\(\))?\)?' % re.escape(sb) for sb in subs]
        encs = r'(?:set\()?%s\)?' % re.escape(enc)
        inter = any(re.search(p, idx) for sp in sets for p in (r'%s & %s' % (sp, encs), r'%s & %s' % (encs, sp),
                                                                  r'%s\.intersection\(%s\)' % (sp, encs), r'%s\.intersection\(%s\)' % (encs, sp)))
        if idx in s.bound and any(re.search(p_, s.bound[idx]) for sp in sets for p_ in (r'%s & %s' % (sp, encs), r'%s & %s' % (encs, sp),
                                                                                    r'%s\.intersection\(%s\)' % (sp, encs), r'%s\.intersection\(%s\)' % (encs, sp))):
            inter = True               # for skid in <own subkey ids> & <recipients>: ...
        member = path_relations(s).get(('cmp', 'in', idx, enc)) is True and \
            (s.bound.get(idx) in subs + tuple(sb + '.keys()' for sb in subs) or (pair is not None and idx == pair.group(1) + '_0'))
        # decryption is not capability-gated: the candidates are ALL own subkeys named by the message - a filtered candidate set
        # (e.g. only subkeys whose binding grants an encryption flag) no longer finds the addressed subkey
        filtered = None
        whole = idx if idx not in s.bound else s.bound[idx] + ' ' + s.filters.get(idx, '')
        m_f = re.search(r'EACH\([^;]*? in (?:%s)(?:\.items\(\)|\.keys\(\)|\.values\(\))? if ([^;]*);' % '|'.join(re.escape(sb) for sb in subs), whole)
        if m_f:
            filtered = m_f.group(1)
        if member:
            v_ = pair.group(1) if pair is not None else idx
            extra = [k for k, val in path_relations(s).items() if k != ('cmp', 'in', idx, enc) and re.search(re.escape(v_) + r'(?!\.?\d)', str(k))]
            if extra or s.filters.get(v_):
                filtered = s.filters.get(v_) or str(extra[0])
        if filtered is not None:
            rep.violation('C16.6', 'PGPKey.decrypt', 'delegation candidates filtered by %s' % filtered[:120],
                          'decryption must find the addressed subkey: every own subkey whose key id is among the message\'s recipients is a '
                          'candidate, whatever its usage flags say', where=fi.where, expected='set(self.subkeys) & set(message.encrypters)', found=r)
            continue
        if not (inter or member) and enc in idx:
            raise AnalysisError('PGPKey.decrypt: choice of the delegate %s not understood' % idx)
        rep.check(inter or member, 'C16.6', 'PGPKey.decrypt', 'delegates to %s' % r,
                  'delegation must go to a subkey whose key id is among the message\'s recipients', where=fi.where, found=r)
    rep.check(seen, 'C16.6', 'PGPKey.decrypt', 'subkey delegation arm', 'a primary key must find and use the addressed subkey', where=fi.where)
    en = prog.method('pgpy.pgp', 'PGPMessage', 'encrypters')
    me = en.params[0]
    forms = ('set(EACH($1in%s._sessionkeysifisinstance($1,PKESessionKey);$1.encrypter))' % me,
             'set().union(EACH($1in%s._sessionkeysifisinstance($1,PKESessionKey);$1.encrypter))' % me,
             '{$1.encrypterfor$1in%s._sessionkeysifisinstance($1,PKESessionKey)}' % me)
    outs = Interp(prog, Scenario(inline=noinline)).run(en)
    each = 'EACH($1in%s._sessionkeysifisinstance($1,PKESessionKey);$1.encrypter)' % me
    forms = forms + (each, 'frozenset(%s)' % each, 'set(list(%s))' % each)        # (a set comprehension renders as the bare iteration term)
    if all(alpha(render(s.ret)).replace(' ', '') in forms for s in outs):
        rep.ok('C16.6', 'PGPMessage.encrypters', 'key ids of the public-key session-key packets')
        return
    # built by a loop: run it for one session-key packet and read the truth table - its recipient id is added to the returned
    # set exactly when the packet is a public-key session-key packet
    el = Sym('SK', nonnull=True)
    outs = Interp(prog, Scenario(unroll={'%s._sessionkeys' % me: [el]}, inline=noinline)).run(en)
    is_pk = ('call', 'isinstance', ('SK', 'PKESessionKey'))
    ok, detail = True, None
    for assign in keyaction.assignments(outs):
        for s in [x for x in outs if keyaction.consistent(x, assign)]:
            r = render(s.ret)
            added = [c[1] for c in s.calls if c[0] in ('%s.add' % r, '%s.append' % r)]
            whole = alpha(r).replace(' ', '')
            if added not in ([], [['SK.encrypter']]) or (not added and whole not in ('set()', 'set([])', '[]', '{SK.encrypter}', 'set([SK.encrypter])')):
                raise AnalysisError('PGPMessage.encrypters: result %s (added %s) not understood' % (r, added))
            has = bool(added) or 'SK.encrypter' in whole
            if assign.get(is_pk) is None:
                ok, detail = False, 'the packet class is not tested'
            elif has != assign.get(is_pk):
                ok, detail = False, 'under [%s] the recipient id is %s' % (keyaction._show(assign), 'added' if has else 'left out')
    rep.check(ok, 'C16.6', 'PGPMessage.encrypters', 'recipient ids collected by a loop',
              'the recipient set is the key ids of the public-key session-key packets of the message', where=en.where, found=detail)
