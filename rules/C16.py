"""C16 - Key-usage policy: operations use a component allowed to perform them, or refuse.

  C16.1 precondition table of every key operation (flags + key-form conditions) = the policy of the statement
  C16.2 KeyAction.__call__: refusals first, preconditions before the action, the action runs on the selected component
  C16.3 usage scan: primary then subkeys, intersection test is the only way to select, for-else raises unless enforcement is off
  C16.4 issuer key id / issuer fingerprint / recipient key id / key material all come from the operating key itself
  C16.5 effective flags come from the MOST RECENT self-signature (consumers of time-sorted collections read the recent end)
  C16.6 decryption finds the addressed component (recipient match, subkey delegation, own session-key packet)
"""
import ast

from sa.interp import Interp, Scenario, Sym, Const, render
from sa.loader import AnalysisError, dotted
from sa import families, keyaction

noinline = lambda f: False  # noqa: E731


def run(rep, prog, tier):
    rep.rule('C16.1', 'KeyAction arguments of each operation equal the policy table', floor=14)
    rep.rule('C16.2', 'order of refusals, precondition check and action in KeyAction.__call__', floor=7)
    rep.rule('C16.3', 'usage scan: order, intersection test, refusal when nothing qualifies', floor=5)
    rep.rule('C16.4', 'ids written and key material used are rooted at the operating key', floor=8)
    rep.rule('C16.5', 'most recent self-signature decides (recency forms on sorted collections)', floor=4)
    rep.rule('C16.6', 'decrypt addressing: recipient match, delegation to the addressed subkey, own PKESK', floor=3)
    rep.assume('SorteDeque keeps signatures sorted ascending by creation time (insort bisects on PGPSignature.__lt__ = created)')

    keyaction.check_table(rep, prog, 'C16.1')
    keyaction.check_call_order(rep, prog, 'C16.2')
    keyaction.check_usage_scan(rep, prog, 'C16.3')
    families.check_ids_rooted_at_self(rep, prog, 'C16.4')
    check_recency(rep, prog)
    check_key_form_predicates(rep, prog)
    families.check_pkesk_selection(rep, prog, 'C16.6')
    families.check_sessionkey_consumers(rep, prog, 'C16.6')
    check_decrypt_delegation(rep, prog)


# ------------------------------------------------------------------------------------------------ C16.5
RECENT_OK = ('reversed', '[-1]', 'max')
RECENT_BAD = ('next(self.', 'next(iter(', '[0]', 'min(')


def classify_recency(expr_text):
    t = expr_text.replace(' ', '')
    if 'reversed(' in t or t.endswith('[-1]') or '[-1].' in t or 'max(' in t:
        return 'recent'
    if t.startswith('next(self.') or t.startswith('next(iter(') or '[0]' in t or 'min(' in t or t.startswith('next(('):
        return 'oldest'
    return 'unknown'


def check_recency(rep, prog):
    # sorting premise
    lt = prog.method('pgpy.pgp', 'PGPSignature', '__lt__')
    for s in Interp(prog, Scenario(inline=noinline)).run(lt):
        rep.check(render(s.ret).replace(' ', '') == '(self.created<other.created)', 'C16.5', 'PGPSignature.__lt__', 'orders by %s' % render(s.ret),
                  'signature collections are ordered by creation time (premise of the recency rule)', where=lt.where)
    ins = prog.method('pgpy.types', 'SorteDeque', 'insort')
    src = ast.unparse(ins.node)
    rep.check('bisect.bisect_left(self, item)' in src and 'self.rotate(-i)' in src.replace(' ', '') and 'self.appendleft(item)' in src and
              'self.rotate(i)' in src, 'C16.5', 'SorteDeque.insort', 'bisect + rotate insert', 'insertion keeps the deque sorted ascending', where=ins.where)
    # PGPUID.selfsig: first match from the recent end
    ss = prog.method('pgpy.pgp', 'PGPUID', 'selfsig')
    loops = [n for n in ast.walk(ss.node) if isinstance(n, ast.For)]
    ok = len(loops) == 1 and classify_recency(ast.unparse(loops[0].iter)) == 'recent' and '_signatures' in ast.unparse(loops[0].iter)
    rep.check(ok, 'C16.5', 'PGPUID.selfsig', 'scan %s' % [ast.unparse(l.iter) for l in loops],
              'the self-signature in effect is the most recent one: the scan must start at the recent end', where=ss.where,
              expected='for sig in reversed(self._signatures)', found=[ast.unparse(l.iter) for l in loops])
    # it returns the first match and compares the issuer with the parent key
    rets = [n for n in ast.walk(ss.node) if isinstance(n, ast.Return) and n.value is not None]
    rep.check(bool(rets) and all(ast.unparse(r.value) == 'sig' for r in rets), 'C16.5', 'PGPUID.selfsig', 'returns the matching signature',
              'the first (most recent) signature issued by the parent key is the self-signature', where=ss.where)
    cmps = [ast.unparse(n).replace(' ', '') for n in ast.walk(ss.node) if isinstance(n, ast.Compare)]
    rep.check('self.parent.fingerprint==sig.signer_fingerprint' in cmps and 'self.parent.fingerprint==sig.signer' in cmps, 'C16.5', 'PGPUID.selfsig',
              'issuer tests %s' % cmps, 'a self-signature is one issued by the key the identity belongs to', where=ss.where)
    # PGPKey._get_key_flags
    gk = prog.method('pgpy.pgp', 'PGPKey', '_get_key_flags')
    for primary in (True, False):
        sc = Scenario(bind={'self.is_primary': Const(primary)}, args={'user': Const(None)}, inline=noinline,
                      axioms={'self._uids': True})
        for s in Interp(prog, sc).run(gk):
            r = render(s.ret)
            if primary:
                ok = 'KeyFlags.Certify' in r and 'selfsig.key_flags' in r
                rep.check(ok, 'C16.5', 'PGPKey._get_key_flags', 'primary: %s' % r[:100],
                          'a primary key has Certify plus the flags of its identity\'s (most recent) self-signature', where=gk.where)
            else:
                kind = classify_recency(r.rsplit('.key_flags', 1)[0]) if r.endswith('.key_flags') else 'unknown'
                if kind == 'unknown':
                    raise AnalysisError('PGPKey._get_key_flags subkey arm: unrecognised selection %s' % r)
                rep.check(kind == 'recent' and 'self_signatures' in r, 'C16.5', 'PGPKey._get_key_flags', 'subkey: %s' % r,
                          'a subkey\'s capability comes from its MOST RECENT binding signature, not the oldest', where=gk.where,
                          expected='next(reversed(list(self.self_signatures))).key_flags', found=r)
    # self_signatures keeps the sorted order (a generator over the deque, filtered)
    sf = prog.cls('pgpy.pgp', 'PGPKey').methods.get('self_signatures')
    srcs = [ast.unparse(n.iter) for n in ast.walk(sf.node) if isinstance(n, ast.comprehension)]
    rep.check(srcs == ['self._signatures'], 'C16.5', 'PGPKey.self_signatures', 'iterates %s' % srcs,
              'the candidates are taken from the time-sorted signature collection in order', where=sf.where)
    t = ast.unparse(sf.node).replace(' ', '')
    rep.check('sig.type==keytype' in t and 'sig.signer==keyid' in t and 'notsig.is_expired' in t, 'C16.5', 'PGPKey.self_signatures', 'filters',
              'self-signatures are those of the right type issued by the owning primary and not expired', where=sf.where)
    # key_flags reads the hashed KeyFlags subpacket
    kf = prog.method('pgpy.pgp', 'PGPSignature', 'key_flags')
    t = ast.unparse(kf.node)
    rep.check("subpackets['h_KeyFlags']" in t, 'C16.5', 'PGPSignature.key_flags', 'reads the hashed KeyFlags subpacket',
              'capabilities must come from the signed (hashed) key-flags subpacket', where=kf.where)


# ------------------------------------------------------------------------------------------------ key-form predicates
def check_key_form_predicates(rep, prog):
    """is_unlocked / is_protected are derived from the packet, so the precondition table means what it says."""
    iu = prog.method('pgpy.pgp', 'PGPKey', 'is_unlocked')
    cases = [({'self.is_public': Const(True)}, 'True'), ({'self.is_public': Const(False), 'self.is_protected': Const(False)}, 'True'),
             ({'self.is_public': Const(False), 'self.is_protected': Const(True)}, 'self._key.unlocked')]
    for bind, want in cases:
        for s in Interp(prog, Scenario(bind=bind, inline=noinline)).run(iu):
            rep.check(render(s.ret) == want, 'C16.2', 'PGPKey.is_unlocked', '%s -> %s' % ({k: render(v) for k, v in bind.items()}, render(s.ret)),
                      'a protected private key counts as unlocked only when its packet says so', where=iu.where, expected=want, found=render(s.ret))
    ul = prog.method('pgpy.packet.packets', 'PrivKeyV4', 'unlocked')
    for s in Interp(prog, Scenario(bind={'self.protected': Const(True)}, inline=noinline)).run(ul):
        rep.check(render(s.ret).replace(' ', '') == '(0notinlist(self.keymaterial))', 'C16.2', 'PrivKeyV4.unlocked', render(s.ret),
                  'a protected key packet is unlocked iff none of its integers is the zero placeholder', where=ul.where)
    pr = prog.method('pgpy.packet.packets', 'PrivKeyV4', 'protected')
    for s in Interp(prog, Scenario(inline=noinline)).run(pr):
        rep.check(render(s.ret) == 'bool(self.keymaterial.s2k)', 'C16.2', 'PrivKeyV4.protected', render(s.ret),
                  'protection is what the S2K usage octet says', where=pr.where)
    sb = prog.method('pgpy.packet.fields', 'String2Key', '__bool__')
    for s in Interp(prog, Scenario(inline=noinline)).run(sb):
        rep.check(render(s.ret).replace(' ', '') == '(self.usagein[254,255])', 'C16.2', 'String2Key.__bool__', render(s.ret),
                  'secret material is protected iff the S2K usage octet is 254 or 255', where=sb.where)


def check_decrypt_delegation(rep, prog):
    fi = prog.method('pgpy.pgp', 'PGPKey', 'decrypt')
    outs = Interp(prog, Scenario(bind={'message.is_encrypted': Const(True)}, inline=noinline)).run(fi)
    seen = False
    for s in outs:
        r = render(s.ret) if s.ret is not None else ''
        if '.decrypt(message)' in r and r.startswith('self.subkeys['):
            seen = True
            rep.check('(set(self.subkeys) & set(message.encrypters))' in r, 'C16.6', 'PGPKey.decrypt', 'delegates to %s' % r,
                      'delegation must go to a subkey whose key id is among the message\'s recipients', where=fi.where, found=r)
    rep.check(seen, 'C16.6', 'PGPKey.decrypt', 'subkey delegation arm', 'a primary key must find and use the addressed subkey', where=fi.where)
    en = prog.method('pgpy.pgp', 'PGPMessage', 'encrypters')
    for s in Interp(prog, Scenario(inline=noinline)).run(en):
        r = render(s.ret)
        rep.check(r.replace(' ', '') == 'set(EACH($1inself._sessionkeysifisinstance($1,PKESessionKey);$1.encrypter))', 'C16.6', 'PGPMessage.encrypters', r,
                  'the recipient set is the key ids of the public-key session-key packets of the message', where=en.where)
