"""C13 - Every operation draws fresh secret randomness of the right size.

  C13.1 sources: gen_iv / gen_key return os.urandom(block/key size // 8); no rebinding, caching or pseudo-random source anywhere
  C13.2 sinks: session key, SKESK salt, SEIPD prefix, key-protection IV + salt, ECDH ephemeral key - on every path the value that
        reaches the sink is an entropy call evaluated inside the operation itself (not a constant, parameter default, attribute,
        global or memo), and of the size of the cipher actually used
  C13.3 the session key flows only into encrypting calls (never stored, returned, or-ed into the message, logged)
"""
import ast
import re

from sa.interp import Interp, Scenario, Sym, Const, Bytes, render, render_items, merge_consts
from sa.loader import AnalysisError, dotted
from sa import taint
from sa import families

noinline = lambda f: False  # noqa: E731

ENC_CALLS = ('encrypt_sk', 'encrypt', '_encrypt', 'aes_key_wrap', 'cipher', 'Cipher', 'derive_key', 'sum', 'bytearray', 'bytes',
             'int_to_bytes', 'update', 'len')


def run(rep, prog, tier):
    rep.rule('C13.1', 'entropy sources are direct os.urandom calls of the right size; nothing rebinds, caches or replaces them', floor=5)
    rep.rule('C13.2', 'every secret random value at its sink is an entropy call made inside the operation, on every path', floor=10)
    rep.rule('C13.3', 'the session key only flows into encrypting calls', floor=6)
    rep.assume('os.urandom and the cryptography key generators return fresh, independent values on every call')

    check_sources(rep, prog)
    families.check_cipher_tables(rep, prog, 'C13.1')
    check_session_key(rep, prog)
    check_skesk_salt(rep, prog)
    check_seipd_prefix(rep, prog)
    check_keyblob(rep, prog)
    check_ecdh(rep, prog)
    check_confinement(rep, prog)
    positive_example(rep)


# ------------------------------------------------------------------------------------------------ C13.1
def check_sources(rep, prog):
    ci = prog.cls('pgpy.constants', 'SymmetricKeyAlgorithm')
    for name, size in (('gen_iv', 'block_size'), ('gen_key', 'key_size')):
        f = ci.methods.get(name)
        if f is None:
            raise AnalysisError('SymmetricKeyAlgorithm.%s vanished' % name)
        rep.saw(fn=f)
        outs = Interp(prog, Scenario(inline=noinline)).run(f)
        for s in outs:
            r = render(s.ret)
            exp = 'os.urandom((self.%s // 8))' % size
            rep.check(r == exp, 'C13.1', 'SymmetricKeyAlgorithm.%s' % name, 'return %s' % r,
                      '%s must return fresh OS randomness of %s // 8 octets' % (name, size), where=f.where, expected=exp, found=r)
        a = f.node.args
        rep.check(not a.defaults and not a.kw_defaults and not f.node.decorator_list, 'C13.1', 'SymmetricKeyAlgorithm.%s' % name,
                  'signature/decorators', 'an entropy source must not be cached or parameterised by a default', where=f.where,
                  found=ast.unparse(f.node).split('\n')[0])
    # whole-package sweep
    n_urandom = 0
    for m in prog.modules.values():
        for n in ast.walk(m.tree):
            if isinstance(n, (ast.Import, ast.ImportFrom)):
                names = [a.name for a in n.names]
                mod = getattr(n, 'module', None) or ''
                if 'random' in names and isinstance(n, ast.Import) or mod == 'random' or mod.startswith('random.'):
                    rep.violation('C13.1', m.relpath, ast.unparse(n), 'the non-cryptographic `random` module is imported',
                                  where='%s:%d' % (m.relpath, n.lineno))
            if isinstance(n, (ast.Assign, ast.AugAssign)):
                tg = n.targets if isinstance(n, ast.Assign) else [n.target]
                for t in tg:
                    d = dotted(t) or ''
                    if d in ('os.urandom', 'urandom') or d.endswith('.gen_key') or d.endswith('.gen_iv') or d.endswith('.generate'):
                        rep.violation('C13.1', m.relpath, ast.unparse(n), 'an entropy source is rebound', where='%s:%d' % (m.relpath, n.lineno))
            if isinstance(n, ast.Call) and (dotted(n.func) or '').endswith('urandom'):
                n_urandom += 1
    for fn in prog.all_functions():
        for d in fn.node.decorator_list:
            dn = dotted(d.func if isinstance(d, ast.Call) else d) or ''
            if dn.split('.')[-1] in ('lru_cache', 'cache', 'cached_property', 'memoize'):
                rep.violation('C13.1', fn.qualname, '@%s' % dn, 'a memoising decorator is used in the package (a cached operation would reuse randomness)',
                              where=fn.where)
        for dflt in list(fn.node.args.defaults) + [k for k in fn.node.args.kw_defaults if k is not None]:
            t = ast.unparse(dflt)
            if 'urandom' in t or 'gen_key' in t or 'gen_iv' in t or '.generate(' in t:
                rep.violation('C13.1', fn.qualname, 'default %s' % t, 'an entropy call in a default argument is evaluated once per process',
                              where=fn.where)
    rep.check(n_urandom >= 4, 'C13.1', 'package', 'os.urandom call sites: %d' % n_urandom,
              'expected the four os.urandom sites (gen_iv, gen_key, two salts)', found=n_urandom)
    # class / module level storage of entropy results
    for m in prog.modules.values():
        for name, v in m.assigns.items():
            t = ast.unparse(v)
            if 'urandom' in t or '.generate(' in t or 'gen_key(' in t or 'gen_iv(' in t:
                rep.violation('C13.1', m.relpath, '%s = %s' % (name, t), 'entropy drawn once at import time', where=m.relpath)
        for c in m.classes.values():
            for name, v in c.attrs.items():
                t = ast.unparse(v)
                if 'urandom' in t or '.generate(' in t or 'gen_key(' in t or 'gen_iv(' in t:
                    rep.violation('C13.1', c.name, '%s = %s' % (name, t), 'entropy drawn once per class', where=c.where)


# ------------------------------------------------------------------------------------------------ session key
def _calls(s, suffix):
    return [c for c in s.calls if c[0].endswith(suffix)]


def check_session_key(rep, prog):
    for mod, cls, meth, esk_suffix, key_index in (('pgpy.pgp', 'PGPMessage', 'encrypt', 'skesk.encrypt_sk', 1),
                                                  ('pgpy.pgp', 'PGPKey', 'encrypt', 'pkesk.encrypt_sk', 2)):
        fi = prog.method(mod, cls, meth)
        rep.saw(fn=fi)
        construct = '%s.%s' % (cls, meth)
        for given in (False, True):
            args = {'sessionkey': Sym('sessionkey', nonnull=True) if given else Const(None)}
            bind = {'self.is_encrypted': Const(False), 'message.is_encrypted': Const(False)}
            sc = Scenario(args=args, bind=bind, inline=noinline)
            outs = Interp(prog, sc).run(fi)
            rep.analysed['paths'] += len(outs)
            scen = 'sessionkey %s' % ('supplied' if given else 'None')
            for s in outs:
                if s.raised:
                    continue
                esk = [c for c in s.calls if c[0].split('.')[-1] == 'encrypt_sk']
                data = [c for c in s.calls if c[0].endswith('skedata.encrypt')]
                rep.analysed['call_sites'] += len(esk) + len(data)
                if len(esk) != 1 or len(data) != 1:
                    rep.violation('C13.2', construct, '%s: %d encrypt_sk / %d data encrypt calls' % (scen, len(esk), len(data)),
                                  'expected exactly one session-key packet and one container encryption', where=fi.where, scenario=scen)
                    continue
                k_esk = esk[0][1][key_index] if len(esk[0][1]) > key_index else None
                k_data = data[0][1][0] if data[0][1] else None
                alg_data = data[0][1][1] if len(data[0][1]) > 1 else None
                rep.check(k_esk == k_data and k_esk is not None, 'C13.2', construct, '%s: ESK key %s vs data key %s' % (scen, k_esk, k_data),
                          'the key wrapped in the session-key packet must be the key the data is encrypted with', where=fi.where,
                          expected='same value', found='%s / %s' % (k_esk, k_data), scenario=scen)
                if given:
                    rep.check(k_data == 'sessionkey', 'C13.2', construct, '%s: key %s' % (scen, k_data),
                              'a caller-supplied session key must be the one used', where=fi.where, expected='sessionkey', found=k_data,
                              scenario=scen)
                else:
                    m = taint.entropy_call(k_data or '')
                    ok = m is not None and (k_data or '').endswith('.gen_key()') and m.group('alg') == alg_data
                    rep.check(ok, 'C13.2', construct, '%s: session key = %s' % (scen, k_data),
                              'when no session key is supplied it must be <cipher>.gen_key() of the cipher the data is encrypted with, '
                              'generated inside this call', where=fi.where, expected='%s.gen_key()' % alg_data, found=k_data, scenario=scen)
                # cipher recorded in the ESK is the cipher used
                if cls == 'PGPMessage':
                    enc = [v for p, v, l, _ in s.stores if p == 'skesk.s2k.encalg']
                    rep.check(enc == [alg_data], 'C13.2', construct, '%s: skesk cipher %s, data cipher %s' % (scen, enc, alg_data),
                              'the passphrase packet must name the cipher the data is encrypted with', where=fi.where, scenario=scen,
                              expected=alg_data, found=enc)
                else:
                    a = esk[0][1][1] if len(esk[0][1]) > 1 else None
                    rep.check(a == alg_data, 'C13.2', construct, '%s: pkesk cipher %s, data cipher %s' % (scen, a, alg_data),
                              'the session-key packet must name the cipher the data is encrypted with', where=fi.where, scenario=scen,
                              expected=alg_data, found=a)


def check_skesk_salt(rep, prog):
    fi = prog.method('pgpy.packet.packets', 'SKESessionKeyV4', 'encrypt_sk')
    rep.saw(fn=fi)
    outs = Interp(prog, Scenario(inline=noinline)).run(fi)
    for s in outs:
        salts = [(v, l) for p, v, l, _ in s.stores if p == 'self.s2k.salt']
        ok = len(salts) == 1 and salts[0][0] == 'os.urandom(8)'
        rep.check(ok, 'C13.2', 'SKESessionKeyV4.encrypt_sk', 'salt = %s' % [v for v, _ in salts],
                  'every passphrase encryption must draw a fresh 8-octet salt', where=fi.where, expected='self.s2k.salt = os.urandom(8)',
                  found=[v for v, _ in salts])
        # the salt is set before the key is derived from it
        order = [e for e in s.events if (e[0] == 'store' and e[1] == 'self.s2k.salt') or (e[0] == 'call' and e[1].endswith('derive_key'))]
        rep.check([e[0] for e in order] == ['store', 'call'], 'C13.2', 'SKESessionKeyV4.encrypt_sk', 'order %s' % [e[0] for e in order],
                  'the fresh salt must be in place before the key-encryption key is derived', where=fi.where)


def check_seipd_prefix(rep, prog):
    fi = prog.method('pgpy.packet.packets', 'IntegrityProtectedSKEDataV1', 'encrypt')
    rep.saw(fn=fi)
    outs = Interp(prog, Scenario(inline=noinline)).run(fi)
    for s in outs:
        enc = [c for c in s.calls if c[0] == '_encrypt']
        if len(enc) != 1:
            rep.violation('C13.2', 'IntegrityProtectedSKEDataV1.encrypt', '%d _encrypt calls' % len(enc), 'expected one encryption',
                          where=fi.where)
            continue
        pt = enc[0][1][0]
        rep.check(pt.startswith('alg.gen_iv() SLICE(alg.gen_iv();-2;) data '), 'C13.2', 'IntegrityProtectedSKEDataV1.encrypt',
                  'plaintext %s' % pt[:80], 'the plaintext must start with a fresh random block of the cipher in use, its last two octets repeated',
                  where=fi.where, expected='alg.gen_iv() SLICE(alg.gen_iv();-2;) data ...', found=pt[:120])
        rep.check(enc[0][1][2] == 'alg' and len(enc[0][1]) == 3 and not enc[0][2], 'C13.2', 'IntegrityProtectedSKEDataV1.encrypt',
                  '_encrypt args %s' % enc[0][1][1:], 'encryption must use the same cipher the prefix was sized for (zero IV)', where=fi.where)


def check_keyblob(rep, prog):
    fi = prog.method('pgpy.packet.fields', 'PrivKey', 'encrypt_keyblob')
    rep.saw(fn=fi)
    outs = Interp(prog, Scenario(inline=noinline)).run(fi)
    for s in outs:
        iv = [v for p, v, l, _ in s.stores if p == 'self.s2k.iv']
        salt = [v for p, v, l, _ in s.stores if p == 'self.s2k.salt']
        alg = [v for p, v, l, _ in s.stores if p == 'self.s2k.encalg']
        rep.check(iv == ['enc_alg.gen_iv()'] and alg == ['enc_alg'], 'C13.2', 'PrivKey.encrypt_keyblob', 'iv = %s (cipher %s)' % (iv, alg),
                  'key protection must draw a fresh IV of the protection cipher', where=fi.where, expected='self.s2k.iv = enc_alg.gen_iv()',
                  found=iv)
        rep.check(salt == ['os.urandom(8)'], 'C13.2', 'PrivKey.encrypt_keyblob', 'salt = %s' % salt,
                  'key protection must draw a fresh 8-octet salt', where=fi.where, expected='self.s2k.salt = os.urandom(8)', found=salt)
        enc = [c for c in s.calls if c[0] == '_encrypt']
        ok = len(enc) == 1 and len(enc[0][1]) == 4 and enc[0][1][3] == 'enc_alg.gen_iv()' and enc[0][1][2] == 'enc_alg'
        rep.check(ok, 'C13.2', 'PrivKey.encrypt_keyblob', '_encrypt(%s)' % (enc[0][1][1:] if enc else None),
                  'the secret material must be encrypted under the IV that is stored with the key', where=fi.where,
                  expected='_encrypt(pt, key, enc_alg, <the stored iv>)', found=enc[0][1] if enc else None)
        order = [e[1] if e[0] == 'store' else 'derive' for e in s.events
                 if (e[0] == 'store' and e[1] in ('self.s2k.salt',)) or (e[0] == 'call' and e[1].endswith('derive_key'))]
        rep.check(order == ['self.s2k.salt', 'derive'], 'C13.2', 'PrivKey.encrypt_keyblob', 'order %s' % order,
                  'the fresh salt must be in place before the key is derived', where=fi.where)


def check_ecdh(rep, prog):
    fi = prog.method('pgpy.packet.fields', 'ECDHCipherText', 'encrypt')
    rep.saw(fn=fi)
    outs = Interp(prog, Scenario(inline=noinline)).run(fi)
    rep.analysed['paths'] += len(outs)
    if len(outs) < 2:
        raise AnalysisError('ECDHCipherText.encrypt: expected the two curve arms, found %d path(s)' % len(outs))
    for s in outs:
        scen = '; '.join('%s=%s' % (f[0], f[1]) for f in s.facts)
        ex = [c for c in s.calls if c[0].endswith('.exchange')]
        if len(ex) != 1:
            rep.violation('C13.2', 'ECDHCipherText.encrypt', '%d key exchanges' % len(ex), 'expected one ECDH exchange', where=fi.where,
                          scenario=scen)
            continue
        v = ex[0][0][:-len('.exchange')]
        m = taint.entropy_call(v)
        rep.check(m is not None, 'C13.2', 'ECDHCipherText.encrypt', 'ephemeral key = %s' % v,
                  'each ECDH encryption must generate a new ephemeral key inside the call', where=fi.where,
                  expected='X25519PrivateKey.generate() / ec.generate_private_key(curve of the recipient)', found=v, scenario=scen)
        if m is not None and 'curve' in m.groupdict() and m.group('curve'):
            rep.check(m.group('curve') == 'pk.keymaterial.oid.curve()', 'C13.2', 'ECDHCipherText.encrypt', 'curve %s' % m.group('curve'),
                      'the ephemeral key must be on the recipient\'s curve', where=fi.where, scenario=scen)
        # the public point written is derived from the same ephemeral key
        pts = [val for p, val, l, _ in s.stores if p.endswith('.p')]
        def deftext(n):
            val = s.env.get(n, Sym(n))
            return getattr(val, 'text', None) or render(val)
        ok = len(pts) == 1 and (v + '.public_key()' in pts[0] or all(v + '.public_key()' in deftext(n)
                                                                      for n in ('x', 'y') if re.search(r'\b%s\b' % n, pts[0])))
        rep.check(ok, 'C13.2', 'ECDHCipherText.encrypt', 'public point %s' % (pts[0][:80] if pts else None),
                  'the ephemeral public point in the packet must belong to the ephemeral key that was used', where=fi.where, scenario=scen)
        # the peer is the recipient's public key
        peer = ex[0][1][-1] if ex[0][1] else None
        rep.check(peer == 'pk.keymaterial.__pubkey__()', 'C13.2', 'ECDHCipherText.encrypt', 'peer %s' % peer,
                  'the shared secret must be computed with the recipient public key', where=fi.where, scenario=scen)


# ------------------------------------------------------------------------------------------------ C13.3
def check_confinement(rep, prog):
    targets = [
        ('pgpy.pgp', 'PGPMessage', 'encrypt', 'sessionkey', {'sessionkey': Sym('sessionkey', nonnull=True)}),
        ('pgpy.pgp', 'PGPKey', 'encrypt', 'sessionkey', {'sessionkey': Sym('sessionkey', nonnull=True)}),
        ('pgpy.packet.packets', 'PKESessionKeyV3', 'encrypt_sk', 'symkey', {}),
        ('pgpy.packet.packets', 'SKESessionKeyV4', 'encrypt_sk', 'sk', {}),
        ('pgpy.packet.packets', 'IntegrityProtectedSKEDataV1', 'encrypt', 'key', {}),
        ('pgpy.packet.fields', 'ECDHCipherText', 'encrypt', 'args', {}),
        ('pgpy.packet.fields', 'RSACipherText', 'encrypt', 'args', {}),
    ]
    for mod, cls, meth, name, args in targets:
        fi = prog.method(mod, cls, meth)
        rep.saw(fn=fi)
        construct = '%s.%s' % (cls, meth)
        bind = {'self.is_encrypted': Const(False), 'message.is_encrypted': Const(False)}
        outs = Interp(prog, Scenario(args=args, bind=bind, inline=noinline)).run(fi)
        bad = []
        for s in outs:
            for kind, text, line in taint.leaks(s, name, ENC_CALLS + ('encfn', 'padder', 'PKCS7', 'MPI', 'bytes_to_int')):
                if (kind, text) not in [(b[0], b[1]) for b in bad]:
                    bad.append((kind, text, line))
        if cls in ('PGPMessage', 'PGPKey'):
            # also the generated key
            outs2 = Interp(prog, Scenario(args={'sessionkey': Const(None)}, bind=bind, inline=noinline)).run(fi)
            for s in outs2:
                for kind, text, line in taint.leaks(s, 'gen_key()', ENC_CALLS):
                    pass
                for p, v, l, _ in s.stores:
                    if 'gen_key()' in taint.strip_calls(v, ENC_CALLS):
                        bad.append(('store', '%s = %s' % (p, v), l))
                for e in s.events:
                    if e[0] == 'return' and 'gen_key()' in taint.strip_calls(e[1], ENC_CALLS):
                        bad.append(('return', e[1], e[2]))
                    if e[0] == 'ior' and ('gen_key()' in e[2]):
                        bad.append(('ior', '%s |= %s' % (e[1], e[2]), e[3]))
        if bad:
            for kind, text, line in bad:
                rep.violation('C13.3', construct, '%s: %s' % (kind, text[:160]),
                              'the session key escapes other than through an encrypting call (%s)' % kind,
                              where='%s:%d' % (fi.module.relpath, line), expected='only encrypt_sk / encrypt / _encrypt / key-wrap arguments',
                              found=text[:300])
        else:
            rep.ok('C13.3', construct, 'session key `%s` reaches only encrypting calls' % name)


def positive_example(rep):
    """Rules whose expected match count is zero keep a tiny positive example that must fire on every run."""
    class S(object):
        stores = [('msg._sk', 'sessionkey', 1, None)]
        events = [('return', '(msg | sessionkey)', 2)]
        calls = [('logging.debug', ['sessionkey'], {}, 3, None)]
    got = taint.leaks(S, 'sessionkey', ENC_CALLS)
    rep.check(len(got) == 3, 'C13.3', 'embedded positive example', 'leak detector on a leaking snippet: %d hits' % len(got),
              'the confinement rule must fire on its embedded positive example', found=got)
    rep.check(taint.entropy_call('os.urandom(8)') is not None and taint.entropy_call('SALT') is None and
              taint.entropy_call('self._cached_salt') is None, 'C13.2', 'embedded positive example', 'entropy classifier',
              'the entropy classifier must reject constants and cached attributes')
