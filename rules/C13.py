"""C13 - Every operation draws fresh secret randomness of the right size.

  C13.1 sources: gen_iv / gen_key return os.urandom(block/key size // 8); no rebinding, caching or pseudo-random source anywhere
  C13.2 sinks: session key, SKESK salt, SEIPD prefix, key-protection IV + salt, ECDH ephemeral key - on every path the value that
        reaches the sink is an entropy call evaluated inside the operation itself (not a constant, parameter default, attribute,
        global or memo), and of the size of the cipher actually used
  C13.3 the session key flows only into encrypting calls (never stored, returned, or-ed into the message, logged)
"""
import ast
import re

from sa.interp import Sym, Const, render, sl
from sa.loader import AnalysisError, dotted
from sa import taint
from sa import families
from sa.taint import run_roles, split_items, split_args, int_equiv

# callees whose RESULT no longer exposes the key (encryption / key wrap), and callees the key may merely be handed to
SANITIZERS = ('encrypt_sk', 'encrypt', '_encrypt', 'aes_key_wrap', 'cipher', 'Cipher', 'encfn')
# observers: their RESULT is a function of the size / type of the value only (the size of a session key is public: the cipher fixes it),
# so an error message or a warning built from them does not expose the key; memoryview(x) is allowed as a call only (its result IS the
# key), `memoryview(x).nbytes` reads as len(x) (sa/taint.strip_calls)
OBSERVERS = ('len', 'type', 'isinstance')
SANITIZERS = SANITIZERS + OBSERVERS
CARRIERS = SANITIZERS + ('memoryview', 'derive_key', 'sum', 'bytearray', 'bytes', 'int_to_bytes', 'update', 'len', 'padder', 'PKCS7', 'MPI', 'bytes_to_int',
                         'divmod', 'reduce', 'to_bytes', 'partial')
BITS = [64, 128, 192, 256]


def run(rep, prog, tier):
    rep.rule('C13.1', 'entropy sources are direct os.urandom calls of the right size; nothing rebinds, caches or replaces them', floor=5)
    rep.rule('C13.2', 'every secret random value at its sink is an entropy call made inside the operation, on every path', floor=10)
    rep.rule('C13.3', 'the session key only flows into encrypting calls', floor=6)
    rep.assume('os.urandom and the cryptography key generators return fresh, independent values on every call')

    check_sources(rep, prog)
    families.check_cipher_tables(rep, prog, 'C13.1')
    check_session_key(rep, prog)
    check_skesk_salt(rep, prog)
    check_seipd_prefix(rep, prog)
    check_keyblob(rep, prog)
    check_ecdh(rep, prog)
    check_confinement(rep, prog)
    positive_example(rep)


# ------------------------------------------------------------------------------------------------ C13.1
def check_sources(rep, prog):
    ci = prog.cls('pgpy.constants', 'SymmetricKeyAlgorithm')
    for name, size in (('gen_iv', 'block_size'), ('gen_key', 'key_size')):
        f = ci.methods.get(name)
        if f is None and isinstance(ci.attrs.get(name), ast.Name):
            f = ci.methods.get(ci.attrs[name].id)           # `gen_key = gen_iv` in the class body: the aliased method IS gen_key
        if f is None:
            raise AnalysisError('SymmetricKeyAlgorithm.%s vanished' % name)
        rep.saw(fn=f)
        outs = run_roles(prog, f, ('self',))
        for s in outs:
            r = taint.qualify_imports(render(s.ret), f.module)
            if size == 'block_size':
                r = r.replace('self.cipher.block_size', 'self.block_size')       # block_size IS the bound cipher's (checked with the cipher tables)
            exp = 'os.urandom((self.%s // 8))' % size
            c = split_args(r)
            ok = s.raised is None and c is not None and c[0] == 'os.urandom' and len(c[1]) == 1 and \
                int_equiv(c[1][0], lambda B: B // 8, {'self.%s' % size: ('B', BITS)}) is True
            rep.check(ok, 'C13.1', 'SymmetricKeyAlgorithm.%s' % name, 'return %s' % r,
                      '%s must return fresh OS randomness of %s // 8 octets' % (name, size), where=f.where, expected=exp, found=r)
        a = f.node.args
        rep.check(not a.defaults and not a.kw_defaults and not f.node.decorator_list, 'C13.1', 'SymmetricKeyAlgorithm.%s' % name,
                  'signature/decorators', 'an entropy source must not be cached or parameterised by a default', where=f.where,
                  found=ast.unparse(f.node).split('\n')[0])
    # whole-package sweep
    n_urandom = 0
    for m in prog.modules.values():
        for n in ast.walk(m.tree):
            if isinstance(n, (ast.Import, ast.ImportFrom)):
                names = [a.name for a in n.names]
                mod = getattr(n, 'module', None) or ''
                if 'random' in names and isinstance(n, ast.Import) or mod == 'random' or mod.startswith('random.'):
                    rep.violation('C13.1', m.relpath, ast.unparse(n), 'the non-cryptographic `random` module is imported',
                                  where='%s:%d' % (m.relpath, n.lineno))
            if isinstance(n, (ast.Assign, ast.AugAssign)):
                tg = n.targets if isinstance(n, ast.Assign) else [n.target]
                for t in tg:
                    d = dotted(t) or ''
                    if d in ('os.urandom', 'urandom') or d.endswith('.gen_key') or d.endswith('.gen_iv') or d.endswith('.generate'):
                        rep.violation('C13.1', m.relpath, ast.unparse(n), 'an entropy source is rebound', where='%s:%d' % (m.relpath, n.lineno))
            if (isinstance(n, ast.Attribute) and n.attr == 'urandom' and isinstance(n.ctx, ast.Load)) or \
                    (isinstance(n, ast.Name) and n.id == 'urandom' and isinstance(n.ctx, ast.Load)) or \
                    (isinstance(n, ast.Call) and dotted(n.func) == 'getattr' and len(n.args) >= 2 and isinstance(n.args[1], ast.Constant) and
                     n.args[1].value == 'urandom'):
                n_urandom += 1          # a use of the OS source (called directly, through a local alias or getattr)
    for fn in prog.all_functions():
        for d in fn.node.decorator_list:
            dn = dotted(d.func if isinstance(d, ast.Call) else d) or ''
            if dn.split('.')[-1] in ('lru_cache', 'cache', 'cached_property', 'memoize'):
                rep.violation('C13.1', fn.qualname, '@%s' % dn, 'a memoising decorator is used in the package (a cached operation would reuse randomness)',
                              where=fn.where)
        for dflt in list(fn.node.args.defaults) + [k for k in fn.node.args.kw_defaults if k is not None]:
            for c in entropy_call_nodes(dflt):
                rep.violation('C13.1', fn.qualname, 'default %s' % ast.unparse(dflt), 'an entropy call in a default argument is evaluated once per process',
                              where=fn.where, found=ast.unparse(c))
    rep.check(n_urandom >= 4, 'C13.1', 'package', 'os.urandom call sites: %d' % n_urandom,
              'expected the four os.urandom sites (gen_iv, gen_key, two salts)', found=n_urandom)
    # class / module level storage of entropy results (an entropy CALL evaluated when the module / class body runs)
    for m in prog.modules.values():
        for name, v in m.assigns.items():
            for c in entropy_call_nodes(v):
                rep.violation('C13.1', m.relpath, '%s = %s' % (name, ast.unparse(v)), 'entropy drawn once at import time', where=m.relpath,
                              found=ast.unparse(c))
        for c in m.classes.values():
            for name, v in c.attrs.items():
                for x in entropy_call_nodes(v):
                    rep.violation('C13.1', c.name, '%s = %s' % (name, ast.unparse(v)), 'entropy drawn once per class', where=c.where,
                                  found=ast.unparse(x))


ENTROPY_FUNCS = ('urandom', 'gen_key', 'gen_iv', 'generate', 'generate_private_key', 'token_bytes', 'getrandbits')


def entropy_call_nodes(node):
    """Calls of an entropy source evaluated when `node` is evaluated (a lambda body is not: it draws on each call)."""
    out = []
    todo = [node]
    while todo:
        n = todo.pop()
        if isinstance(n, ast.Lambda):
            continue
        if isinstance(n, ast.Call):
            f = n.func
            name = f.attr if isinstance(f, ast.Attribute) else (f.id if isinstance(f, ast.Name) else None)
            if name in ENTROPY_FUNCS:
                out.append(n)
        todo.extend(ast.iter_child_nodes(n))
    return out


# ------------------------------------------------------------------------------------------------ session key
def check_session_key(rep, prog):
    for cls in ('PGPMessage', 'PGPKey'):
        construct = '%s.encrypt' % cls
        for given in (False, True):
            fi, paths = families.encrypt_operation_paths(prog, cls, given)
            rep.saw(fn=fi)
            rep.analysed['paths'] += len(paths)
            scen = 'sessionkey %s' % ('supplied' if given else 'None')
            if not paths:
                raise AnalysisError('%s: no returning path for a message that is not yet encrypted' % construct)
            for d in paths:
                esk, data = d['esk'], d['data']
                rep.analysed['call_sites'] += len(esk) + len(data)
                if len(esk) != 1 or len(data) != 1:
                    rep.violation('C13.2', construct, '%s: %d encrypt_sk / %d data encrypt calls' % (scen, len(esk), len(data)),
                                  'expected exactly one session-key packet and one container encryption', where=fi.where, scenario=scen)
                    continue
                k_esk, k_data, alg_data = d['esk_key'], d['data_key'], d['data_alg']
                rep.check(k_esk == k_data and k_esk is not None, 'C13.2', construct, '%s: ESK key %s vs data key %s' % (scen, k_esk, k_data),
                          'the key wrapped in the session-key packet must be the key the data is encrypted with', where=fi.where,
                          expected='same value', found='%s / %s' % (k_esk, k_data), scenario=scen)
                if given:
                    rep.check(k_data == 'sessionkey', 'C13.2', construct, '%s: key %s' % (scen, k_data),
                              'a caller-supplied session key must be the one used', where=fi.where, expected='sessionkey', found=k_data,
                              scenario=scen)
                else:
                    # one draw of the data cipher's key size: both packets get THE key, not two equal-looking ones
                    ok = taint.fresh_draw(taint.qualify_imports(k_data, fi.module)) == ('key', alg_data) and taint.n_draws(d['state']) == 1
                    rep.check(ok, 'C13.2', construct, '%s: session key = %s' % (scen, k_data),
                              'when no session key is supplied it must be <cipher>.gen_key() of the cipher the data is encrypted with, '
                              'generated inside this call', where=fi.where, expected='%s.gen_key()' % alg_data, found=k_data, scenario=scen)
                if cls == 'PGPMessage':
                    spec = [v for p, v, l, _ in d['state'].stores if p == d['esk_obj'] + '.s2k.specifier']
                    rep.check(len(spec) == 1 and spec[0] in ('3', '1', 'String2KeyType.Iterated', 'String2KeyType.Salted'), 'C13.2', construct,
                              '%s: S2K specifier %s' % (scen, spec), 'the passphrase packet must use a salted S2K so that the fresh salt takes effect '
                              '(RFC 4880 5.3: the IV is zero)', where=fi.where, scenario=scen, expected='3 (iterated and salted)', found=spec)
                # cipher recorded in the ESK is the cipher used
                rep.check(d['esk_alg'] == [alg_data], 'C13.2', construct, '%s: ESK cipher %s, data cipher %s' % (scen, d['esk_alg'], alg_data),
                          'the session-key packet must name the cipher the data is encrypted with', where=fi.where, scenario=scen,
                          expected=alg_data, found=d['esk_alg'])


def _salt_then_derive(s):
    return [('store' if e[0] == 'store' else 'derive') for e in s.events
            if (e[0] == 'store' and e[1] == 'self.s2k.salt') or (e[0] == 'call' and e[1] == 'self.s2k.derive_key')]


def check_skesk_salt(rep, prog):
    fi = prog.method('pgpy.packet.packets', 'SKESessionKeyV4', 'encrypt_sk')
    rep.saw(fn=fi)
    for s in run_roles(prog, fi, ('self', 'passphrase', 'sk')):
        if s.raised:
            continue
        salts = [v for p, v, l, _ in s.stores if p == 'self.s2k.salt']
        rep.check(len(salts) == 1 and taint.is_urandom_of(salts[0], 8, fi.module) and taint.n_draws(s) == 1, 'C13.2', 'SKESessionKeyV4.encrypt_sk',
                  'salt = %s' % salts,
                  'every passphrase encryption must draw a fresh 8-octet salt', where=fi.where, expected='self.s2k.salt = os.urandom(8)',
                  found=salts)
        # the salt is set before the key is derived from it
        order = _salt_then_derive(s)
        rep.check(order == ['store', 'derive'], 'C13.2', 'SKESessionKeyV4.encrypt_sk', 'order %s' % order,
                  'the fresh salt must be in place before the key-encryption key is derived', where=fi.where)


def check_seipd_prefix(rep, prog):
    fi = prog.method('pgpy.packet.packets', 'IntegrityProtectedSKEDataV1', 'encrypt')
    rep.saw(fn=fi)
    W = 'IntegrityProtectedSKEDataV1.encrypt'
    PREFIX = ['alg.gen_iv()', sl('alg.gen_iv()', (-2, '')), 'data']
    for s in run_roles(prog, fi, ('self', 'key', 'alg', 'data')):
        if s.raised:
            continue
        enc = taint.calls_named(s, '_encrypt')
        if len(enc) != 1:
            rep.violation('C13.2', W, '%d _encrypt calls' % len(enc), 'expected one encryption', where=fi.where)
            continue
        a = list(enc[0][1])
        its = split_items(a[0]) if a else []
        its = [taint.qualify_imports(x, fi.module) for x in its]
        rep.check(taint.random_prefix(its, 'alg', 'data') is not None and len(its) > 3 and taint.n_draws(s) == 1, 'C13.2', W,
                  'plaintext %s' % ' '.join(its)[:80],
                  'the plaintext must start with a fresh random block of the cipher in use, its last two octets repeated',
                  where=fi.where, expected=' '.join(PREFIX) + ' ...', found=' '.join(its)[:120])
        rep.check(len(a) == 3 and a[2] == 'alg' and not enc[0][2], 'C13.2', W, '_encrypt args %s' % a[1:],
                  'encryption must use the same cipher the prefix was sized for (zero IV)', where=fi.where)


def check_keyblob(rep, prog):
    fi = prog.method('pgpy.packet.fields', 'PrivKey', 'encrypt_keyblob')
    rep.saw(fn=fi)
    for s in run_roles(prog, fi, ('self', 'passphrase', 'enc_alg', 'hash_alg')):
        if s.raised:
            continue
        iv = [v for p, v, l, _ in s.stores if p == 'self.s2k.iv']
        salt = [v for p, v, l, _ in s.stores if p == 'self.s2k.salt']
        alg = [v for p, v, l, _ in s.stores if p == 'self.s2k.encalg']
        iv = [taint.qualify_imports(x, fi.module) for x in iv]
        rep.check(len(iv) == 1 and taint.fresh_draw(iv[0]) == ('iv', 'enc_alg') and alg == ['enc_alg'] and taint.n_draws(s) == 2, 'C13.2',
                  'PrivKey.encrypt_keyblob',
                  'iv = %s (cipher %s)' % (iv, alg),
                  'key protection must draw a fresh IV of the protection cipher', where=fi.where, expected='self.s2k.iv = enc_alg.gen_iv()',
                  found=iv)
        rep.check(len(salt) == 1 and taint.is_urandom_of(salt[0], 8, fi.module), 'C13.2', 'PrivKey.encrypt_keyblob', 'salt = %s' % salt,
                  'key protection must draw a fresh 8-octet salt', where=fi.where, expected='self.s2k.salt = os.urandom(8)', found=salt)
        spec = [v for p, v, l, _ in s.stores if p == 'self.s2k.specifier']
        rep.check(len(spec) == 1 and spec[0] in ('3', '1', 'String2KeyType.Iterated', 'String2KeyType.Salted'), 'C13.2', 'PrivKey.encrypt_keyblob',
                  'S2K specifier %s' % spec, 'key protection must use a salted S2K so that the fresh salt takes effect', where=fi.where,
                  expected='String2KeyType.Iterated', found=spec)
        enc = taint.calls_named(s, '_encrypt')
        ok = len(enc) == 1 and len(enc[0][1]) == 4 and not enc[0][2] and [taint.qualify_imports(enc[0][1][3], fi.module)] == iv and \
            enc[0][1][2] == 'enc_alg'
        rep.check(ok, 'C13.2', 'PrivKey.encrypt_keyblob', '_encrypt(%s)' % (enc[0][1][1:] if enc else None),
                  'the secret material must be encrypted under the IV that is stored with the key', where=fi.where,
                  expected='_encrypt(pt, key, enc_alg, <the stored iv>)', found=enc[0][1] if enc else None)
        order = _salt_then_derive(s)
        rep.check(order == ['store', 'derive'], 'C13.2', 'PrivKey.encrypt_keyblob', 'order %s' % order,
                  'the fresh salt must be in place before the key is derived', where=fi.where)


def check_ecdh(rep, prog):
    fi = prog.method('pgpy.packet.fields', 'ECDHCipherText', 'encrypt')
    rep.saw(fn=fi)
    outs = [s for s in run_roles(prog, fi, ('cls', 'pk'), vararg=['m']) if not s.raised]
    rep.analysed['paths'] += len(outs)
    if len(outs) < 2:
        raise AnalysisError('ECDHCipherText.encrypt: expected the two curve arms, found %d path(s)' % len(outs))
    for s in outs:
        scen = '; '.join('%s=%s' % (f[0], f[1]) for f in s.facts)
        ex = [c for c in s.calls if c[0].endswith('.exchange')]
        if len(ex) != 1:
            rep.violation('C13.2', 'ECDHCipherText.encrypt', '%d key exchanges' % len(ex), 'expected one ECDH exchange', where=fi.where,
                          scenario=scen)
            continue
        v = ex[0][0][:-len('.exchange')]
        m = taint.entropy_call(v)
        ndraw = len(taint.draws(s, 'generate')) + len(taint.draws(s, 'generate_private_key'))
        rep.check(m is not None and ndraw == 1, 'C13.2', 'ECDHCipherText.encrypt', 'ephemeral key = %s' % v,
                  'each ECDH encryption must generate a new ephemeral key inside the call', where=fi.where,
                  expected='X25519PrivateKey.generate() / ec.generate_private_key(curve of the recipient)', found=v, scenario=scen)
        if m is not None and 'curve' in m.groupdict() and m.group('curve'):
            rep.check(m.group('curve') == 'pk.keymaterial.oid.curve()', 'C13.2', 'ECDHCipherText.encrypt', 'curve %s' % m.group('curve'),
                      'the ephemeral key must be on the recipient\'s curve', where=fi.where, scenario=scen)
        # the public point written is derived from the same ephemeral key: every coordinate handed to the point constructor is read
        # from <that key>.public_key()
        pts = [taint.expand_objs(s, val) for p, val, l, _ in s.stores if p.endswith('.p')]
        ok = len(pts) == 1
        if ok:
            r = split_args(pts[0])
            coords = [a for a in (r[1] if r else []) if 'public_key()' in a or 'generate' in a]
            ok = r is not None and bool(coords) and all((v + '.public_key()') in a for a in coords) and \
                not any(x in pts[0].replace(v, '<EPH>') for x in ('generate(', 'generate_private_key('))
        rep.check(ok, 'C13.2', 'ECDHCipherText.encrypt', 'public point %s' % (pts[0][:80] if pts else None),
                  'the ephemeral public point in the packet must belong to the ephemeral key that was used', where=fi.where, scenario=scen)
        # the ephemeral private key is used for its public point and the exchange only: it is not kept anywhere
        kept = []
        for p, val, l, _ in s.stores:
            rest = re.sub(re.escape(v) + r'\.(public_key|exchange)\(', '<USE>(', taint.expand_objs(s, val))
            if v in rest:
                kept.append('%s = %s' % (p, val[:80]))
        r = re.sub(re.escape(v) + r'\.(public_key|exchange)\(', '<USE>(', render(s.ret) if s.ret is not None else '')
        kept += [t for k, t, l in taint.captured_leaks(fi, s, v) if k == 'closure']
        rep.check(not kept and v not in r, 'C13.2', 'ECDHCipherText.encrypt', 'ephemeral key kept: %s' % kept,
                  'the ephemeral private key must not outlive the call (it is single-use)', where=fi.where, scenario=scen, found=kept)
        # the peer is the recipient's public key
        peer = ex[0][1][-1] if ex[0][1] else None
        rep.check(peer == 'pk.keymaterial.__pubkey__()', 'C13.2', 'ECDHCipherText.encrypt', 'peer %s' % peer,
                  'the shared secret must be computed with the recipient public key', where=fi.where, scenario=scen)


# ------------------------------------------------------------------------------------------------ C13.3
def check_confinement(rep, prog):
    K = 'sessionkey'        # the role symbol of the secret in every operation (whatever the parameter is called there)
    targets = [   # module, class, method, roles, *args roles, role of the session key
        ('pgpy.pgp', 'PGPMessage', 'encrypt', ('self', 'passphrase', K), None, K),
        ('pgpy.pgp', 'PGPKey', 'encrypt', ('self', 'message', K), None, K),
        ('pgpy.packet.packets', 'PKESessionKeyV3', 'encrypt_sk', ('self', 'pk', 'symalg', K), None, K),
        ('pgpy.packet.packets', 'SKESessionKeyV4', 'encrypt_sk', ('self', 'passphrase', K), None, K),
        ('pgpy.packet.packets', 'IntegrityProtectedSKEDataV1', 'encrypt', ('self', K, 'alg', 'data'), None, K),
        ('pgpy.packet.fields', 'ECDHCipherText', 'encrypt', ('cls', 'pk'), [K], K),
        ('pgpy.packet.fields', 'RSACipherText', 'encrypt', ('cls', 'encfn'), [K], K),
        ('pgpy.symenc', None, '_encrypt', ('pt', K, 'alg', 'iv'), None, K),
    ]
    for mod, cls, meth, roles, va, name in targets:
        fi = prog.method(mod, cls, meth) if cls is not None else prog.function(mod, meth)
        rep.saw(fn=fi)
        construct = '%s.%s' % (cls, meth) if cls is not None else meth
        gl = set(x for n in ast.walk(fi.node) if isinstance(n, (ast.Global, ast.Nonlocal)) for x in n.names)
        bind = {'self.is_encrypted': Const(False), 'message.is_encrypted': Const(False)}
        args = {'sessionkey': Sym('sessionkey', nonnull=True)}
        outs = run_roles(prog, fi, roles, vararg=va, kwarg='prefs', args=args, bind=bind)
        bad = []
        for s in outs:
            for kind, text, line in taint.leaks(s, name, CARRIERS, sanitizers=SANITIZERS, global_names=gl) + taint.captured_leaks(fi, s, name):
                if (kind, text) not in [(b[0], b[1]) for b in bad]:
                    bad.append((kind, text, line))
        if cls in ('PGPMessage', 'PGPKey'):
            # also the generated key
            outs2 = run_roles(prog, fi, roles, kwarg='prefs', args={'sessionkey': Const(None)}, bind=bind)
            for s in outs2:
                for kind, text, line in taint.leaks(s, 'gen_key()', CARRIERS, sanitizers=SANITIZERS, substring=True):
                    if (kind, text) not in [(b[0], b[1]) for b in bad]:
                        bad.append((kind, text, line))
        if bad:
            for kind, text, line in bad:
                rep.violation('C13.3', construct, '%s: %s' % (kind, text[:160]),
                              'the session key escapes other than through an encrypting call (%s)' % kind,
                              where='%s:%d' % (fi.module.relpath, line), expected='only encrypt_sk / encrypt / _encrypt / key-wrap arguments',
                              found=text[:300])
        else:
            rep.ok('C13.3', construct, 'session key `%s` reaches only encrypting calls' % name)


def positive_example(rep):
    """Rules whose expected match count is zero keep a tiny positive example that must fire on every run."""
    class S(object):
        stores = [('msg._sk', 'sessionkey', 1, None)]
        events = [('return', '(msg | sessionkey)', 2)]
        calls = [('logging.debug', ['sessionkey'], {}, 3, None)]
    got = taint.leaks(S, 'sessionkey', CARRIERS, sanitizers=SANITIZERS)
    rep.check(len(got) == 3, 'C13.3', 'embedded positive example', 'leak detector on a leaking snippet: %d hits' % len(got),
              'the confinement rule must fire on its embedded positive example', found=got)
    rep.check(taint.entropy_call('os.urandom(8)') is not None and taint.entropy_call('SALT') is None and
              taint.entropy_call('self._cached_salt') is None, 'C13.2', 'embedded positive example', 'entropy classifier',
              'the entropy classifier must reject constants and cached attributes')
