"""C20 - Messages are well-formed OpenPGP compositions and keep content and metadata (partial: grammar and wiring).

  C20.1 the packet sequence PGPMessage.__iter__ yields per message kind is derivable from RFC 4880 11.3
  C20.2 one-pass packets are produced from the same signature collection as the trailing signatures, in exactly reversed order
  C20.3 make_onepass builds a FRESH packet from the signature's own type / hash / pk algorithm / issuer and recomputes its length
  C20.4 only the one-pass packet yielded last (the one matching the first trailing signature) is flagged as final
  C20.5 compression wraps the whole sequence with the message's algorithm; importing a compressed packet restores it
  C20.6 literal / one-pass / compressed packet layouts; PGPMessage.new wires format, filename, time, contents
"""
import ast
import re

from sa.interp import alpha, Interp, Scenario, Sym, Const, Bytes, render, merge_consts, lin_norm, lin_add
from sa.loader import AnalysisError, dotted
from sa import codec
from sa.condtab import same, skeleton
from sa.looppaths import observe, path_cond, atom_value, fact_texts, fresh_objects

noinline = lambda f: False  # noqa: E731


def run(rep, prog, tier):
    rep.rule('C20.1', 'yield grammar per message kind (RFC 4880 11.3)', floor=4)
    rep.rule('C20.2', 'one-pass order = exact reverse of the trailing signature order, over the same collection', floor=2)
    rep.rule('C20.3', 'make_onepass: fresh packet, fields from the signature itself, update_hlen', floor=5)
    rep.rule('C20.4', 'only the last-yielded one-pass packet is flagged', floor=2)
    rep.rule('C20.5', 'compression wraps everything; CompressedData import restores the setting', floor=5)
    rep.rule('C20.6', 'literal / one-pass / compressed layouts and PGPMessage.new wiring', floor=9)
    rep.rule('C20.8', 'messages the library itself copies keep their packets whole (packet-level __copy__ carries header and every serialised field)', floor=1)
    rep.rule('C20.7', 'packet length encodings: every encoding of a length (1/2/5 octets, partial chains) reads back to the same body', floor=5)
    rep.assume('SorteDeque iteration order is the order of the trailing signatures; reversed() is its exact reverse (ties included)')

    M = prog.cls('pgpy.pgp', 'PGPMessage')
    it = M.methods.get('__iter__')
    if it is None:
        raise AnalysisError('PGPMessage.__iter__ vanished')
    rep.saw(fn=it)
    me = it.params[0]
    S = '%s._signatures' % me
    grammar = {
        'cleartext': (False, [['EACH($1 in %s;$1)' % S]]),
        'encrypted': (True, [['EACH($1 in %s;$1)' % S, 'EACH($2 in %s._sessionkeys;$2)' % me, '%s.message' % me]]),
        'literal': (False, [['OPS', '%s._message' % me, '%s._mdc' % me, 'SIGS'], ['OPS', '%s._message' % me, 'SIGS']]),
    }
    for kind, (enc, allowed) in grammar.items():
        sc = Scenario(inline=noinline, bind={'%s.type' % me: Const(kind), '%s.is_encrypted' % me: Const(enc)})
        outs = Interp(prog, sc).run(it)
        rep.analysed['paths'] += len(outs)
        for s in outs:
            ys = alpha('\x00'.join(each_of(render(y), i) for i, y in enumerate(s.yields))).split('\x00') if s.yields else []
            if kind != 'literal':
                rep.check(ys in allowed, 'C20.1', 'PGPMessage.__iter__', '%s: %s' % (kind, ys),
                          {'cleartext': 'a cleartext message is followed by its signatures only',
                           'encrypted': 'an encrypted message is its session-key packets followed by exactly one encrypted container, nothing after it'}[kind],
                          where=it.where, expected=allowed[0], found=ys, scenario=kind)
                continue
            # literal: OPS^n LIT [MDC] SIG^n
            m_ops = re.match(r'^EACH\((\$\d+) in (.*);(\$\d+)\.make_onepass\(\)\)$', ys[0]) if ys else None
            m_sig = re.match(r'^EACH\((\$\d+) in (.*);(\$\d+)\)$', ys[-1]) if ys else None
            shape = ['OPS' if m_ops else ys[0] if ys else None] + ys[1:-1] + ['SIGS' if m_sig else ys[-1] if ys else None]
            rep.check(shape in allowed, 'C20.1', 'PGPMessage.__iter__', 'literal: %s' % ys,
                      'a signed message is one-pass packets, one literal packet, then the signatures (RFC 4880 11.3)', where=it.where,
                      expected='OPS* literal [mdc] SIG*', found=ys, scenario=kind)
            if not (m_ops and m_sig):
                continue
            A, B = uncopied(m_ops.group(2)), uncopied(m_sig.group(2))
            rev_ok = A in ('reversed(%s)' % B, '%s[::-1]' % B) and m_ops.group(1) == m_ops.group(3) and m_sig.group(1) == m_sig.group(3)
            rep.check(rev_ok and B == S, 'C20.2', 'PGPMessage.__iter__', 'one-pass over %s, signatures over %s' % (A, B),
                      'the one-pass packets must be the exact reverse of the trailing signatures over the message\'s own signature collection '
                      '(two independent sorts disagree on signatures with equal creation times)', where=it.where,
                      expected='reversed(%s) / %s' % (S, S), found='%s / %s' % (A, B), scenario=kind)
    # ---- C20.4 flag: decided on the paths of one iteration of the loop that yields the one-pass packets
    _, recs = observe(prog, it, bind={'%s.type' % me: Const('literal'), '%s.is_encrypted' % me: Const(False)})
    ops_loops = [r for r in recs if any('%s.make_onepass()' % r.var in ys for _, _, _, ys in r.paths)]
    if len({id(r.node) for r in ops_loops}) != 1:
        raise AnalysisError('PGPMessage.__iter__: one-pass loop not found')
    for r in ops_loops:
        m = re.match(r'^reversed\((.*)\)$', uncopied(r.coll)) or re.match(r'^(.*)\[::-1\]$', uncopied(r.coll))
        base = m.group(1) if m else None
        pkt = '%s.make_onepass()' % r.var
        flagged, shape_ok = [], not r.conds
        found = []
        for status, facts, events, ys in r.paths:
            sets = [(e[1], e[2]) for e in events if e[0] == 'store' and e[1].endswith('.nested')]
            found.append((fact_texts(facts), sets, ys))
            # the packet that is flagged is the packet that is yielded, built from the loop's signature
            built = [e for e in events if e[0] == 'call' and e[1] == '%s.make_onepass' % r.var]
            shape_ok = shape_ok and ys == [pkt] and status in ('normal', 'continue') and len(built) == 1
            if sets:
                # `ops.nested = True` under a decision, or `ops.nested = <condition>` on every path: flagged when both hold
                shape_ok = shape_ok and len(sets) == 1 and sets[0][0] == '%s.nested' % pkt
                flagged.append(('and', [path_cond(facts), skeleton(sets[0][1])]))
        rep.check(shape_ok, 'C20.4', 'PGPMessage.__iter__', 'yielded object %s' % found, 'the packet that is flagged is the packet that is yielded, built from the loop\'s signature',
                  where=it.where)
        if base is None:
            # order rule C20.2 has already reported the iteration form; the flag rule cannot be evaluated on it
            if not any(f.rule == 'C20.2' for f in rep.findings):
                rep.error('C20.4', 'PGPMessage.__iter__: one-pass loop iterates %s (unrecognised form)' % r.text)
            continue
        last = [skeleton('%s is %s[0]' % (r.var, base))]
        flag_ok = bool(flagged) and any(same(('or', flagged), x) for x in last)
        rep.check(flag_ok, 'C20.4', 'PGPMessage.__iter__', 'flag rule: %s' % found,
                  'the flag octet must be 1 exactly on the one-pass packet yielded last - the one for the first trailing signature - and 0 on all others '
                  '(RFC 4880 5.4: zero means another one-pass packet follows)', where='%s:%d' % (it.module.relpath, r.node.lineno),
                  expected='if %s is %s[0]: ops.nested = True' % (r.var, base), found=found)
    ops_cls = prog.cls('pgpy.packet.packets', 'OnePassSignatureV3')
    ini = ops_cls.methods['__init__']
    dflt = []
    for s in Interp(prog, Scenario(inline=noinline)).run(ini):
        dflt.extend(v for p_, v, l, _ in s.stores if p_ == '%s.nested' % ini.params[0])
    rep.check(dflt == ['False'], 'C20.4', 'OnePassSignatureV3.__init__', 'nested default %s' % dflt, 'a fresh one-pass packet is not flagged', where=ini.where)

    # ---- C20.3 make_onepass
    mo = prog.method('pgpy.pgp', 'PGPSignature', 'make_onepass')
    rep.saw(fn=mo)
    me = mo.params[0]
    for s in Interp(prog, Scenario(inline=noinline)).run(mo):
        st = {p: v for p, v, l, _ in s.stores}
        obj = render(s.ret)
        want = {'%s.sigtype' % obj: '%s.type' % me, '%s.halg' % obj: '%s.hash_algorithm' % me, '%s.pubalg' % obj: '%s.key_algorithm' % me,
                '%s.signer' % obj: '%s.signer' % me}
        for k, v in want.items():
            rep.check(st.get(k) == v, 'C20.3', 'PGPSignature.make_onepass', '%s = %s' % (k, st.get(k)),
                      'the one-pass packet must name its own signature\'s %s' % k.split('.')[-1], where=mo.where, expected=v, found=st.get(k))
        ctor = [c for c in s.calls if c[0] == 'OnePassSignatureV3']
        self_stores = [p for p in st if p.startswith(me + '.')]
        rep.check(len(ctor) == 1 and not self_stores and s.facts == [], 'C20.3', 'PGPSignature.make_onepass',
                  'fresh packet each call (constructors %d, stores on self %s, conditions %s)' % (len(ctor), self_stores, [f[0] for f in s.facts]),
                  'a new one-pass packet must be built on every call: a cached packet keeps a flag set by an earlier export', where=mo.where)
        rep.check(any(c[0] == '%s.update_hlen' % obj for c in s.calls), 'C20.3', 'PGPSignature.make_onepass', 'update_hlen', 'the packet length is recomputed',
                  where=mo.where)
        break

    # ---- C20.5 compression
    ba = M.methods['__bytearray__']
    me = ba.params[0]
    for s in Interp(prog, Scenario(inline=noinline, bind={'%s.is_compressed' % me: Const(True)})).run(ba):
        st = {p: v for p, v, l, _ in s.stores}
        ret = render(s.ret)
        m = re.match(r'^(\w+)\.__bytearray__\(\)$', ret)
        comp = m.group(1) if m and m.group(1) not in ba.params else None           # a locally constructed object renders as its first local
        fresh = comp is not None and fresh_objects(s.events).get(comp) == 'CompressedData()'
        everything = ('EACH($1 in %s;$1)' % me, 'list(%s)' % me, '[*%s]' % me, 'tuple(%s)' % me)
        rep.check(fresh and st.get('%s.calg' % comp) == '%s._compression' % me and alpha(st.get('%s.packets' % comp, '')) in everything, 'C20.5', 'PGPMessage.__bytearray__',
                  'compressed: %s' % st, 'the compressed packet holds every packet of the message, with the message\'s algorithm', where=ba.where)
        order = [e[1] for e in s.events if e[0] == 'call' and e[1] in ('%s.update_hlen' % comp, '%s.__bytearray__' % comp)]
        set_at = [i for i, e in enumerate(s.events) if e[0] == 'store' and e[1] in ('%s.calg' % comp, '%s.packets' % comp)]
        upd_at = [i for i, e in enumerate(s.events) if e[0] == 'call' and e[1] == '%s.update_hlen' % comp]
        rep.check(order == ['%s.update_hlen' % comp, '%s.__bytearray__' % comp] and bool(set_at) and max(set_at) < upd_at[0], 'C20.5', 'PGPMessage.__bytearray__',
                  'update_hlen before serialising %s' % order, 'the compressed packet\'s length is recomputed before it is written, and it is the whole output',
                  where=ba.where)
    for s in Interp(prog, Scenario(inline=noinline, bind={'%s.is_compressed' % me: Const(False)})).run(ba):
        rep.check(alpha(render(s.ret)) == 'EACH($1 in %s;$1.__bytearray__())' % me, 'C20.5', 'PGPMessage.__bytearray__', 'uncompressed: %s' % render(s.ret),
                  'an uncompressed message is the concatenation of its packets in order', where=ba.where)
    ic = M.methods['is_compressed']
    outs = Interp(prog, Scenario(inline=noinline)).run(ic)
    unc = '%s._compression %%s CompressionAlgorithm.Uncompressed' % ic.params[0]
    okc = value_is(outs, [('not', skeleton(unc % '==')), ('not', skeleton(unc % 'is'))])
    rep.check(okc, 'C20.5', 'PGPMessage.is_compressed', '%s' % [(fact_texts(s.facts), render(s.ret)) for s in outs],
              'a message is compressed unless its algorithm is Uncompressed', where=ic.where)
    orf = M.methods['__or__']
    me, o = orf.params[0], orf.params[1]
    outs, recs = observe(prog, orf, args={o: Sym(o, types={'CompressedData'}, nonnull=True)})
    live = [s for s in outs if s.raised is None]
    ok = bool(live)
    for s in live:
        # `self |= pkt` keeps self (every return of __or__ is `return self`): stores on the result of the chain are stores on self
        st = [('%s.%s' % (root_of(p.rsplit('.', 1)[0]), p.rsplit('.', 1)[1]) if '.' in p else p, v) for p, v, l, _ in s.stores]
        ok = ok and st == [('%s._compression' % me, '%s.calg' % o)] and root_of(render(s.ret)) == me
    inner = [r for r in recs if r.coll == '%s.packets' % o]
    ok = ok and len(inner) >= 1
    for r in inner:
        for status, facts, events, ys in r.paths:
            adds = [(e[1], e[2]) for e in events if e[0] == 'ior']
            ok = ok and not r.conds and len(adds) == 1 and root_of(adds[0][0]) == me and adds[0][1] == r.var and status in ('normal', 'continue')
    rep.check(ok, 'C20.5', 'PGPMessage.__or__', 'CompressedData arm', 'importing a compressed packet restores the algorithm and adds every inner packet',
              where=orf.where)
    cd = prog.cls('pgpy.packet.packets', 'CompressedData')
    cb = cd.methods['__bytearray__']
    me = cb.params[0]
    for s in Interp(prog, Scenario()).run(cb):
        r = render(s.ret)
        exp = '%s.header.__bytearray__() BYTE(%s.calg) %s.calg.compress(EACH($1 in %s.packets;$1.__bytearray__()))' % (me, me, me, me)
        rep.check(alpha(r) == exp, 'C20.5',
                  'CompressedData.__bytearray__', r, 'a compressed packet is the algorithm octet and the compression of all inner packets together',
                  where=cd.where, expected=exp, found=r)

    compression_pairs(rep, prog)
    import_arms(rep, prog, M)
    length_codec(rep, prog)

    # ---- C20.6 layouts
    ops = ops_cls.methods['__bytearray__']
    me = ops.params[0]
    for s in Interp(prog, Scenario()).run(ops):
        r = render(s.ret)
        exp = ("%s.header.__bytearray__() BYTE(%s.sigtype) BYTE(%s.halg) BYTE(%s.pubalg) binascii.unhexlify(%s.signer.encode('latin-1')) BYTE(int(%s.nested))"
               % ((me,) * 6))
        rep.check(r == exp, 'C20.6', 'OnePassSignatureV3.__bytearray__', r, 'one-pass packet: type, hash, pk algorithm, 8-octet key id, flag (RFC 4880 5.4)',
                  where=ops.where, expected=exp, found=r)
    op = ops_cls.methods['parse']
    me, B = op.params[0], op.params[1]
    for s in Interp(prog, Scenario(inline=noinline, forward_stores=False, model_del=False)).run(op):
        reads, problems = codec.reader_sequence(s, B, cls=ops_cls)
        fields = [(r.target, r.width) for r in reads if r.kind != 'delegate']
        flag = [r.text for r in reads if r.target == '%s.nested' % me]
        want = [('%s.%s' % (me, a), w) for a, w in (('sigtype', '1'), ('halg', '1'), ('pubalg', '1'), ('signer', '8'), ('nested', '1'))]
        # the flag is the truth of the last octet: `octet == 1` (either operand order), `octet != 0`, bool(octet) - as boolean functions
        flag_ok = bool(flag) and any(same(skeleton(flag[0]), skeleton(t % B)) for t in ('%s[0] == 1', '%s[0] != 0', 'bool(%s[0])'))
        rep.check(fields == want and not problems and flag_ok, 'C20.6', 'OnePassSignatureV3.parse',
                  'reads %s flag %s' % (fields, flag), 'the reader takes the fields in the same order', where=ops_cls.where, expected=want, found=fields)
    lit = prog.cls('pgpy.packet.packets', 'LiteralData')
    lp = lit.methods['parse']
    pme, B = lp.params[0], lp.params[1]
    rc = None
    for s in Interp(prog, Scenario(inline=noinline, forward_stores=False, model_del=False)).run(lp):
        reads, problems = codec.reader_sequence(s, B, cls=lit)
        fields = [r for r in reads if r.kind != 'delegate']
        shape = [(r.target if (r.target or '').startswith(pme + '.') else '<local>', r.width) for r in fields]
        ok = len(fields) == 5 and not problems
        if ok:
            nl = fields[1].text                                   # the name-length octet, by value
            want = [('%s.format' % pme, '1'), ('<local>', '1'), ('%s.filename' % pme, lin_norm(nl)), ('%s.mtime' % pme, '4'),
                    ('%s._contents' % pme, lin_add(lin_add('%s.header.length' % pme, nl, -1), '6', -1))]
            ok = shape == want and nl == '%s[0]' % B
            mc = re.match(r"^SLICE\(%s;;%s\)\.decode\((?:'([^']*)')?(?:, '[^']*')?\)$" % (re.escape(B), re.escape(nl)), fields[2].text)
            rc = (mc.group(1) or 'utf-8') if mc else None
        rep.check(ok, 'C20.6', 'LiteralData.parse', 'reads %s' % shape,
                  'contents = header.length - (6 + name length): format(1) + name length(1) + time(4) = 6 octets precede the contents besides the name',
                  where=lit.where, found=shape)
    lb = lit.methods['__bytearray__']
    me = lb.params[0]
    for s, items in codec.writer_items(prog, lb, Scenario()):
        r = render(s.ret)
        exp = ("%s.header.__bytearray__() %s.format.encode('latin-1') BYTE(len(FN)) FN INT(4;calendar.timegm(%s.mtime.utctimetuple())) %s._contents" % ((me,) * 4))
        m = re.match(r"^%s\.header\.__bytearray__\(\) %s\.format\.encode\('latin-1'\) BYTE\(len\((.*?)\)\) (.*?) INT\(4;calendar\.timegm\(%s\.mtime\.utctimetuple\(\)\)\) %s\._contents$"
                     % ((re.escape(me),) * 4), r)
        rep.check(m is not None and m.group(1) == m.group(2) and m.group(1).startswith('%s.filename.encode(' % me), 'C20.6', 'LiteralData.__bytearray__', r,
                  'literal packet: format octet, one-octet length of the ENCODED file name, the encoded file name, four-octet time, contents',
                  where=lit.where, expected=exp, found=r)
        wcodec = re.search(r"%s\.filename\.encode\((?:'([^']*)')?\)" % re.escape(me), r)
        wc = (wcodec.group(1) or 'utf-8') if wcodec else None
        rep.check(wc is not None and rc is not None and wc.lower().replace('_', '-') == rc.lower().replace('_', '-'), 'C20.6',
                  'LiteralData filename codec', 'writer %s reader %s' % (wc, rc),
                  'the file name must be written with the codec it is read with', where=lit.where)
    literal_time(rep, prog, lit)
    literal_text(rep, prog, lit)
    message_copies(rep, prog, M)
    nw = M.methods['new']
    for sens, fn in ((True, "'_CONSOLE'"), (False, "os.path.basename('')")):
        kw = nw.node.args.kwarg.arg if nw.node.args.kwarg else 'kwargs'
        options = {'cleartext': False, 'sensitive': sens, 'file': False}

        def option(t, kw=kw, options=options):
            """The caller's options, however they are taken out of the keyword arguments."""
            m = re.match(r"^(?:bool\()?%s\.(?:pop|get)\('(\w+)'(?:, (?:False|None))?\)\)?$" % re.escape(kw), t)
            return options.get(m.group(1)) if m else None
        sc = Scenario(inline=noinline, join_unknown=True, args={'message': Sym('message', types={'str'}, nonnull=True)}, oracle=option)
        for s in Interp(prog, sc).run(nw):
            st = {p: v for p, v, l, _ in s.stores}
            lits = sorted({p[:-len('.filename')] for p in st if p.endswith('.filename')})
            L = lits[0] if len(lits) == 1 else None                 # the literal packet, whatever the local is called
            fresh = L is not None and fresh_objects(s.events).get(L) == 'LiteralData()'
            rep.check(fresh and st.get('%s.filename' % L) == fn, 'C20.6', 'PGPMessage.new', 'sensitive=%s -> filename %s' % (sens, st.get('%s.filename' % L)),
                      'a sensitive message carries the for-your-eyes-only marker _CONSOLE as its file name', where=nw.where, expected=fn, found=st.get('%s.filename' % L))
            comp = [v for k, v in st.items() if k.endswith('._compression')]
            msgs = [c for c in s.calls if c[0].endswith('.text_to_bytes') and c[1] == ['message']]
            body = st.get('%s._contents' % L)
            rep.check(len(msgs) >= 1 and body == '%s(message)' % msgs[0][0] and
                      comp in (["%s.pop('compression', CompressionAlgorithm.ZIP)" % kw], ["%s.get('compression', CompressionAlgorithm.ZIP)" % kw]),
                      'C20.6', 'PGPMessage.new', 'contents %s compression %s' % (body, comp),
                      'contents are the caller\'s message as octets; compression is the caller\'s choice (default ZIP)', where=nw.where)
            # the packet owns its octets: text_to_bytes hands a bytes / bytearray argument back as it is, so what is stored must be a
            # copy (bytearray(x) / bytes(x) / x[:] / copy.copy(x)) - otherwise the message changes when the caller's buffer does
            vals = [V for p_, v_, l_, V in s.stores if p_ == '%s._contents' % L]
            fresh = bool(vals) and (isinstance(vals[-1], Bytes) or re.match(r'^(copy\.copy|copy\.deepcopy)\(', body or '') is not None or (body or '').endswith('.copy()'))
            rep.check(fresh, 'C20.6', 'PGPMessage.new', 'contents stored as %s (%s)' % (body, type(vals[-1]).__name__ if vals else None),
                      'the literal packet keeps its own copy of the caller\'s octets (a bytearray passed in is returned as it is by text_to_bytes: '
                      'stored by reference, the message would change under the caller)', where=nw.where, expected='bytearray(<octets>)', found=body)
            rep.check(any(c[0] == '%s.update_hlen' % L for c in s.calls) and '%s.mtime' % L in st and '%s.format' % L in st, 'C20.6', 'PGPMessage.new',
                      'time, format set; update_hlen', 'the literal packet gets its time and format, and its length is recomputed', where=nw.where)
            break


def each_of(y, k=0):
    """A re-yielded iterable (`yield from X`, rendered '*X') is the loop yielding its elements (its own bound variable)."""
    if y.startswith('*EACH('):
        return y[1:]
    if y.startswith('*'):
        return 'EACH($9%03d in %s;$9%03d)' % (k, y[1:], k)
    return y


def uncopied(coll):
    """reversed(list(X)) / list(X) iterate X in X's order: a copy of a collection is the collection, as far as order goes."""
    prev = None
    while prev != coll:
        prev = coll
        coll = re.sub(r'\b(?:list|tuple)\(((?:[^()]|\([^()]*\))*)\)', r'\1', coll)
    return coll


def root_of(text):
    """'((X | a) | b)' -> 'X': the object a chain of `|=` attachments started from."""
    while text.startswith('(') and text.endswith(')'):
        depth, cut = 0, None
        for i, ch in enumerate(text):
            if ch in '([{':
                depth += 1
            elif ch in ')]}':
                depth -= 1
            elif depth == 1 and text.startswith(' | ', i):
                cut = i
        if cut is None:
            break
        text = text[1:cut]
    return text


def value_is(outs, expected):
    """Is the boolean function computed by the returning paths (decisions and returned expression) one of the expected ones?"""
    terms = []
    for s in outs:
        if s.raised is not None or s.ret is None:
            return False
        terms.append(('and', [path_cond(s.facts), skeleton(render(s.ret))]))
    return bool(terms) and any(same(('or', terms), e) for e in expected)


# ------------------------------------------------------------------------------------------------ compression round trip
def _call_args(text, fname):
    """Arguments of `fname(...)` when text is exactly that call (top-level comma split); None otherwise."""
    if not (text.startswith(fname + '(') and text.endswith(')')):
        return None
    inner, depth, out, cur = text[len(fname) + 1:-1], 0, [], ''
    for ch in inner:
        if ch in '([{':
            depth += 1
        elif ch in ')]}':
            depth -= 1
            if depth < 0:
                return None
        if ch == ',' and depth == 0:
            out.append(cur.strip())
            cur = ''
        else:
            cur += ch
    if cur.strip():
        out.append(cur.strip())
    return out


def _int(t):
    try:
        return int((t or '').replace('zlib.MAX_WBITS', '15').replace('(', '').replace(')', ''))      # zlib.MAX_WBITS is 15 in every zlib
    except (TypeError, ValueError):
        return None


def _wbits(args, pos):
    for a in args[pos:pos + 1]:
        if '=' not in a:
            return _int(a)
    for a in args:
        if a.startswith('wbits='):
            return _int(a[6:])
    return 15                       # zlib default: zlib container, 32 KiB window


def produced_format(text, data):
    """(container, window bits) of the octets a compress arm returns for `data`; None when not modelled."""
    if text == data:
        return ('identity', 0)
    m = re.match(r'^SLICE\((.*);2;-4\)$', text)
    inner = m.group(1) if m else text
    a = _call_args(inner, 'zlib.compress')
    if a is not None and a and a[0] in (data, 'bytes(%s)' % data):
        w = _wbits(a, 2)
        if w is None:
            return None
        if m:                      # a zlib stream without its 2-octet header and 4-octet checksum is the raw DEFLATE stream
            return ('raw', w) if 9 <= w <= 15 else None
        return ('raw', -w) if -15 <= w <= -9 else ('zlib', w) if 9 <= w <= 15 else None
    a = _call_args(text, 'bz2.compress')
    if a is not None and a and a[0] in (data, 'bytes(%s)' % data):
        return ('bz2', 0)
    return None


def _window(container_w):
    w = container_w
    if w is None:
        return None
    if -15 <= w <= -8:
        return ('raw', -w)
    if 8 <= w <= 15:
        return ('zlib', w)
    if w == 0:
        return ('zlib', 15)
    return None


def streaming_format(text, data):
    """Decompressor-object forms: zlib.decompressobj([wbits]).decompress(data[, max_length]) / bz2.BZ2Decompressor().decompress(..).
    -> (container, window, bounded?, decompressor text) or None."""
    m = re.match(r'^(zlib\.decompressobj\(([^()]*)\))\.decompress\((.*)\)$', text)
    mb = re.match(r'^(bz2\.BZ2Decompressor\(\))\.decompress\((.*)\)$', text)
    if m:
        dobj, ctor, call = m.group(1), [a.strip() for a in m.group(2).split(',') if a.strip()], _call_args('f(%s)' % m.group(3), 'f')
        fmt = _window(_wbits(ctor, 0))
    elif mb:
        dobj, call = mb.group(1), _call_args('f(%s)' % mb.group(2), 'f')
        fmt = ('bz2', 0)
    else:
        return None
    if fmt is None or not call or call[0] not in (data, 'bytes(%s)' % data):
        return None
    limit = [a for a in call[1:]]
    bounded = any(_int(a.split('=')[-1]) != 0 and a.split('=')[-1] not in ('-1',) for a in limit)
    return fmt[0], fmt[1], bounded, dobj


def streamed_format(ret, data):
    """A compress arm that feeds a compressor object piecewise: C.compress(<slice of data>) ... C.flush().
    -> (container, window, verdict) with verdict 'partition' (every input octet is fed exactly once), 'overlap' (a known-wrong tail:
    the last chunk is taken from the end by the remainder, which is the whole input again when the remainder is zero) or None
    (fed pieces not understood); None when the value is not of this shape at all."""
    if not isinstance(ret, Bytes):
        return None
    items = merge_consts(ret.items)
    flat = []            # (compressor text, argument text, loop (var, coll) or None)
    for it in items:
        if it[0] == 'EACH' and len(it[3]) == 1 and it[3][0][0] == 'SYM':
            flat.append((it[3][0][1], (it[1], it[2])))
        elif it[0] == 'SYM':
            flat.append((it[1], None))
        else:
            return None
    if len(flat) < 2:
        return None
    comp = None
    fed = []
    for i, (text, loop) in enumerate(flat):
        m = re.match(r'^((?:zlib\.compressobj|bz2\.BZ2Compressor)\((?:[^()]|\([^()]*\))*\))\.(compress|flush)\((.*)\)$', text)
        if m is None or (comp is not None and m.group(1) != comp):
            return None
        comp = m.group(1)
        if m.group(2) == 'flush':
            if i != len(flat) - 1 or loop is not None:
                return None
        else:
            fed.append((m.group(3), loop))
    if not flat[-1][0].endswith('.flush()') or not fed:
        return None
    if comp.startswith('bz2.'):
        fmt = ('bz2', 0)
    else:
        a = _call_args(comp, 'zlib.compressobj')
        w = _wbits(a, 2)
        fmt = None if w is None else ('raw', -w) if -15 <= w <= -9 else ('zlib', w) if 9 <= w <= 15 else None
    if fmt is None:
        return None
    # which octets are fed
    verdict = None
    if fed == [(data, None)] or fed == [('bytes(%s)' % data, None)]:
        verdict = 'partition'
    elif len(fed) == 2 and fed[0][1] is not None and fed[1][1] is None:
        (chunk, (v, coll)), (tail, _) = fed
        mr = re.match(r'^range\(\(len\(%s\) // (\d+)\)\)$' % re.escape(data), coll)
        mc = re.match(r'^SLICE\(%s;(.*);(.*)\)$' % re.escape(data), chunk)
        mt = re.match(r'^SLICE\(%s;(.*);(.*)\)$' % re.escape(data), tail)
        if mr and mc and mt:
            B = mr.group(1)
            blocks = lin_norm(mc.group(1)) in (lin_norm('(%s * %s)' % (v, B)), '(%s * %s)' % (v, B), '(%s * %s)' % (B, v)) and \
                mc.group(2) in ('((%s + 1) * %s)' % (v, B), '(%s * (%s + 1))' % (B, v), lin_norm('((%s * %s) + %s)' % (v, B, B)))
            n = '(len(%s) // %s)' % (data, B)
            good_tail = mt.group(2) == '' and mt.group(1) in ('(%s * %s)' % (n, B), '(%s * %s)' % (B, n), lin_norm('(len(%s) - (len(%s) %% %s))' % (data, data, B)),
                                                              '(len(%s) - (len(%s) %% %s))' % (data, data, B))
            bad_tail = mt.group(2) == '' and mt.group(1) in ('-(len(%s) %% %s)' % (data, B), '(-(len(%s) %% %s))' % (data, B))
            if blocks and good_tail:
                verdict = 'partition'
            elif blocks and bad_tail:
                verdict = 'overlap'
    return fmt[0], fmt[1], verdict


def accepted_format(text, data):
    """(container, window bits) a decompress arm accepts for `data`; None when not modelled."""
    if text == data:
        return ('identity', 0)
    st = streaming_format(text, data)
    if st is not None:
        return st[0], st[1]
    a = _call_args(text, 'zlib.decompress')
    if a is not None and a and a[0] in (data, 'bytes(%s)' % data):
        w = _wbits(a, 1)
        if w is None:
            return None
        if -15 <= w <= -8:
            return ('raw', -w)
        if 8 <= w <= 15:
            return ('zlib', w)
        if w == 0:
            return ('zlib', 15)
        return None
    a = _call_args(text, 'bz2.decompress')
    if a is not None and a and a[0] in (data, 'bytes(%s)' % data):
        return ('bz2', 0)
    return None


def compression_pairs(rep, prog):
    """C20.5: a compressed packet can be read back: for every algorithm the decompress arm accepts the container format the
    compress arm produces, with a window at least as large (RFC 4880 9.3: ZIP = raw DEFLATE, ZLIB = RFC 1950, BZip2)."""
    from sa.sigdata import enum_const
    ci = prog.cls('pgpy.constants', 'CompressionAlgorithm')
    want = {'Uncompressed': 'identity', 'ZIP': 'raw', 'ZLIB': 'zlib', 'BZ2': 'bz2'}
    fc, fd = ci.methods.get('compress'), ci.methods.get('decompress')
    if fc is None or fd is None:
        raise AnalysisError('CompressionAlgorithm.compress / decompress vanished')
    for m in ci.enum_members():
        if m not in want:
            rep.violation('C20.5', 'CompressionAlgorithm', 'member %s' % m, 'a compression algorithm without a known container format', where=ci.where)
            continue
        sides = []
        for f, fmt in ((fc, produced_format), (fd, accepted_format)):
            outs = [s for s in Interp(prog, Scenario(inline=noinline, extended=True)).run(f, self_val=enum_const(prog, 'CompressionAlgorithm', m)) if s.raised is None]
            texts = sorted({render(s.ret) for s in outs})
            if f is fd:
                # the output may not be truncated silently: a slice of the result, or a max_length without a check that nothing is left
                for s in outs:
                    r = render(s.ret)
                    cut = re.match(r'^SLICE\((.*);[^;]*;[^;]*\)$', r)
                    inner = cut.group(1) if cut else r
                    stf = streaming_format(inner, f.params[1])
                    checked = stf is not None and any(('%s.%s' % (stf[3], a)) in fct[0] for fct in s.facts for a in ('unconsumed_tail', 'eof', 'needs_input'))
                    silent = (cut is not None and accepted_format(inner, f.params[1]) is not None) or (stf is not None and stf[2] and not checked)
                    rep.check(not silent, 'C20.5', 'CompressionAlgorithm.decompress', '%s: %s%s' % (m, r, '' if not stf else ' (decisions %s)' % fact_texts(s.facts)),
                              'a compressed packet is read back whole: the decompressed output may not be cut off (slice, max_length) unless the '
                              'remainder is checked (unconsumed_tail / eof / needs_input) and the excess refused', where=fd.where, scenario=m)
                # a cut result is still the output of the decompressor inside: pair the formats on that
                def uncut(t, data=f.params[1]):
                    mc = re.match(r'^SLICE\((.*);[^;]*;[^;]*\)$', t)
                    return mc.group(1) if mc and accepted_format(mc.group(1), data) is not None else t
                texts = sorted({uncut(t) for t in texts})
            if f is fc:
                # a compressor object fed piecewise: the pieces must be the input, every octet exactly once
                streamed = [(s, streamed_format(s.ret, f.params[1])) for s in outs]
                if streamed and all(x is not None for _, x in streamed):
                    for s, (cont, win, verdict) in streamed:
                        if verdict is None:
                            rep.error('C20.5', 'CompressionAlgorithm %s: pieces fed to the compressor not understood: %s' % (m, render(s.ret)[:200]))
                        else:
                            rep.check(verdict == 'partition', 'C20.5', 'CompressionAlgorithm.compress', '%s: %s' % (m, render(s.ret)[:300]),
                                      'the compressor must be fed every input octet exactly once: the last chunk taken from the end by the remainder '
                                      '(data[-rest:]) is the whole input again when the remainder is zero', where=fc.where, scenario=m)
                    sides.append((texts, [(x[0], x[1]) for _, x in streamed][:1] if len({(x[0], x[1]) for _, x in streamed}) == 1 else [None]))
                    continue
            sides.append((texts, [fmt(t, f.params[1]) for t in texts]))
        (ct, cf), (dt, df) = sides
        if len(cf) != 1 or len(df) != 1 or cf[0] is None or df[0] is None:
            rep.error('C20.5', 'CompressionAlgorithm %s: compress %s / decompress %s not modelled' % (m, ct, dt))
            continue
        ok = cf[0][0] == df[0][0] == want[m] and df[0][1] >= cf[0][1]
        rep.check(ok, 'C20.5', 'CompressionAlgorithm.%s' % m, 'compress %s -> %s ; decompress %s <- %s' % (ct[0], cf[0], dt[0], df[0]),
                  'what compress writes must be readable by decompress: same container format, and a decompression window at least as large as '
                  'the compression window (a smaller one fails on streams with distant back-references)', where=fd.where,
                  expected='%s container, window >= %d bits' % (want[m], cf[0][1]), found='%s, %d bits' % df[0], scenario=m)


# ------------------------------------------------------------------------------------------------ importing packets
def import_arms(rep, prog, M):
    """C20.5: a packet handed to PGPMessage.__or__ ends up in the message - every signature and session key is added to the
    existing collection (none refused, filtered or de-duplicated), the body / MDC fill their slot."""
    orf = M.methods['__or__']
    me, o = orf.params[0], orf.params[1]
    cases = [('PGPSignature', {}, ('call', '%s._signatures.insort' % me, o)),
             ('PKESessionKeyV3', {}, ('call', '%s._sessionkeys.append' % me, o)),
             ('SKESessionKeyV4', {}, ('call', '%s._sessionkeys.append' % me, o)),
             ('LiteralData', {'%s._message' % me: Const(None)}, ('store', '%s._message' % me, o)),
             ('MDC', {'%s._mdc' % me: Const(None)}, ('store', '%s._mdc' % me, o))]
    for cname, bind, (kind, what, val) in cases:
        outs = Interp(prog, Scenario(inline=noinline, bind=bind, args={o: Sym(o, types={cname}, nonnull=True)})).run(orf)
        live = [s for s in outs if s.raised is None]
        refused = [s.raised for s in outs if s.raised is not None]
        ok = bool(live) and not refused
        detail = []
        for s in live:
            if kind == 'call':
                n = sum(1 for c in s.calls if c[0] == what and c[1] == [val])
                rebuilt = [p for p, v, l, _ in s.stores if p == what.rsplit('.', 1)[0]]
                ok = ok and n == 1 and not rebuilt
                detail.append((fact_texts(s.facts), n, rebuilt))
            else:
                st = [(p, v) for p, v, l, _ in s.stores if p == what]
                ok = ok and st == [(what, val)]
                detail.append((fact_texts(s.facts), st))
            ok = ok and root_of(render(s.ret)) == me
        rep.check(ok, 'C20.5', 'PGPMessage.__or__', '%s operand: %s refused %s' % (cname, detail, refused),
                  'every imported packet becomes part of the message: signatures and session keys are added (none refused, filtered or '
                  'de-duplicated), the body and the MDC fill their slot', where=orf.where, scenario=cname)


# ------------------------------------------------------------------------------------------------ literal time field
def literal_time(rep, prog, lit):
    """C20.6: the four-octet time of a literal packet is seconds since 1970 UTC on both sides: the writer emits
    timegm(utctimetuple()) (checked with the layout); the reader must build the aware UTC datetime of the same instant."""
    p = lit.props.get('mtime')
    if p is None:
        raise AnalysisError('LiteralData.mtime vanished')
    si = p.setters.get('int')
    sb = p.setters.get('bytearray') or p.setters.get('bytes')
    if si is None or sb is None:
        raise AnalysisError('LiteralData.mtime int / bytes setters vanished')
    me, v = si.params[0], si.params[1]
    utc = r'(?:datetime\.)?(?:timezone\.utc|UTC)'
    good = [r'^(?:datetime\.)?datetime\.fromtimestamp\(%s, (?:tz=)?%s\)$' % (re.escape(v), utc),
            r'^(?:datetime\.)?datetime\.utcfromtimestamp\(%s\)\.replace\(tzinfo=%s\)$' % (re.escape(v), utc),
            r'^\((?:datetime\.)?datetime\(1970, 1, 1, tzinfo=%s\) \+ (?:datetime\.)?timedelta\(seconds=%s\)\)$' % (utc, re.escape(v))]
    local = [r'fromtimestamp\(%s\)' % re.escape(v), r'\blocaltime\(', r'\bmktime\(', r'^(?:datetime\.)?datetime\.utcfromtimestamp\(%s\)$' % re.escape(v)]
    for s in Interp(prog, Scenario(inline=noinline)).run(si):
        stored = [val for pth, val, l, _ in s.stores if pth in ('%s.mtime' % me, '%s._mtime' % me)]
        if len(stored) != 1:
            raise AnalysisError('LiteralData.mtime (int): stores %s' % stored)
        is_good = any(re.match(g, stored[0]) for g in good)
        is_bad = any(re.search(b, stored[0]) for b in local)
        if not is_good and not is_bad:
            raise AnalysisError('LiteralData.mtime (int): %s is not a conversion the time rule models' % stored[0])
        rep.check(is_good, 'C20.6', 'LiteralData.mtime (int)', stored[0],
                  'the time field is seconds since 1970 UTC: the reader must build the aware UTC datetime of that instant (a local wall clock '
                  'relabelled as UTC, or a naive value, does not export to the octets it was read from)', where=si.where,
                  expected='datetime.fromtimestamp(seconds, timezone.utc)', found=stored[0])
    bme, bv = sb.params[0], sb.params[1]
    for s in Interp(prog, Scenario(inline=noinline)).run(sb):
        stored = [val for pth, val, l, _ in s.stores if pth.startswith(bme + '.')]
        goodb = ('%s.bytes_to_int(%s)' % (bme, bv), "int.from_bytes(%s, 'big')" % bv, "int.from_bytes(%s, byteorder='big')" % bv)
        rep.check(len(stored) == 1 and stored[0] in goodb, 'C20.6', 'LiteralData.mtime (bytes)', '%s' % stored, 'the four octets are one big-endian number',
                  where=sb.where)


# ------------------------------------------------------------------------------------------------ packet length codec (shared family)
class _Relabel(object):
    """Reports a shared rule family under this property's rule id."""
    def __init__(self, rep, rid):
        self.rep, self.rid = rep, rid

    def __getattr__(self, k):
        return getattr(self.rep, k)

    def check(self, cond, rid, *a, **kw):
        return self.rep.check(cond, self.rid, *a, **kw)

    def violation(self, rid, *a, **kw):
        return self.rep.violation(self.rid, *a, **kw)

    def ok(self, rid, *a, **kw):
        return self.rep.ok(self.rid, *a, **kw)

    def error(self, rid, *a, **kw):
        return self.rep.error(self.rid, *a, **kw)


def length_codec(rep, prog):
    """C20.7: message packets of any length encoding parse to the same content - the packet-header length codec rules of C09
    (new-format thresholds and formulas, width selection, tag octet and partial-body-length chains with 1-, 2- and 5-octet
    continuations), evaluated by the checker's finite-point evaluator, reported here."""
    from rules import C09
    P = _Relabel(rep, 'C20.7')
    H = prog.cls('pgpy.types', 'Header')
    B = C09.Bench(P, prog)
    C09.newformat(P, prog, B)
    C09.widths(P, prog, H, B)
    C09.tagoctet(P, prog, B)
    C09.partial(P, prog, B)
    # ... and the length a packet DECLARES is the length of the body it serialises: update_hlen computes it from the serialised octets, a
    # class-level override that counts something else (characters of a file name instead of its octets) frames the literal packet short
    # for exactly the inputs where the two differ (the C08.h definitions under this property; seeded change C20-w6mut2)
    from rules import C08
    C08.check_update_hlen_defs(P, prog)


# ------------------------------------------------------------------------------------------------ literal text codec
def _codec_name(t):
    return (t or 'utf-8').strip("'\"").lower().replace('_', '-').replace('utf8', 'utf-8')


def literal_text(rep, prog, lit):
    """C20.6: the text of a literal packet is the same characters on both sides: format 'u' is read with exactly the codec the
    message text is written with (utf-8, no byte-order-mark handling), format 't' with latin-1, format 'b' is the octets."""
    pp = lit.find_plain_prop('contents')
    g = pp.get('get') if pp else None
    if g is None:
        raise AnalysisError('LiteralData.contents vanished')
    me = g.params[0]
    ttb = prog.method('pgpy.types', 'PGPObject', 'text_to_bytes')
    wcodec = set()
    # the message text is converted by text_to_bytes(<text>) with no further argument (PGPMessage.new): other parameters take their defaults
    tparams = [p_ for p_ in ttb.params if not (ttb.cls is not None and p_ == ttb.params[0] and not any(dotted(d) == 'staticmethod' for d in ttb.node.decorator_list))]
    targs = {tparams[0]: Sym(tparams[0], types={'str'}, nonnull=True)}
    dflts = ttb.node.args.defaults
    for pn, d in zip([a.arg for a in ttb.node.args.args][len(ttb.node.args.args) - len(dflts):], dflts):
        if pn != tparams[0]:
            try:
                targs[pn] = Const(ast.literal_eval(d))
            except (ValueError, SyntaxError):
                pass
    for s in Interp(prog, Scenario(inline=noinline, args=targs)).run(ttb):
        m = re.match(r"^%s\.encode\((?:'([^']*)')?\)$" % re.escape(tparams[0]), render(s.ret))
        wcodec.add(_codec_name(m.group(1)) if m else render(s.ret))
    want = {'t': 'latin-1', 'u': 'utf-8'}
    for fmt in ('t', 'u', 'b'):
        outs = Interp(prog, Scenario(inline=noinline, bind={'%s.format' % me: Const(fmt)})).run(g)
        rets = sorted({render(s.ret) for s in outs if s.raised is None})
        if fmt == 'b':
            rep.check(rets == ['%s._contents' % me], 'C20.6', 'LiteralData.contents', 'binary: %s' % rets, 'binary contents are the octets themselves', where=g.where)
            continue
        m = re.match(r"^%s\._contents\.decode\((?:'([^']*)')?(?:, '[^']*')?\)$" % re.escape(me), rets[0]) if len(rets) == 1 else None
        rc = _codec_name(m.group(1)) if m else None
        ok = rc == want[fmt] and (fmt != 'u' or wcodec == {'utf-8'})
        rep.check(ok, 'C20.6', 'LiteralData.contents', "format %r read with %s (text written with %s)" % (fmt, rc or rets, sorted(wcodec)),
                  'literal text is read with exactly the codec it is written with (utf-8 for unicode text: a codec that strips or adds a byte '
                  'order mark changes the content), latin-1 for format t', where=g.where, expected=want[fmt], found=rc or rets)


# ------------------------------------------------------------------------------------------------ copies of message packets
MESSAGE_PACKETS = ('LiteralData', 'SKEData', 'IntegrityProtectedSKEDataV1', 'PKESessionKeyV3', 'SKESessionKeyV4')


def message_copies(rep, prog, M):
    """C20.8: when an operation of the library itself works on copy.copy(<message>) (instead of the caller's object), what it
    returns / exports is built from the packet-level copies: every packet class a message holds must then copy whole - header
    and every field its writer emits.  The operand is recognised as a message by the members it is used through."""
    own = {n for n in list(M.methods) + list(M.props) + list(M.plain_props)} - {'__init__', '__copy__', '__or__', '__bytearray__', '__str__', '__iter__', 'parse'}
    others = set()
    for cn in ('PGPKey', 'PGPSignature', 'PGPUID'):
        c = prog.cls('pgpy.pgp', cn)
        others |= set(c.methods) | set(c.props) | set(c.plain_props)
    only_message = own - others
    sites = []
    for fn in prog.all_functions():
        if fn.name in ('__copy__', '__deepcopy__') or not fn.module.name.startswith('pgpy'):
            continue
        for n in ast.walk(fn.node):
            if isinstance(n, ast.Call) and dotted(n.func) in ('copy.copy', 'copy.deepcopy') and n.args and isinstance(n.args[0], ast.Name):
                name = n.args[0].id
                used = {x.attr for x in ast.walk(fn.node) if isinstance(x, ast.Attribute) and isinstance(x.value, ast.Name) and x.value.id == name}
                if used & only_message:
                    sites.append((fn, n, sorted(used & only_message)))
    if not sites:
        rep.ok('C20.8', 'message copies', 'no operation of the library works on a copy of a message (packet-level copies are reached only through an explicit copy.copy by the caller)')
        return
    for fn, n, used in sites:
        rep.saw(fn=fn)
    from rules import C14
    C14.packet_copies(_Relabel(rep, 'C20.8'), prog, 'C20.8', MESSAGE_PACKETS)
