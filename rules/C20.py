"""C20 - Messages are well-formed OpenPGP compositions and keep content and metadata (partial: grammar and wiring).

  C20.1 the packet sequence PGPMessage.__iter__ yields per message kind is derivable from RFC 4880 11.3
  C20.2 one-pass packets are produced from the same signature collection as the trailing signatures, in exactly reversed order
  C20.3 make_onepass builds a FRESH packet from the signature's own type / hash / pk algorithm / issuer and recomputes its length
  C20.4 only the one-pass packet yielded last (the one matching the first trailing signature) is flagged as final
  C20.5 compression wraps the whole sequence with the message's algorithm; importing a compressed packet restores it
  C20.6 literal / one-pass / compressed packet layouts; PGPMessage.new wires format, filename, time, contents
"""
import ast
import re

from sa.interp import alpha, Interp, Scenario, Sym, Const, Bytes, render, merge_consts
from sa.loader import AnalysisError, dotted
from sa import codec

noinline = lambda f: False  # noqa: E731


def run(rep, prog, tier):
    rep.rule('C20.1', 'yield grammar per message kind (RFC 4880 11.3)', floor=4)
    rep.rule('C20.2', 'one-pass order = exact reverse of the trailing signature order, over the same collection', floor=2)
    rep.rule('C20.3', 'make_onepass: fresh packet, fields from the signature itself, update_hlen', floor=5)
    rep.rule('C20.4', 'only the last-yielded one-pass packet is flagged', floor=2)
    rep.rule('C20.5', 'compression wraps everything; CompressedData import restores the setting', floor=5)
    rep.rule('C20.6', 'literal / one-pass / compressed layouts and PGPMessage.new wiring', floor=9)
    rep.assume('SorteDeque iteration order is the order of the trailing signatures; reversed() is its exact reverse (ties included)')

    M = prog.cls('pgpy.pgp', 'PGPMessage')
    it = M.methods.get('__iter__')
    if it is None:
        raise AnalysisError('PGPMessage.__iter__ vanished')
    rep.saw(fn=it)
    S = 'self._signatures'
    grammar = {
        'cleartext': (False, [['EACH($1 in %s;$1)' % S]]),
        'encrypted': (True, [['EACH($1 in %s;$1)' % S, 'EACH($2 in self._sessionkeys;$2)', 'self.message']]),
        'literal': (False, [['OPS', 'self._message', 'self._mdc', 'SIGS'], ['OPS', 'self._message', 'SIGS']]),
    }
    for kind, (enc, allowed) in grammar.items():
        sc = Scenario(inline=noinline, bind={'self.type': Const(kind), 'self.is_encrypted': Const(enc)})
        outs = Interp(prog, sc).run(it)
        rep.analysed['paths'] += len(outs)
        for s in outs:
            ys = alpha('\x00'.join(render(y) for y in s.yields)).split('\x00') if s.yields else []
            if kind != 'literal':
                rep.check(ys in allowed, 'C20.1', 'PGPMessage.__iter__', '%s: %s' % (kind, ys),
                          {'cleartext': 'a cleartext message is followed by its signatures only',
                           'encrypted': 'an encrypted message is its session-key packets followed by exactly one encrypted container, nothing after it'}[kind],
                          where=it.where, expected=allowed[0], found=ys, scenario=kind)
                continue
            # literal: OPS^n LIT [MDC] SIG^n
            m_ops = re.match(r'^EACH\((\$\d+) in (.*);(\$\d+)\.make_onepass\(\)\)$', ys[0]) if ys else None
            m_sig = re.match(r'^EACH\((\$\d+) in (.*);(\$\d+)\)$', ys[-1]) if ys else None
            shape = ['OPS' if m_ops else ys[0] if ys else None] + ys[1:-1] + ['SIGS' if m_sig else ys[-1] if ys else None]
            rep.check(shape in allowed, 'C20.1', 'PGPMessage.__iter__', 'literal: %s' % ys,
                      'a signed message is one-pass packets, one literal packet, then the signatures (RFC 4880 11.3)', where=it.where,
                      expected='OPS* literal [mdc] SIG*', found=ys, scenario=kind)
            if not (m_ops and m_sig):
                continue
            A, B = m_ops.group(2), m_sig.group(2)
            rev_ok = A in ('reversed(%s)' % B, '%s[::-1]' % B) and m_ops.group(1) == m_ops.group(3) and m_sig.group(1) == m_sig.group(3)
            rep.check(rev_ok and B == S, 'C20.2', 'PGPMessage.__iter__', 'one-pass over %s, signatures over %s' % (A, B),
                      'the one-pass packets must be the exact reverse of the trailing signatures over the message\'s own signature collection '
                      '(two independent sorts disagree on signatures with equal creation times)', where=it.where,
                      expected='reversed(%s) / %s' % (S, S), found='%s / %s' % (A, B), scenario=kind)
    # ---- C20.4 flag
    loops = [n for n in ast.walk(it.node) if isinstance(n, ast.For) and 'make_onepass' in ast.unparse(n)]
    if len(loops) != 1:
        raise AnalysisError('PGPMessage.__iter__: one-pass loop not found')
    L = loops[0]
    var = ast.unparse(L.target)
    coll = ast.unparse(L.iter)
    m = re.match(r'^reversed\((.*)\)$', coll)
    base = m.group(1) if m else None
    ifs = [n for n in L.body if isinstance(n, ast.If)]
    flag_ok = False
    found = None
    if len(ifs) == 1 and base is not None:
        t = ast.unparse(ifs[0].test).replace(' ', '')
        body = [ast.unparse(x).replace(' ', '') for x in ifs[0].body]
        found = '%s -> %s' % (ast.unparse(ifs[0].test), body)
        sets_true = len(body) == 1 and re.match(r'^\w+\.nested=True$', body[0]) is not None and not ifs[0].orelse
        last_yielded = t in ('%sis%s[0]' % (var, base), '%s[0]is%s' % (base, var))
        flag_ok = sets_true and last_yielded
    if base is None:
        # order rule C20.2 has already reported the iteration form; the flag rule cannot be evaluated on it
        if not any(f.rule == 'C20.2' for f in rep.findings):
            rep.error('C20.4', 'PGPMessage.__iter__: one-pass loop iterates %s (unrecognised form)' % coll)
    else:
      rep.check(flag_ok, 'C20.4', 'PGPMessage.__iter__', 'flag rule: %s' % found,
              'the flag octet must be 1 exactly on the one-pass packet yielded last - the one for the first trailing signature - and 0 on all others '
              '(RFC 4880 5.4: zero means another one-pass packet follows)', where='%s:%d' % (it.module.relpath, L.lineno),
              expected='if %s is %s[0]: ops.nested = True' % (var, base), found=found)
    # the flagged object is the one yielded
    ys = [n for n in ast.walk(L) if isinstance(n, ast.Yield)]
    asg = [n for n in L.body if isinstance(n, ast.Assign) and 'make_onepass' in ast.unparse(n.value)]
    ok = len(ys) == 1 and len(asg) == 1 and ast.unparse(ys[0].value) == ast.unparse(asg[0].targets[0]) and \
        ast.unparse(asg[0].value) == '%s.make_onepass()' % var
    rep.check(ok, 'C20.4', 'PGPMessage.__iter__', 'yielded object', 'the packet that is flagged is the packet that is yielded, built from the loop\'s signature',
              where=it.where)
    ops_cls = prog.cls('pgpy.packet.packets', 'OnePassSignatureV3')
    ini = ops_cls.methods['__init__']
    dflt = [ast.unparse(n.value) for n in ast.walk(ini.node) if isinstance(n, ast.Assign) and ast.unparse(n.targets[0]) == 'self.nested']
    rep.check(dflt == ['False'], 'C20.4', 'OnePassSignatureV3.__init__', 'nested default %s' % dflt, 'a fresh one-pass packet is not flagged', where=ini.where)

    # ---- C20.3 make_onepass
    mo = prog.method('pgpy.pgp', 'PGPSignature', 'make_onepass')
    rep.saw(fn=mo)
    for s in Interp(prog, Scenario(inline=noinline)).run(mo):
        st = {p: v for p, v, l, _ in s.stores}
        obj = render(s.ret)
        want = {'%s.sigtype' % obj: 'self.type', '%s.halg' % obj: 'self.hash_algorithm', '%s.pubalg' % obj: 'self.key_algorithm',
                '%s.signer' % obj: 'self.signer'}
        for k, v in want.items():
            rep.check(st.get(k) == v, 'C20.3', 'PGPSignature.make_onepass', '%s = %s' % (k, st.get(k)),
                      'the one-pass packet must name its own signature\'s %s' % k.split('.')[-1], where=mo.where, expected=v, found=st.get(k))
        ctor = [c for c in s.calls if c[0] == 'OnePassSignatureV3']
        self_stores = [p for p in st if p.startswith('self.')]
        rep.check(len(ctor) == 1 and not self_stores and s.facts == [], 'C20.3', 'PGPSignature.make_onepass',
                  'fresh packet each call (constructors %d, stores on self %s, conditions %s)' % (len(ctor), self_stores, [f[0] for f in s.facts]),
                  'a new one-pass packet must be built on every call: a cached packet keeps a flag set by an earlier export', where=mo.where)
        rep.check(any(c[0] == '%s.update_hlen' % obj for c in s.calls), 'C20.3', 'PGPSignature.make_onepass', 'update_hlen', 'the packet length is recomputed',
                  where=mo.where)
        break

    # ---- C20.5 compression
    ba = M.methods['__bytearray__']
    for s in Interp(prog, Scenario(inline=noinline, bind={'self.is_compressed': Const(True)})).run(ba):
        st = {p: v for p, v, l, _ in s.stores}
        rep.check(st.get('comp.calg') == 'self._compression' and alpha(st.get('comp.packets', '')) in ('EACH($1 in self;$1)', 'list(self)', '[*self]'), 'C20.5', 'PGPMessage.__bytearray__',
                  'compressed: %s' % st, 'the compressed packet holds every packet of the message, with the message\'s algorithm', where=ba.where)
        order = [e[1] for e in s.events if e[0] == 'call' and e[1] in ('comp.update_hlen', 'comp.__bytearray__')]
        rep.check(order == ['comp.update_hlen', 'comp.__bytearray__'] and render(s.ret) == 'comp.__bytearray__()', 'C20.5', 'PGPMessage.__bytearray__',
                  'update_hlen before serialising %s' % order, 'the compressed packet\'s length is recomputed before it is written, and it is the whole output',
                  where=ba.where)
    for s in Interp(prog, Scenario(inline=noinline, bind={'self.is_compressed': Const(False)})).run(ba):
        rep.check(alpha(render(s.ret)) == 'EACH($1 in self;$1.__bytearray__())', 'C20.5', 'PGPMessage.__bytearray__', 'uncompressed: %s' % render(s.ret),
                  'an uncompressed message is the concatenation of its packets in order', where=ba.where)
    ic = M.methods['is_compressed']
    for s in Interp(prog, Scenario(inline=noinline)).run(ic):
        rep.check(render(s.ret).replace(' ', '') == '(self._compression!=CompressionAlgorithm.Uncompressed)', 'C20.5', 'PGPMessage.is_compressed', render(s.ret),
                  'a message is compressed unless its algorithm is Uncompressed', where=ic.where)
    orf = M.methods['__or__']
    arm = [n for n in orf.node.body if isinstance(n, ast.If) and ast.unparse(n.test) == 'isinstance(other, CompressedData)']
    ok = len(arm) == 1
    if ok:
        b = [ast.unparse(x).replace(' ', '') for x in arm[0].body]
        ok = b[0] == 'self._compression=other.calg' and 'forpktinother.packets:' in b[1] and 'self|=pkt' in b[1] and b[-1] == 'returnself'
    rep.check(ok, 'C20.5', 'PGPMessage.__or__', 'CompressedData arm', 'importing a compressed packet restores the algorithm and adds every inner packet',
              where=orf.where)
    cd = prog.cls('pgpy.packet.packets', 'CompressedData')
    for s in Interp(prog, Scenario()).run(cd.methods['__bytearray__']):
        r = render(s.ret)
        rep.check(alpha(r) == 'self.header.__bytearray__() BYTE(self.calg) self.calg.compress(EACH($1 in self.packets;$1.__bytearray__()))', 'C20.5',
                  'CompressedData.__bytearray__', r, 'a compressed packet is the algorithm octet and the compression of all inner packets together',
                  where=cd.where)

    # ---- C20.6 layouts
    ops = ops_cls.methods['__bytearray__']
    for s in Interp(prog, Scenario()).run(ops):
        r = render(s.ret)
        exp = "self.header.__bytearray__() BYTE(self.sigtype) BYTE(self.halg) BYTE(self.pubalg) binascii.unhexlify(self.signer.encode('latin-1')) BYTE(int(self.nested))"
        rep.check(r == exp, 'C20.6', 'OnePassSignatureV3.__bytearray__', r, 'one-pass packet: type, hash, pk algorithm, 8-octet key id, flag (RFC 4880 5.4)',
                  where=ops.where, expected=exp, found=r)
    src = ast.unparse(ops_cls.methods['parse'].node).replace(' ', '')
    order = [m for m in re.findall(r'self\.(\w+)=packet', src)]
    rep.check(order == ['sigtype', 'halg', 'pubalg', 'signer', 'nested'] and 'self.nested=packet[0]==1' in src, 'C20.6', 'OnePassSignatureV3.parse', 'reads %s' % order,
              'the reader takes the fields in the same order', where=ops_cls.where)
    lit = prog.cls('pgpy.packet.packets', 'LiteralData')
    for s, items in codec.writer_items(prog, lit.methods['__bytearray__'], Scenario()):
        r = render(s.ret)
        exp = ("self.header.__bytearray__() self.format.encode('latin-1') BYTE(len(FN)) FN INT(4;calendar.timegm(self.mtime.utctimetuple())) self._contents")
        m = re.match(r"^self\.header\.__bytearray__\(\) self\.format\.encode\('latin-1'\) BYTE\(len\((.*?)\)\) (.*?) INT\(4;calendar\.timegm\(self\.mtime\.utctimetuple\(\)\)\) self\._contents$", r)
        rep.check(m is not None and m.group(1) == m.group(2) and m.group(1).startswith('self.filename.encode('), 'C20.6', 'LiteralData.__bytearray__', r,
                  'literal packet: format octet, one-octet length of the ENCODED file name, the encoded file name, four-octet time, contents',
                  where=lit.where, expected=exp, found=r)
        wcodec = re.search(r"self\.filename\.encode\('([^']*)'\)", r)
        psrc = ast.unparse(lit.methods['parse'].node)
        rcodec = re.search(r"self\.filename = packet\[:fnl\]\.decode\((?:'([^']*)')?\)", psrc)
        rc = (rcodec.group(1) or 'utf-8') if rcodec else None
        rep.check(wcodec is not None and rc is not None and wcodec.group(1).lower().replace('_', '-') == rc.lower().replace('_', '-'), 'C20.6',
                  'LiteralData filename codec', 'writer %s reader %s' % (wcodec.group(1) if wcodec else None, rc),
                  'the file name must be written with the codec it is read with', where=lit.where)
    psrc = ast.unparse(lit.methods['parse'].node).replace(' ', '')
    rep.check('self._contents=packet[:self.header.length-(6+fnl)]' in psrc and 'delpacket[:self.header.length-(6+fnl)]' in psrc, 'C20.6', 'LiteralData.parse',
              'contents = header.length - (6 + name length)', 'format(1) + name length(1) + time(4) = 6 octets precede the contents besides the name', where=lit.where)
    nw = M.methods['new']
    for sens, fn in ((True, "'_CONSOLE'"), (False, "os.path.basename('')")):
        sc = Scenario(inline=noinline, join_unknown=True, args={'message': Sym('message', types={'str'}, nonnull=True)},
                      axioms={"kwargs.pop('cleartext', False)": False, "kwargs.pop('sensitive', False)": sens,
                              "(kwargs.pop('file', False) and os.path.isfile(message))": False, "kwargs.pop('file', False)": False})
        for s in Interp(prog, sc).run(nw):
            st = {p: v for p, v, l, _ in s.stores}
            rep.check(st.get('lit.filename') == fn, 'C20.6', 'PGPMessage.new', 'sensitive=%s -> filename %s' % (sens, st.get('lit.filename')),
                      'a sensitive message carries the for-your-eyes-only marker _CONSOLE as its file name', where=nw.where, expected=fn, found=st.get('lit.filename'))
            comp = [v for k, v in st.items() if k.endswith('._compression')]
            rep.check(st.get('lit._contents') == 'msg.text_to_bytes(message)' and comp == ["kwargs.pop('compression', CompressionAlgorithm.ZIP)"],
                      'C20.6', 'PGPMessage.new', 'contents %s compression %s' % (st.get('lit._contents'), comp),
                      'contents are the caller\'s message as octets; compression is the caller\'s choice (default ZIP)', where=nw.where)
            rep.check(any(c[0] == 'lit.update_hlen' for c in s.calls) and 'lit.mtime' in st and 'lit.format' in st, 'C20.6', 'PGPMessage.new',
                      'time, format set; update_hlen', 'the literal packet gets its time and format, and its length is recomputed', where=nw.where)
            break
