"""C02 - Signatures conform to RFC 4880 (signing path).

  C02.1 the RFC 5.2.4 templates hold for every type each emitting API can choose; each API chooses the type the statement implies
  C02.2 _sign: one sigdata feeds hash2 and the signer; hash2 = first two digest octets; signer gets the hash named by the signature;
        nothing is added to the hashed area after hashdata; from_signer then update_hlen
  C02.3 no silently dropped option: every addnew keyword is an attribute of the subpacket class; every popped option is used
  C02.4 per-algorithm signature codecs pair up (from_signer <-> __sig__), table covers every signing algorithm
  C02.5 SignatureV4.__bytearray__ layout and canonical_bytes (RFC 4880 5.2.3 / 5.2.4)
  C02.6 every length a signature-subpacket writer emits is followed by exactly the octets it counts
"""
import ast
import re

from sa import sigdata, families, codec, tables
from sa.interp import alpha, sl, ListV, Interp, Scenario, Sym, Const, Bytes, Enum, render, render_items, merge_consts, render_item
from sa.loader import AnalysisError, dotted
from sa.sigdata import enum_const
from sa.templates import length_covers_run, unmodelled, b2i_forms, resolve_lookup, display_keys, area_template, match, render_template, Pred, C, BYTE, SYM

noinline = lambda f: False  # noqa: E731


def at(fi, **by_index):
    """Scenario arguments given by parameter POSITION (`p1=` is the first parameter after self): the rules never depend on
    what a parameter is called; the Sym text chosen here is the name the expectations use."""
    p = fi.params
    out = {}
    for k, v in by_index.items():
        i = int(k[1:])
        if i >= len(p):
            raise AnalysisError('%s: parameter %d vanished' % (fi.qualname, i))
        out[p[i]] = v
    return out


def split_args(t):
    """Top-level comma split of a rendered argument list."""
    out, d, cur = [], 0, ''
    for ch in t:
        if ch in '([{':
            d += 1
        elif ch in ')]}':
            d -= 1
        if ch == ',' and d == 0:
            out.append(cur.strip())
            cur = ''
        else:
            cur += ch
    if cur.strip():
        out.append(cur.strip())
    return out


def positional(text, callee_text, params=()):
    """Argument texts of the rendered call `callee_text(...)` in positional order: a starred tuple display is spliced
    (f(*(a, b)) is f(a, b)) and keyword arguments are bound by the callee's parameter names.  None if `text` is another call."""
    if not (text.startswith(callee_text + '(') and text.endswith(')')):
        return None
    out, kw = [], {}
    for a in split_args(text[len(callee_text) + 1:-1]):
        if a.startswith('*(') and a.endswith(')') and not a.startswith('**'):
            out.extend(split_args(a[2:-1]))
        elif a.startswith('*[') and a.endswith(']'):
            out.extend(split_args(a[2:-1]))
        elif re.match(r'^[A-Za-z_]\w*=[^=]', a):
            k, v = a.split('=', 1)
            kw[k] = v
        else:
            out.append(a)
    for p in list(params)[len(out):]:
        if p not in kw:
            break
        out.append(kw.pop(p))
    return out + ['%s=%s' % kv for kv in sorted(kw.items())]


def addnew_hashed(args, kw):
    """Is this addnew(name, hashed, **options) call (rendered argument texts) filed in the hashed area?  True / False / None = not a literal."""
    v = kw.get('hashed', args[1] if len(args) > 1 else 'False')
    return True if v == 'True' else False if v == 'False' else None


def run(rep, prog, tier):
    rep.rule('C02.1', 'hashed octets = RFC 4880 5.2.4 for every (type x subject) the signing APIs can produce', floor=23)
    rep.rule('C02.1.ids', 'SignatureType ids = RFC 4880 5.2.1', floor=15)
    rep.rule('C02.1b', 'key / user id hashdata denote the public packet bodies', floor=4)
    rep.rule('C02.1c', 'each signing API selects the signature type the statement implies for its subject', floor=10)
    rep.rule('C02.2', '_sign wiring: sigdata -> hash2[:2] and signer; hash object; no hashed subpacket after hashdata; from_signer; update_hlen', floor=6)
    rep.rule('C02.3', 'every addnew keyword exists on the subpacket class; every popped option is consumed', floor=28)
    rep.rule('C02.4', 'signature-algorithm table and from_signer/__sig__ pairs', floor=8)
    rep.rule('C02.5', 'SignatureV4 writer layout and canonical_bytes', floor=2)
    rep.rule('C02.6', 'length prefixes of signature subpackets cover exactly what follows', floor=2)
    rep.rule('C02.8', 'the text signed for a literal message is the literal packet body: unicode text read with exactly the codec it is written with (the C20.6 literal-text family under this property)', floor=2)
    rep.rule('C02.7', 'text-document canonicalisation on the cleartext signing path (RFC 4880 7.1; the C11.4 family under this property)', floor=4)
    rep.assume('PGPKey.hashdata / PGPUID.hashdata are non-empty; int_to_bytes(x, n) emits max(n, byte_length(x), 1) octets')

    sigdata.check_hashdata(rep, prog, 'C02.1')
    families.check_algorithm_ids(rep, prog, 'C02.1.ids')
    sigdata.check_subject_hashdata(rep, prog, 'C02.1b')
    check_type_selection(rep, prog)
    check_sign_flow(rep, prog)
    check_addnew(rep, prog)
    check_sig_codecs(rep, prog)
    check_sigv4_writer(rep, prog)
    check_lengths(rep, prog)
    check_packet_copy(rep, prog)
    check_option_aliasing(rep, prog)
    check_cleartext_canonicalisation(rep, prog)
    check_literal_text(rep, prog)


def check_literal_text(rep, prog):
    """sign(message) hashes message.message, which for a literal message is LiteralData.contents: if that view decodes the packet
    body with another codec than the one the text was written with (e.g. 'utf-8-sig', which drops a leading byte order mark), the
    octets signed are not the octets of the literal packet that is exported next to the signature."""
    from rules import C20
    C20.literal_text(_Proxy(rep, 'C02.8'), prog, prog.cls('pgpy.packet.packets', 'LiteralData'))


class _Proxy(object):
    """Re-labels the rule id of a shared rule family."""
    def __init__(self, rep, rid):
        self.rep, self.rid = rep, rid

    def __getattr__(self, k):
        return getattr(self.rep, k)

    def check(self, cond, rid, *a, **kw):
        return self.rep.check(cond, self.rid, *a, **kw)

    def violation(self, rid, *a, **kw):
        return self.rep.violation(self.rid, *a, **kw)

    def ok(self, rid, *a, **kw):
        return self.rep.ok(self.rid, *a, **kw)


# ------------------------------------------------------------------------------------------------ C02.7
def check_cleartext_canonicalisation(rep, prog):
    """What is hashed for a cleartext message is the RFC 4880 7.1 canonical text: trailing blanks of EVERY line (the last one
    included) removed in the signed view, that view used for signing and verifying, CR LF conversion in hashdata.  The rule
    family is the one C11.4 decides (regex facts via re._parser); a signature made over another text is not a conforming one."""
    from rules import C11
    C11.canonicalisation(_Proxy(rep, 'C02.7'), prog, prog.cls('pgpy.pgp', 'PGPMessage'))


# ------------------------------------------------------------------------------------------------ C02.5 (copies emit the same packet)
def check_packet_copy(rep, prog):
    """A copied signature packet (key.pubkey, copy.copy of a key / user id / message) must emit the same octets: every field the
    writer emits is carried by __copy__ FROM THE SOURCE object - a field read back from the new object is that object's default
    (hash2 = 00 00), a field left out is defaulted."""
    ci = prog.cls('pgpy.packet.packets', 'SignatureV4')
    cp = ci.methods.get('__copy__')
    if cp is None:
        raise AnalysisError('SignatureV4.__copy__ vanished')
    X = cp.params[0]
    # emitted field -> attributes that carry it (the sdproperty or the slot behind it)
    fields = {'header': ('header',), 'sigtype': ('sigtype', '_sigtype'), 'pubalg': ('pubalg', '_pubalg'), 'halg': ('halg', '_halg'),
              'subpackets': ('subpackets',), 'hash2': ('hash2',), 'signature': ('signature', '_signature')}
    n = 0
    for s in Interp(prog, Scenario(inline=noinline)).run(cp):
        if s.raised is not None:
            continue
        n += 1
        obj = render(s.ret)
        from rules.C05 import uncopy
        last = {}
        for pth, v, l, val in s.stores:
            if pth.startswith(obj + '.'):
                last[pth[len(obj) + 1:]] = uncopy(val)[0] if val is not None and uncopy(val)[1] else v
        for fld, attrs in fields.items():
            got = [(a, last[a]) for a in attrs if a in last]
            ok = False
            for a, v in got:
                src = re.sub(r'^(?:copy\.copy|copy\.deepcopy|bytearray|bytes)\((.*)\)$', r'\1', v)
                src = re.sub(r'(\[:\]|\.copy\(\)|\.__copy__\(\))$', '', src)
                if src in ['%s.%s' % (X, b) for b in attrs]:
                    ok = True
            rep.check(ok, 'C02.5', 'SignatureV4.__copy__', '%s <- %s' % (fld, got or 'not carried'),
                      'a copied signature packet must carry %s from the signature it copies: the copy is written with the new object\'s '
                      'default instead (e.g. left 16 bits 00 00), so it no longer is the signature that was made' % fld, where=cp.where,
                      expected='%s.%s = copy of %s.%s' % (obj, attrs[0], X, attrs[0]), found=got or 'not carried', scenario=fld)
    if not n:
        raise AnalysisError('SignatureV4.__copy__: no returning path')


# ------------------------------------------------------------------------------------------------ C02.2 (nothing hashed changes after hashdata: aliasing)
MUTABLE_CONTAINERS = ('list', 'dict', 'set', 'bytearray')      # bytes / str / int / enum members are immutable


def _caller_object(text, kwname, s):
    """Is this rendered option value the caller's own object (not a value computed from it)?  The popped option itself, or a
    variable bound over a collection that is such an object (its items()/values()/keys() included)."""
    if re.match(r'^%s\.pop\(.*\)$' % re.escape(kwname), text) and text.count('(') == text.count(')'):
        inner = text[len(kwname) + 5:-1]
        d = 0
        for ch in inner:
            d += ch in '([{'
            d -= ch in ')]}'
            if d < 0:
                return False
        return True
    m = re.match(r'^(\$[\d.]+)(?:_\d+)*$', text)
    if m and m.group(1) in s.bound:
        coll = re.sub(r'\.(items|values|keys)\(\)$', '', s.bound[m.group(1)])
        return _caller_object(coll, kwname, s)
    return False


def check_option_aliasing(rep, prog):
    """A subpacket filed in the hashed area must not keep a reference to a mutable container the caller still owns: editing the
    caller's list after sign / certify / bind would change the already-signed hashed area (stale lengths, a signature that no
    longer verifies).  For every addnew option whose value IS the caller's object, the setter overloads for mutable containers
    (list, dict, set, bytearray) must store a copy or a conversion (list(v), set(v), bytearray(v), a comprehension, ...), never
    the parameter itself."""
    sigmod = prog.module('pgpy.packet.subpackets.signature')
    fed = {}            # (class name, option) -> where
    for meth in ('sign', 'certify', 'revoke', 'revoker', 'bind', '_sign'):
        f = prog.method('pgpy.pgp', 'PGPKey', meth)
        kwname = f.node.args.kwarg.arg if f.node.args.kwarg is not None else None
        if kwname is None:
            continue
        for s in Interp(prog, Scenario(inline=noinline, join_unknown=True)).run(f):
            for c in s.calls:
                if not c[0].endswith('.addnew') or not c[1] or not re.match(r"^'\w+'$", c[1][0]):
                    continue
                for k, v in c[2].items():
                    if k not in ('hashed', '**') and _caller_object(v, kwname, s):
                        fed.setdefault((c[1][0][1:-1], k), 'PGPKey.%s' % meth)
    n = 0
    for (cname, opt), via in sorted(fed.items()):
        ci = sigmod.classes.get(cname)
        pp = ci.find_prop(opt) if ci is not None else None
        if pp is None:
            continue
        done = set()
        for tn, st in sorted(pp.setters.items()):
            if tn not in MUTABLE_CONTAINERS or (id(st), tn) in done or len(st.params) < 2:
                continue
            done.add((id(st), tn))
            n += 1
            me = st.params[0]
            aliased = []
            for s in Interp(prog, Scenario(args={st.params[1]: Sym('val', types={tn}, nonnull=True)}, inline=noinline)).run(st):
                if s.raised is not None:
                    continue
                for pth, v, l, val in s.stores:
                    if pth.startswith(me + '.') and isinstance(val, Sym) and val.text == 'val':
                        aliased.append((pth, l))
            rep.check(not aliased, 'C02.2', '%s.%s setter (%s)' % (cname, opt, tn), 'caller-owned %s from %s stored %s' % (tn, via, 'by reference' if aliased else 'as a copy'),
                      'a hashed subpacket keeps a reference to the caller\'s own %s: changing it after the signature was made changes the '
                      'hashed area that was signed (what is hashed must be final)' % tn, where=st.where,
                      expected='%s = %s(val)' % (aliased[0][0] if aliased else me + '._x', tn), found=['%s = val' % a for a, _ in aliased], scenario='%s.%s' % (cname, opt))
    if not n:
        raise AnalysisError('no addnew option fed with a caller-owned container found: the aliasing rule would pass vacuously')


# ------------------------------------------------------------------------------------------------ C02.1c
def _new_calls(states, prog):
    """(state, call) for every PGPSignature.new call, the call's argument texts bound to the callee's parameters in order (a call
    spelled with keywords and one spelled positionally are the same call)."""
    params = prog.method('pgpy.pgp', 'PGPSignature', 'new').params[1:]
    out = []
    for s in states:
        for c in s.calls:
            if c[0] == 'PGPSignature.new':
                a = list(c[1])
                for p in params[len(a):]:
                    if p not in c[2]:
                        break
                    a.append(c[2][p])
                c2 = (c[0], a, c[2], c[3], c[4])
                if not any(x[1][:3] == c2[:3] and x[0] is s for x in out):
                    out.append((s, c2))
    return out


def check_type_selection(rep, prog):
    K = 'pgpy.pgp'

    def S(name, types, **attrs):
        return Sym(name, types=set(types), attrs={k: Const(v) for k, v in attrs.items()}, nonnull=True)
    # (method, value of the first parameter, expected type, label, texts the subject handed to _sign may have)
    cases = [
        ('sign', S('subject', ['bytes']), 'SignatureType.BinaryDocument', 'bytes', ['subject']),
        ('sign', S('subject', ['str']), 'SignatureType.BinaryDocument', 'str', ['subject']),
        ('sign', Const(None), 'SignatureType.Timestamp', 'None', ['None']),
        ('sign', S('subject', ['PGPMessage'], type='cleartext'), 'SignatureType.CanonicalDocument', 'cleartext message', ['subject._signed_data']),
        ('sign', S('subject', ['PGPMessage'], type='literal'), 'SignatureType.BinaryDocument', 'literal message',
         ['subject._signed_data', 'subject.message']),
        ('certify', S('subject', ['PGPUID']), 'level', 'user id', ['subject']),
        ('certify', S('subject', ['PGPKey']), 'SignatureType.DirectlyOnKey', 'key', ['subject']),
        ('revoke', S('target', ['PGPUID']), 'SignatureType.CertRevocation', 'user id', ['target']),
        ('revoke', S('target', ['PGPKey'], is_primary=True), 'SignatureType.KeyRevocation', 'primary', ['target']),
        ('revoke', S('target', ['PGPKey'], is_primary=False), 'SignatureType.SubkeyRevocation', 'subkey', ['target']),
        ('revoker', S('revoker', ['PGPKey']), 'SignatureType.DirectlyOnKey', 'revoker', ['self']),
    ]
    for meth, subj, want, label, exp_subj in cases:
        fi = prog.method(K, 'PGPKey', meth)
        rep.saw(fn=fi)
        args = at(fi, p1=subj)
        if meth == 'certify':
            args.update(at(fi, p2=Sym('level')))
        outs = Interp(prog, Scenario(args=args, inline=noinline, join_unknown=True)).run(fi)
        rep.analysed['paths'] += len(outs)
        news = _new_calls(outs, prog)
        types = sorted(set(resolve_lookup(c[1][0]) if c[1] else None for s, c in news), key=str)
        rep.check(types == [want], 'C02.1c', 'PGPKey.%s' % meth, '%s subject -> %s' % (label, types),
                  '%s of a %s must produce a %s signature' % (meth, label, want), where=fi.where, expected=want, found=types,
                  scenario='%s(%s)' % (meth, label))
        seen_args = []
        for s, c in news:
            a = c[1]
            if a in seen_args:
                continue
            seen_args.append(a)
            ok = len(a) >= 4 and a[1] == 'self.key_algorithm' and a[3] == 'self.fingerprint.keyid'
            rep.check(ok, 'C02.1c', 'PGPKey.%s' % meth, 'PGPSignature.new(%s)' % ', '.join(a),
                      'the new signature must name the signing key\'s own algorithm and key id', where=fi.where,
                      expected='PGPSignature.new(<type>, self.key_algorithm, <hash>, self.fingerprint.keyid, ...)', found=a,
                      scenario='%s(%s)' % (meth, label))
        # subject handed to _sign
        nsign = 0
        for s in outs:
            for c in s.calls:
                if c[0] != 'self._sign':
                    continue
                nsign += 1
                got = c[1][0] if c[1] else None
                rep.check(got in exp_subj, 'C02.1c', 'PGPKey.%s' % meth, '%s: _sign subject %s' % (label, got),
                          'the data signed must be the caller\'s subject', where=fi.where, expected=exp_subj, found=got,
                          scenario='%s(%s)' % (meth, label))
        if not nsign and not any(s.raised is None for s in outs):
            raise AnalysisError('PGPKey.%s: no returning path for a %s subject' % (meth, label))
    # bind: type from the key roles
    fb = prog.method(K, 'PGPKey', 'bind')
    for sp, kp, want in ((True, False, 'SignatureType.Subkey_Binding'), (False, True, 'SignatureType.PrimaryKey_Binding')):
        sc = Scenario(bind={'self.is_primary': Const(sp)}, args=at(fb, p1=S('key', ['PGPKey'], is_primary=kp)), inline=noinline)
        outs = Interp(prog, sc).run(fb)
        types = sorted(set(resolve_lookup(c[1][0]) for s, c in _new_calls(outs, prog) if c[1]))
        rep.check(types == [want], 'C02.1c', 'PGPKey.bind', 'primary=%s binds primary=%s -> %s' % (sp, kp, types),
                  'a primary binding a subkey makes 0x18; a subkey binding its primary makes 0x19', where=fb.where, expected=want, found=types)
        for a in sorted(set(tuple(c[1]) for s, c in _new_calls(outs, prog))):
            rep.check(len(a) >= 4 and a[1] == 'self.key_algorithm' and a[3] == 'self.fingerprint.keyid', 'C02.1c', 'PGPKey.bind',
                      'PGPSignature.new(%s)' % ', '.join(a), 'the new signature must name the signing key\'s own algorithm and key id',
                      where=fb.where, expected='PGPSignature.new(<type>, self.key_algorithm, <hash>, self.fingerprint.keyid, ...)', found=list(a))
        subj = sorted(set(c[1][0] if c[1] else None for s in outs for c in s.calls if c[0] == 'self._sign'), key=str)
        rep.check(subj == ['key'], 'C02.1c', 'PGPKey.bind', 'primary=%s binds primary=%s: _sign subject %s' % (sp, kp, subj),
                  'the data signed must be the caller\'s subject (the key being bound)', where=fb.where, expected=['key'], found=subj)


# ------------------------------------------------------------------------------------------------ C02.2
def must_model(ok, construct, found):
    """A mismatch on a value that carries residue of an unmodelled construct is not a verdict: exit 2."""
    if not ok:
        u = unmodelled(found)
        if u is not None:
            raise AnalysisError('%s: %r is outside what the byte-term interpreter models; cannot compare with the layout' % (construct, u))
    return ok


def halg_aliases(S):
    """Texts that denote the hash algorithm of the PGPSignature S (the getter is pinned to the packet field by C05.5)."""
    return ['%s.hash_algorithm' % S, '%s._signature.halg' % S]


def check_sign_flow(rep, prog):
    fi = prog.method('pgpy.pgp', 'PGPKey', '_sign')
    rep.saw(fn=fi)
    sc = Scenario(args=at(fi, p1=Sym('subject'), p2=Sym('sig', types={'PGPSignature'}, nonnull=True)), inline=noinline, join_unknown=True,
                  axioms={'(sig.hash_algorithm is None)': False, '(sig._signature.halg is None)': False})
    outs = Interp(prog, sc).run(fi)
    rep.analysed['paths'] += len(outs)
    HD = 'sig.hashdata(subject)'
    n = 0
    for s in outs:
        if s.raised:
            continue
        n += 1
        if n > 6:
            break
        hd = [e for e in s.events if e[0] == 'call' and e[1] == 'sig.hashdata']
        signs = [c for c in s.calls if c[0] == 'self._key.sign']
        if len(hd) != 1 or len(signs) != 1:
            rep.violation('C02.2', 'PGPKey._sign', '%d hashdata / %d sign calls' % (len(hd), len(signs)),
                          'expected exactly one hashdata computation feeding one signing call', where=fi.where)
            continue
        rep.check(hd[0][2] == ['subject'], 'C02.2', 'PGPKey._sign', 'hashdata(%s)' % hd[0][2], 'the subject hashed must be the caller\'s subject',
                  where=fi.where, expected=HD, found=hd[0][2])
        a = signs[0][1]
        rep.check(a[:1] == [HD], 'C02.2', 'PGPKey._sign', 'signer data %s' % a[:1],
                  'the signer must sign the very octets that hashdata produced', where=fi.where, expected=HD, found=a[:1])
        families.check_hash_object(rep, prog, 'C02.2', 'PGPKey._sign', a[1] if len(a) > 1 else signs[0][2].get('hash_alg'), 'sig', fi.where)
        h2 = [v for p, v, l, _ in s.stores if p == 'sig._signature.hash2']
        # the digest object: <halg>.hasher (a fresh hashlib object of the algorithm's own name, C02.1.ids) or hashlib.new(<halg>.name)
        exp = [sl([('HASH', alg, [('SYM', HD)])], ('', 2)) for h in halg_aliases('sig') for alg in (h, h + '.name')]
        rep.check(len(h2) == 1 and h2[0] in exp, 'C02.2', 'PGPKey._sign', 'hash2 = %s' % h2,
                  'the left 16 bits stored must be the first two octets of the digest of the signed data under the signature\'s hash',
                  where=fi.where, expected=exp[0], found=h2)
        # nothing hashed is added after hashdata
        idx = s.events.index(hd[0])
        late = [e for e in s.events[idx + 1:] if e[0] == 'call' and e[1].endswith('.addnew') and addnew_hashed(e[2], e[3]) is not False]
        late += [e for e in s.events[idx + 1:] if e[0] == 'store' and re.match(r"^sig\._signature\.subpackets(\[\(?'h_|\._hashed)", e[1])]
        late_type = [e for e in s.events[idx + 1:] if e[0] == 'store' and e[1] in ('sig._signature.sigtype', 'sig._signature.halg', 'sig._signature.pubalg')]
        rep.check(not late and not late_type, 'C02.2', 'PGPKey._sign', 'changes after hashdata: %s' % [e[1:3] for e in late + late_type],
                  'what is hashed must be final: no hashed subpacket or header field may change after hashdata', where=fi.where)
        tail = [e[1] for e in s.events[idx + 1:] if e[0] == 'call' and e[1] in ('sig._signature.signature.from_signer', 'sig._signature.update_hlen')]
        rep.check(tail == ['sig._signature.signature.from_signer', 'sig._signature.update_hlen'], 'C02.2', 'PGPKey._sign', 'tail %s' % tail,
                  'the signer output must be stored through from_signer and the header length recomputed afterwards', where=fi.where)
        fs = [c for c in s.calls if c[0] == 'sig._signature.signature.from_signer']
        rep.check(bool(fs) and fs[0][1] and fs[0][1][0].startswith('self._key.sign('), 'C02.2', 'PGPKey._sign', 'from_signer argument',
                  'from_signer must receive the signer output', where=fi.where)
    if n == 0:
        raise AnalysisError('PGPKey._sign: no returning path')
    # PrivKeyV4.sign delegates unchanged
    pv = prog.method('pgpy.packet.packets', 'PrivKeyV4', 'sign')
    km_params = prog.method('pgpy.packet.fields', 'PrivKey', 'sign').params[1:]
    for s in Interp(prog, Scenario(args=at(pv, p1=Sym('sigdata'), p2=Sym('hash_alg')), inline=noinline)).run(pv):
        rep.check(positional(render(s.ret), 'self.keymaterial.sign', km_params) == ['sigdata', 'hash_alg'], 'C02.2', 'PrivKeyV4.sign',
                  'return %s' % render(s.ret), 'the key packet hands (sigdata, hash_alg) unchanged to its key material', where=pv.where,
                  expected='self.keymaterial.sign(sigdata, hash_alg)', found=render(s.ret))
    # key material sign methods: data and hash reach the library; EdDSA pre-hashes like its verify
    fields = prog.module('pgpy.packet.fields')
    for ci in fields.classes.values():
        f = ci.methods.get('sign')
        if f is None or ci.name in ('PrivKey', 'ECDHPriv'):
            continue
        rep.saw(fn=f)
        for s in Interp(prog, Scenario(args=at(f, p1=Sym('sigdata'), p2=Sym('hash_alg')), inline=noinline)).run(f):
            r = render(s.ret)
            if ci.name == 'EdDSAPriv':
                ok = positional(r, 'self.__privkey__().sign') == ['HASH(hash_alg;sigdata)']
            else:
                a = positional(r, 'self.__privkey__().sign') or []
                # first argument the data; the caller's hash object is an argument itself or the argument of the ECDSA scheme
                ok = a[:1] == ['sigdata'] and any(x in ('hash_alg', 'ec.ECDSA(hash_alg)', 'ec.ECDSA(algorithm=hash_alg)', 'algorithm=hash_alg') for x in a[1:])
            rep.check(ok, 'C02.2', '%s.sign' % ci.name, 'return %s' % r, 'the library must sign the caller\'s data with the caller\'s hash',
                      where=f.where, found=r)


# ------------------------------------------------------------------------------------------------ C02.3
def _all_self_stores(ci):
    names = families.class_attr_names(ci)
    for c in ci.mro():
        for defs in c.all_defs.values():
            for f in defs:
                p = f.params
                if not p:
                    continue
                for n in ast.walk(f.node):
                    if isinstance(n, ast.Attribute) and isinstance(n.ctx, ast.Store) and isinstance(n.value, ast.Name) and n.value.id == p[0]:
                        names.add(n.attr)
    return names


class NotLiteral(Exception):
    pass


def _addnew_options(node, where):
    """(hashed literal or None, {option keyword: value node}) of an addnew call; options given as `**{literal dict}` are read too."""
    hashed = node.args[1] if len(node.args) > 1 else None
    opts = {}
    for kw in node.keywords:
        if kw.arg == 'hashed':
            hashed = kw.value
        elif kw.arg is not None:
            opts[kw.arg] = kw.value
        elif isinstance(kw.value, ast.Dict) and all(isinstance(k, ast.Constant) and isinstance(k.value, str) for k in kw.value.keys):
            for k, v in zip(kw.value.keys, kw.value.values):
                if k.value == 'hashed':
                    hashed = v
                else:
                    opts[k.value] = v
        else:
            raise NotLiteral('%s: addnew options passed through a mapping that is not a literal' % where)
    return hashed, opts


def _mapping_keys(text):
    """Option names of a rendered `**` argument: a dict display with literal keys or dict(a=..., b=...)."""
    if text.startswith('{'):
        ks = display_keys(text)
        if ks is not None and all(re.match(r"^'\w+'$", k) for k in ks):
            return [k[1:-1] for k in ks]
    m = re.match(r'^dict\((.*)\)$', text)
    if m:
        parts = split_args(m.group(1))
        if all(re.match(r'^\w+=', x) for x in parts):
            return [x.split('=', 1)[0] for x in parts]
    return None


def _toplevel_functions(prog):
    for m in prog.modules.values():
        for f in m.functions.values():
            yield f
        for c in m.classes.values():
            for defs in c.all_defs.values():
                for f in defs:
                    yield f


def _addnew_sites(prog, fn, cache):
    """(name, hashed True/False/None, option names, where, text) for every addnew call of a top-level function.  A site whose
    subpacket name or option mapping is not a literal (table-driven code, a loop over (name, field, value) triples, a dict held
    in a local) is read off the interpreter's call log of the function instead - the loop over a literal table is unrolled there;
    if the log does not make it literal either the site is outside what the rule understands (exit 2)."""
    inlined = set(c for c, host in (getattr(prog, 'canon_inlined', None) or []))
    dead = set()
    for n in ast.walk(fn.node):
        if isinstance(n, ast.FunctionDef) and n is not fn.node and n.name in inlined:
            dead.update(id(x) for x in ast.walk(n))
    for node in ast.walk(fn.node):
        if not (isinstance(node, ast.Call) and isinstance(node.func, ast.Attribute) and node.func.attr == 'addnew'):
            continue
        w = '%s:%d' % (fn.module.relpath, node.lineno)
        try:
            if not node.args or not isinstance(node.args[0], ast.Constant) or not isinstance(node.args[0].value, str):
                raise NotLiteral('%s: addnew with a non-literal subpacket name' % fn.qualname)
            hashed, opts = _addnew_options(node, w)
            hv = hashed.value if isinstance(hashed, ast.Constant) and isinstance(hashed.value, bool) else (False if hashed is None else None)
            yield node.args[0].value, hv, sorted(opts), w, ast.unparse(node)[:120]
            continue
        except NotLiteral as ex:
            why = str(ex)
        if fn.qualname not in cache:
            cache[fn.qualname] = Interp(prog, Scenario(inline=noinline, join_unknown=True)).run(fn)
        seen = []
        for s in cache[fn.qualname]:
            for c in s.calls:
                if c[0].endswith('.addnew') and c[3] == node.lineno and (c[1], c[2]) not in seen:
                    seen.append((c[1], c[2]))
        if not seen:
            if id(node) in dead:
                continue            # body of a closure the canonicaliser inlined: its copies are sites of their own
            raise AnalysisError(why)
        for args, kw in seen:
            ks = _mapping_keys(kw['**']) if '**' in kw else []
            if not args or not re.match(r"^'\w+'$", args[0]) or ks is None:
                raise AnalysisError(why)
            names = sorted(set(k for k in list(kw) + ks if k not in ('hashed', '**')))
            hv = addnew_hashed(args, kw)
            if 'hashed' in ks:
                hv = None
            yield args[0][1:-1], hv, names, w, 'addnew(%s)' % ', '.join(args + ['%s=%s' % kv for kv in kw.items()])[:120]


def check_addnew(rep, prog):
    sigmod = prog.module('pgpy.packet.subpackets.signature')
    uamod = prog.module('pgpy.packet.subpackets.userattribute')
    n = 0
    cache = {}
    for fn in _toplevel_functions(prog):
        for name, hashed, opts, w, text in _addnew_sites(prog, fn, cache):
            ci = sigmod.classes.get(name) or uamod.classes.get(name)
            n += 1
            rep.analysed['call_sites'] += 1
            if ci is None:
                rep.violation('C02.3', fn.qualname, "addnew('%s')" % name, 'no subpacket class of that name', where=w)
                continue
            attrs = _all_self_stores(ci)
            # everything a signing API states about the signature goes into the HASHED area (only the issuer key id and the
            # embedded back-signature are advisory / self-authenticating and live in the unhashed area)
            if fn.module.name == 'pgpy.pgp' and name not in ('Issuer', 'EmbeddedSignature', 'Image'):
                rep.check(hashed is True, 'C02.3', fn.qualname, "addnew('%s') hashed" % name,
                          "subpacket %s is added outside the hashed area, so the signature does not cover it" % name, where=w,
                          expected="addnew('%s', hashed=True, ...)" % name, found=text, scenario=name)
            for k in opts:
                rep.check(k in attrs, 'C02.3', fn.qualname, "addnew('%s', %s=...)" % (name, k),
                          "subpacket class %s has no attribute '%s': addnew silently ignores the option" % (name, k), where=w,
                          expected='one of %s' % sorted(a for a in attrs if not a.startswith('__'))[:12], found=k, scenario=name)
    # options popped from the caller's keyword mapping must be used: def-use on the function, the mapping found as the **parameter
    for meth in ('sign', 'certify', 'revoke', 'revoker', 'bind', '_sign'):
        f = prog.method('pgpy.pgp', 'PGPKey', meth)
        kwname = f.node.args.kwarg.arg if f.node.args.kwarg is not None else None
        if kwname is None:
            raise AnalysisError('PGPKey.%s: no **options parameter' % meth)
        loads = {}
        for x in ast.walk(f.node):
            if isinstance(x, ast.Name) and isinstance(x.ctx, ast.Load):
                loads[x.id] = loads.get(x.id, 0) + 1
        for node in ast.walk(f.node):
            if not isinstance(node, ast.Assign):
                continue
            pairs = []
            for t in node.targets:
                if isinstance(t, (ast.Tuple, ast.List)) and isinstance(node.value, (ast.Tuple, ast.List)) and len(t.elts) == len(node.value.elts):
                    pairs.extend(zip(t.elts, node.value.elts))
                else:
                    pairs.append((t, node.value))
            for t, v in pairs:
                if isinstance(t, ast.Name) and isinstance(v, ast.Call) and isinstance(v.func, ast.Attribute) and v.func.attr == 'pop' and \
                        isinstance(v.func.value, ast.Name) and v.func.value.id == kwname and v.args:
                    rep.check(loads.get(t.id, 0) > 0, 'C02.3', 'PGPKey.%s' % meth, 'option %s popped into %s' % (ast.unparse(v.args[0]), t.id),
                              'a documented option is read from the caller and then never used', where='%s:%d' % (f.module.relpath, node.lineno))
    # RFC 4880 5.2.3.15: the class octet of a revocation key subpacket always carries 0x80; 0x40 marks it sensitive.  Decided where the
    # interpreter folds the value to a number or an enum member under the two answers to "sensitive?" (other spellings: not decided)
    fr = prog.method('pgpy.pgp', 'PGPKey', 'revoker')
    kc = prog.cls('pgpy.constants', 'RevocationKeyClass').enum_members()
    for sens in (True, False):
        sc = Scenario(inline=noinline, join_unknown=True,
                      oracle=lambda t, _s=sens: _s if re.search(r"\.pop\('sensitive'", t) and not t.startswith('not ') else None)
        for s in Interp(prog, sc).run(fr):
            for c in s.calls:
                if not (c[0].endswith('.addnew') and c[1] and c[1][0] == "'RevocationKey'" and 'keyclass' in c[2]):
                    continue
                t = c[2]['keyclass']
                v = int(t) if t.isdigit() else kc.get(t.split('.')[-1]) if t.startswith('RevocationKeyClass.') else None
                if v is None:
                    continue
                rep.check(bool(v & 0x80) and bool(v & 0x40) == sens, 'C02.3', 'PGPKey.revoker', 'sensitive=%s -> class octet %#x' % (sens, v),
                          'a revocation key class octet must have bit 0x80 set, and 0x40 exactly when the relationship is sensitive',
                          where=fr.where, expected=hex(0xC0 if sens else 0x80), found=hex(v), scenario='sensitive=%s' % sens)
    # addnew itself: sets every keyword the object has, recomputes the length, files under the hashed key iff hashed
    fa = prog.method('pgpy.packet.fields', 'SubPackets', 'addnew')
    for hashed in (True, False):
        sc = Scenario(args=at(fa, p1=Sym('spname', types={'str'}), p2=Const(hashed)), inline=noinline)
        paths = [s for s in Interp(prog, sc).run(fa) if s.raised is None]      # a path that refuses (unknown subpacket name) files nothing
        if not paths:
            raise AnalysisError('SubPackets.addnew has no returning path for hashed=%s' % hashed)
        for s in paths:
            st = [p.replace("('' + spname)", 'spname') for p, v, l, _ in s.stores if '[' in p]
            want = "self[('h_' + spname)]" if hashed else 'self[spname]'
            rep.check(st == [want], 'C02.3', 'SubPackets.addnew', 'hashed=%s -> %s' % (hashed, st),
                      'a subpacket requested as hashed must be filed in the hashed area (and only then)', where=fa.where, expected=want, found=st)
            calls = [c[0] for c in s.calls]
            rep.check('setattr' in calls and any(c.endswith('.update_hlen') for c in calls), 'C02.3', 'SubPackets.addnew', 'setattr + update_hlen',
                      'addnew must set the options and recompute the subpacket length', where=fa.where)


# ------------------------------------------------------------------------------------------------ C02.4
def _pk_members(prog):
    ci = prog.cls('pgpy.constants', 'PubKeyAlgorithm')
    return ci, [(k, Const(Enum('PubKeyAlgorithm', k, v))) for k, v in ci.enum_members().items()]


def signing_algorithms(prog):
    """Members for which PubKeyAlgorithm.can_sign is true: the predicate is evaluated per member by the interpreter (a set
    display, an or-chain and a tuple test all decide the same way)."""
    ci, members = _pk_members(prog)
    cs = ci.methods.get('can_sign') or (ci.find_plain_prop('can_sign') or {}).get('get')
    if cs is None:
        raise AnalysisError('PubKeyAlgorithm.can_sign vanished')
    out = []
    for k, e in members:
        rets = set(render(s.ret) for s in Interp(prog, Scenario(inline=noinline)).run(cs, self_val=e))
        if rets == {'True'}:
            out.append(k)
        elif rets != {'False'}:
            raise AnalysisError('PubKeyAlgorithm.can_sign undecided for %s: %s' % (k, sorted(rets)))
    if not out:
        raise AnalysisError('PubKeyAlgorithm.can_sign: no signing algorithm')
    return out


def _consistent_with_displays(s):
    """False for a path that took a decision `K in {display}` / `K not in {display}` against what the display (a rendered dict,
    set or tuple literal with decided keys) says: such a path does not exist."""
    from sa.guards import atoms, eval_skel
    for text, value, sk in s.facts:
        def val(atom):
            if atom[0] == 'cmp' and atom[1] in ('in', 'not in'):
                keys = display_keys(atom[3])
                if keys is not None and re.match(r'^[\w.]+$', atom[2]) and all(re.match(r'^[\w.]+$', k) for k in keys):
                    return (atom[2] in keys) == (atom[1] == 'in')
            return None
        v = eval_skel(sk, val) if sk is not None else None
        if v is not None and v != value:
            return False
    return True


def signature_class_for(prog, f, e):
    """Class SignatureV4.pubalg_int installs as `self.signature` when the algorithm octet is member e (table or if-chain)."""
    sc = Scenario(args=at(f, p1=e), inline=noinline, inline_props={'pubalg'})
    cands = []
    for s in Interp(prog, sc).run(f):
        if s.raised or not _consistent_with_displays(s):
            continue
        st = [v for p, v, l, _ in s.stores if p == 'self.signature']
        if len(st) != 1:
            raise AnalysisError('%s: %d stores to self.signature' % (f.qualname, len(st)))
        t = st[0]
        r = resolve_lookup(t[:-2]) if t.endswith('()') else t
        handler = any(re.match(r'^except \(?(KeyError|LookupError|Exception)\b', fct[0]) for fct in s.facts)
        cands.append((r, handler, t.startswith('{') and r != t[:-2], r.startswith('{')))
    # `table[K]` guarded by `except KeyError`: the subscript succeeds exactly when K is a key of the display, so for a decided K
    # one of the two paths does not exist
    if any(hit for r, handler, hit, miss in cands):
        cands = [c for c in cands if not c[1]]
    cands = [c for c in cands if not c[3]] if any(c[1] for c in cands) else cands
    got = set(c[0] for c in cands)
    if len(got) != 1 or not re.match(r'^\w+$', next(iter(got))):
        raise AnalysisError('%s: cannot read the signature class chosen for %s: %s' % (f.qualname, render(e), sorted(got)))
    return next(iter(got))


def _with_class_attrs(prog, ci, text, me):
    """`text` with every `<self>.<name>` that is a class-level attribute of ci (not a literal the canonicaliser could inline,
    e.g. an object built once from a comprehension over another class attribute) replaced by the value text of its defining
    expression, evaluated by the interpreter in the class body's scope."""
    from sa.interp import Frame, State
    from sa.loader import FunctionInfo

    def value(name):
        owner = next((c for c in ci.mro() if name in c.attrs), None)
        if owner is None:
            return None
        fr = Frame(Interp(prog, Scenario(inline=noinline)), FunctionInfo(ast.parse('def _f(): pass').body[0], owner.module, owner), 0)
        st = State()
        for k, av in owner.attrs.items():
            if k != name:
                try:
                    lit = ast.literal_eval(av)
                    st.env[k] = ListV([Const(x) for x in lit], 'tuple') if isinstance(lit, (tuple, list)) else Const(lit)
                except Exception:
                    pass
        try:
            return render(fr.ev(owner.attrs[name], st))
        except Exception:
            return None

    def rep_(m):
        if ci.find_method(m.group(1)) is not None or ci.find_prop(m.group(1)) is not None:
            return m.group(0)
        v = value(m.group(1))
        return v if v is not None else m.group(0)
    return re.sub(r'(?<![\w.])%s\.(\w+)(?![\w(])' % re.escape(me), rep_, text)


def check_sig_codecs(rep, prog):
    ci = prog.cls('pgpy.packet.packets', 'SignatureV4')
    f = ci.methods.get('pubalg_int')
    if f is None:
        raise AnalysisError('SignatureV4.pubalg_int vanished')
    signers = signing_algorithms(prog)
    members = dict(_pk_members(prog)[1])
    fields = prog.module('pgpy.packet.fields')
    want = {'RSAEncryptOrSign': 'RSASignature', 'DSA': 'DSASignature', 'ECDSA': 'ECDSASignature', 'EdDSA': 'EdDSASignature'}
    # RFC 4880 9.1 / RFC 6637 / EdDSA draft: the algorithms that make signatures
    rep.check(set(want) <= set(signers), 'C02.4', 'PubKeyAlgorithm.can_sign', 'signing algorithms %s' % signers,
              'an algorithm that makes signatures is not treated as one', where=f.where, expected=sorted(want), found=signers)
    for a in signers:
        got = signature_class_for(prog, f, members[a])
        rep.check(got == want.get(a), 'C02.4', 'SignatureV4.pubalg_int', '%s -> %s' % (a, got),
                  'every signing algorithm needs its own signature field class', where=f.where, expected=want.get(a), found=got, scenario=a)
        sc = fields.classes.get(got or '')
        if sc is not None:
            rep.check(sc.find_method('from_signer') is not None and sc.find_method('__sig__') is not None and sc.find_method('parse') is not None,
                      'C02.4', sc.name, 'from_signer/__sig__/parse', 'signature field class must convert both ways', where=sc.where)
    # private classes of signing algorithms define sign
    _, km = tables.keymaterial_table(prog)
    for a in signers:
        pc = fields.classes.get(km.get((False, a), ''))
        if pc is None:
            rep.violation('C02.4', 'PubKeyV4.pkalg_int', 'no private class for %s' % a, 'signing algorithm without private key material', where=f.where)
            continue
        sg = pc.find_method('sign')
        rep.check(sg is not None and sg.cls.name != 'PrivKey', 'C02.4', '%s.sign' % pc.name, 'sign resolves to %s' % (sg.qualname if sg else None),
                  'a signing algorithm\'s private material must implement sign', where=pc.where, scenario=a)
    # RSA: integer <-> MPI octets
    rsa = fields.classes['RSASignature']
    SIG = Sym('sig')
    for s in Interp(prog, Scenario(inline=noinline)).run(rsa.methods['__sig__']):
        exp = sl('self.md_mod_n.to_mpibytes()', (2, ''))
        rep.check(render(s.ret) == exp, 'C02.4', 'RSASignature.__sig__', render(s.ret),
                  'the RSA signature handed to the verifier is the MPI value octets', where=rsa.where, expected=exp, found=render(s.ret))
    f = rsa.methods['from_signer']
    for s in Interp(prog, Scenario(args=at(f, p1=SIG), inline=noinline)).run(f):
        st = [v for p, v, l, _ in s.stores if p == 'self.md_mod_n']
        rep.check(len(st) == 1 and st[0] in ['MPI(%s)' % b for b in b2i_forms('self', 'sig')], 'C02.4', 'RSASignature.from_signer', '%s' % st,
                  'the signer output is stored as one big-endian integer', where=rsa.where)
    # EdDSA: two halves of (key_size + 7) // 8 octets both ways (RFC 8032: R and S are 32 octets each for Ed25519)
    ed = fields.classes['EdDSASignature']
    widths = ('((EllipticCurveOID.Ed25519.key_size + 7) // 8)', '32')
    for s in Interp(prog, Scenario(inline=noinline)).run(ed.methods['__sig__']):
        r = render(s.ret)
        rep.check(r in ['INT(%s;self.r) INT(%s;self.s)' % (W, W) for W in widths], 'C02.4', 'EdDSASignature.__sig__', r,
                  'r and s must each be emitted at the full curve width (leading zero octets kept)', where=ed.where,
                  expected='INT(w;r) INT(w;s) with w = (key_size + 7) // 8', found=r)
    f = ed.methods['from_signer']
    halves = ('(len(sig) // 2)', '(len(sig) >> 1)')
    lows = lambda H: (H, '-' + H)          # for a signature of even length (odd ones are refused) sig[-h:] is sig[h:]   # noqa: E731
    npaths = 0
    for s in Interp(prog, Scenario(args=at(f, p1=SIG), inline=noinline)).run(f):
        if s.raised:
            continue
        npaths += 1
        r_ = [v for p, v, l, _ in s.stores if p == 'self.r']
        s_ = [v for p, v, l, _ in s.stores if p == 'self.s']
        ok = len(r_) == 1 and len(s_) == 1 and any(
            r_[0] in ['MPI(%s)' % b for b in b2i_forms('self', sl('sig', ('', H)))] and
            s_[0] in ['MPI(%s)' % b for L in lows(H) for b in b2i_forms('self', sl('sig', (L, '')))] for H in halves)
        rep.check(ok, 'C02.4', 'EdDSASignature.from_signer', 'r=%s s=%s' % (r_, s_), 'the signer output is split into two equal halves r || s',
                  where=ed.where, expected='r = sig[:len(sig) // 2], s = sig[len(sig) // 2:]', found='r=%s s=%s' % (r_, s_))
    if not npaths:
        raise AnalysisError('EdDSASignature.from_signer: no returning path')
    # DSA / ECDSA: DER SEQUENCE{r, s} both ways
    dsa = fields.classes['DSASignature']
    mp = dsa.attrs.get('__mpis__')
    try:
        mpis = tuple(ast.literal_eval(mp)) if mp is not None else None
    except ValueError:
        mpis = None
    rep.check(mpis == ('r', 's'), 'C02.4', 'DSASignature.__mpis__', ast.unparse(mp) if mp else None,
              'DSA-family signatures are the MPIs r then s', where=dsa.where)
    # the verifier input: encoder.encode(X) of an ASN.1 Sequence X whose components are the INTEGERs named r, s in that order, each
    # set from the attribute of the same name (decided on the interpreter's call log, the loop over __mpis__ unrolled)
    f = dsa.methods['__sig__']
    for s in Interp(prog, Scenario(inline=noinline)).run(f):
        r = render(s.ret)
        m = re.match(r'^encoder\.encode\((.*)\)$', r)
        seq = m.group(1) if m else None
        seq_shown = _with_class_attrs(prog, dsa, seq, f.params[0]) if seq else seq      # layout hoisted to a class-level attribute
        comps = re.findall(r"NamedType\('(\w+)', (\w+)\(\)\)", seq_shown or '')
        sets = [tuple(c[1]) for c in s.calls if seq is not None and c[0] == seq + '.setComponentByName']
        ok = bool(m) and seq.startswith('Sequence(') and comps == [('r', 'Integer'), ('s', 'Integer')] and \
            sorted(sets) == [("'r'", 'self.r'), ("'s'", 'self.s')]
        rep.check(ok, 'C02.4', 'DSASignature.__sig__', 'DER SEQUENCE of r, s', 'the verifier input is the DER SEQUENCE {r, s}', where=dsa.where,
                  expected="encoder.encode(Sequence{r INTEGER, s INTEGER}) with r = self.r, s = self.s", found='%s; set %s' % (r, sets))
    ec = fields.classes['ECDSASignature']
    f = ec.methods['from_signer']
    for s in Interp(prog, Scenario(args=at(f, p1=SIG), inline=noinline)).run(f):
        r_ = [v for p, v, l, _ in s.stores if p == 'self.r']
        s_ = [v for p, v, l, _ in s.stores if p == 'self.s']
        rep.check(r_ == ['MPI(decoder.decode(sig)[0][0])'] and s_ == ['MPI(decoder.decode(sig)[0][1])'], 'C02.4', 'ECDSASignature.from_signer',
                  'r=%s s=%s' % (r_, s_), 'r and s are the first and second INTEGER of the DER signature', where=ec.where)
    # generic writer: MPIs in __mpis__ order
    sb = fields.classes['Signature'].methods['__bytearray__']
    for s in Interp(prog, Scenario(inline=noinline)).run(sb):
        must_model(alpha(render(s.ret)) == 'EACH($1 in self;$1.to_mpibytes())', 'fields.Signature.__bytearray__', render(s.ret))
        rep.check(alpha(render(s.ret)) == 'EACH($1 in self;$1.to_mpibytes())', 'C02.4', 'fields.Signature.__bytearray__', render(s.ret),
                  'signature MPIs are written in field order', where=sb.where)


# ------------------------------------------------------------------------------------------------ C02.5
def check_sigv4_writer(rep, prog):
    ci = prog.cls('pgpy.packet.packets', 'SignatureV4')
    wb = ci.methods['__bytearray__']
    X = wb.params[0]
    fields = [BYTE('%s.sigtype' % X), BYTE('%s.pubalg' % X), BYTE('%s.halg' % X)]
    tail = [SYM('%s.hash2' % X), SYM('%s.signature.__bytearray__()' % X)]
    tpl = [SYM('%s.header.__bytearray__()' % X)] + fields + [SYM('%s.subpackets.__bytearray__()' % X)] + tail
    for s in Interp(prog, Scenario()).run(wb):
        r = render(s.ret)
        ok, _, msg = match(s.ret.items, tpl) if isinstance(s.ret, Bytes) else (False, 0, 'not a byte string')
        must_model(ok, 'SignatureV4.__bytearray__', r)
        rep.check(ok, 'C02.5', 'SignatureV4.__bytearray__', r,
                  'a V4 signature body is type, pk alg, hash alg, hashed+unhashed areas, left 16 bits, signature MPIs (RFC 4880 5.2.3)',
                  where=wb.where, expected=render_template(tpl), found='%s (%s)' % (r, msg))
    cb = ci.methods['canonical_bytes']
    X = cb.params[0]
    for s in Interp(prog, Scenario()).run(cb):
        r = render(s.ret)
        raw = merge_consts(s.ret.items) if isinstance(s.ret, Bytes) else []
        # the four-octet count must be the length of exactly the terms that follow it (whatever they are; they are matched next)
        k = next((i for i, it in enumerate(raw) if it[0] == 'INT' and str(it[1]) == '4'), None)
        rest = 'len(%s)' % render_items(raw[k + 1:]) if k is not None else None
        body = [BYTE('%s.header.version' % X)] + fields + [SYM('%s.subpackets.__hashbytearray__()' % X), C('0000')] + tail
        follow = raw[k + 1:] if k is not None else []
        tpl = [C('88'), Pred('LEN(4; the body that follows)', lambda it, _f=follow: it[0] == 'INT' and str(it[1]) == '4' and
                             length_covers_run(it[2], _f))] + body
        ok, _, msg = match(raw, tpl) if raw else (False, 0, 'not a byte string')
        must_model(ok, 'SignatureV4.canonical_bytes', r)
        rep.check(ok, 'C02.5', 'SignatureV4.canonical_bytes', r[:100],
                  'a signature being signed/attested is 0x88, four-octet length, body with an empty unhashed area (RFC 4880 5.2.4)',
                  where=cb.where, expected=render_template(tpl), found='%s (%s)' % (r, msg))
    # the two areas when built from objects (for the hashed one: no received octets are held, C05.2 decides which attribute that is)
    sp = prog.cls('pgpy.packet.fields', 'SubPackets')
    from rules.C05 import raw_attribute
    raw = raw_attribute(prog)
    for meth, coll, sc, what in (
            ('__hashbytearray__', 'self._hashed_sp.values()', Scenario(bind={'self.%s' % raw: Const(None)} if raw else {}, inline=noinline), 'a freshly built hashed area'),
            ('__unhashbytearray__', 'self._unhashed_sp.values()', Scenario(inline=noinline), 'the unhashed area')):
        f = sp.methods.get(meth)
        if f is None:
            raise AnalysisError('SubPackets.%s vanished' % meth)
        tpl = area_template(coll)
        for s in Interp(prog, sc).run(f):
            r = render(s.ret)
            ok, _, msg = match(s.ret.items, tpl) if isinstance(s.ret, Bytes) else (False, 0, 'not a byte string')
            must_model(ok, 'SubPackets.%s' % meth, r)
            rep.check(ok, 'C02.5', 'SubPackets.%s' % meth, r, '%s is its two-octet length then its subpackets in order' % what,
                      where=sp.where, expected=render_template(tpl), found='%s (%s)' % (r, msg))


# ------------------------------------------------------------------------------------------------ C02.6
def check_lengths(rep, prog):
    sigmod = prog.module('pgpy.packet.subpackets.signature')
    n = 0
    for ci in sigmod.classes.values():
        f = ci.methods.get('__bytearray__')
        if f is None:
            continue
        rep.saw(cls=ci)
        for s, items in codec.writer_items(prog, f, Scenario()):
            if items is None:
                continue
            for ok, lenitem, x, follow in codec.length_covers(items):
                n += 1
                rep.check(ok, 'C02.6', '%s.__bytearray__' % ci.name, '%s not followed by %s' % (lenitem, x),
                          'a length prefix counts something other than the octets that follow it (e.g. characters instead of encoded octets)',
                          where=f.where, expected='%s ... %s' % (lenitem, x), found='%s then %s' % (lenitem, follow), scenario=ci.name)
    return n
