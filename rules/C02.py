"""C02 - Signatures conform to RFC 4880 (signing path).

  C02.1 the RFC 5.2.4 templates hold for every type each emitting API can choose; each API chooses the type the statement implies
  C02.2 _sign: one sigdata feeds hash2 and the signer; hash2 = first two digest octets; signer gets the hash named by the signature;
        nothing is added to the hashed area after hashdata; from_signer then update_hlen
  C02.3 no silently dropped option: every addnew keyword is an attribute of the subpacket class; every popped option is used
  C02.4 per-algorithm signature codecs pair up (from_signer <-> __sig__), table covers every signing algorithm
  C02.5 SignatureV4.__bytearray__ layout and canonical_bytes (RFC 4880 5.2.3 / 5.2.4)
  C02.6 every length a signature-subpacket writer emits is followed by exactly the octets it counts
"""
import ast
import re

from sa import sigdata, families, codec, tables
from sa.interp import alpha, Interp, Scenario, Sym, Const, Bytes, Enum, render, render_items, merge_consts, render_item
from sa.loader import AnalysisError, dotted
from sa.sigdata import enum_const

noinline = lambda f: False  # noqa: E731


def run(rep, prog, tier):
    rep.rule('C02.1', 'hashed octets = RFC 4880 5.2.4 for every (type x subject) the signing APIs can produce', floor=23)
    rep.rule('C02.1.ids', 'SignatureType ids = RFC 4880 5.2.1', floor=15)
    rep.rule('C02.1b', 'key / user id hashdata denote the public packet bodies', floor=4)
    rep.rule('C02.1c', 'each signing API selects the signature type the statement implies for its subject', floor=10)
    rep.rule('C02.2', '_sign wiring: sigdata -> hash2[:2] and signer; hash object; no hashed subpacket after hashdata; from_signer; update_hlen', floor=6)
    rep.rule('C02.3', 'every addnew keyword exists on the subpacket class; every popped option is consumed', floor=28)
    rep.rule('C02.4', 'signature-algorithm table and from_signer/__sig__ pairs', floor=8)
    rep.rule('C02.5', 'SignatureV4 writer layout and canonical_bytes', floor=2)
    rep.rule('C02.6', 'length prefixes of signature subpackets cover exactly what follows', floor=2)
    rep.assume('PGPKey.hashdata / PGPUID.hashdata are non-empty; int_to_bytes(x, n) emits max(n, byte_length(x), 1) octets')

    sigdata.check_hashdata(rep, prog, 'C02.1')
    families.check_algorithm_ids(rep, prog, 'C02.1.ids')
    sigdata.check_subject_hashdata(rep, prog, 'C02.1b')
    check_type_selection(rep, prog)
    check_sign_flow(rep, prog)
    check_addnew(rep, prog)
    check_sig_codecs(rep, prog)
    check_sigv4_writer(rep, prog)
    check_lengths(rep, prog)


# ------------------------------------------------------------------------------------------------ C02.1c
def _new_calls(states):
    out = []
    for s in states:
        for c in s.calls:
            if c[0] == 'PGPSignature.new' and (s, c) not in out:
                out.append((s, c))
    return out


def check_type_selection(rep, prog):
    K = 'pgpy.pgp'
    msg_ct = Sym('subject', types={'PGPMessage'}, attrs={'type': Const('cleartext')}, nonnull=True)
    msg_lit = Sym('subject', types={'PGPMessage'}, attrs={'type': Const('literal')}, nonnull=True)
    cases = [
        ('sign', {'subject': Sym('subject', types={'bytes'}, nonnull=True)}, 'SignatureType.BinaryDocument', 'bytes'),
        ('sign', {'subject': Sym('subject', types={'str'}, nonnull=True)}, 'SignatureType.BinaryDocument', 'str'),
        ('sign', {'subject': Const(None)}, 'SignatureType.Timestamp', 'None'),
        ('sign', {'subject': msg_ct}, 'SignatureType.CanonicalDocument', 'cleartext message'),
        ('sign', {'subject': msg_lit}, 'SignatureType.BinaryDocument', 'literal message'),
        ('certify', {'subject': Sym('subject', types={'PGPUID'}, nonnull=True)}, 'level', 'user id'),
        ('certify', {'subject': Sym('subject', types={'PGPKey'}, nonnull=True)}, 'SignatureType.DirectlyOnKey', 'key'),
        ('revoke', {'target': Sym('target', types={'PGPUID'}, nonnull=True)}, 'SignatureType.CertRevocation', 'user id'),
        ('revoke', {'target': Sym('target', types={'PGPKey'}, attrs={'is_primary': Const(True)}, nonnull=True)}, 'SignatureType.KeyRevocation', 'primary'),
        ('revoke', {'target': Sym('target', types={'PGPKey'}, attrs={'is_primary': Const(False)}, nonnull=True)}, 'SignatureType.SubkeyRevocation', 'subkey'),
        ('revoker', {'revoker': Sym('revoker', types={'PGPKey'}, nonnull=True)}, 'SignatureType.DirectlyOnKey', 'revoker'),
    ]
    for meth, args, want, label in cases:
        fi = prog.method(K, 'PGPKey', meth)
        rep.saw(fn=fi)
        outs = Interp(prog, Scenario(args=args, inline=noinline, join_unknown=True)).run(fi)
        rep.analysed['paths'] += len(outs)
        news = _new_calls(outs)
        types = sorted(set(c[1][0] for s, c in news))
        rep.check(types == [want], 'C02.1c', 'PGPKey.%s' % meth, '%s subject -> %s' % (label, types),
                  '%s of a %s must produce a %s signature' % (meth, label, want), where=fi.where, expected=want, found=types,
                  scenario='%s(%s)' % (meth, label))
        for s, c in news:
            a = c[1]
            ok = len(a) >= 4 and a[1] == 'self.key_algorithm' and a[3] == 'self.fingerprint.keyid'
            rep.check(ok, 'C02.1c', 'PGPKey.%s' % meth, 'PGPSignature.new(%s)' % ', '.join(a),
                      'the new signature must name the signing key\'s own algorithm and key id', where=fi.where,
                      expected='PGPSignature.new(<type>, self.key_algorithm, <hash>, self.fingerprint.keyid, ...)', found=a,
                      scenario='%s(%s)' % (meth, label))
            break
        # subject handed to _sign
        subj_param = list(args)[0]
        for s in outs:
            sg = [c for c in s.calls if c[0] == 'self._sign']
            for c in sg:
                got = c[1][0] if c[1] else None
                if meth == 'sign' and 'message' in label:
                    exp_subj = ['subject._signed_data', 'subject.message']
                    if label.startswith('cleartext'):
                        exp_subj = ['subject._signed_data']
                elif meth == 'revoker':
                    exp_subj = ['self']
                else:
                    exp_subj = [subj_param, render(args[subj_param])]
                rep.check(got in exp_subj, 'C02.1c', 'PGPKey.%s' % meth, '%s: _sign subject %s' % (label, got),
                          'the data signed must be the caller\'s subject', where=fi.where, expected=exp_subj, found=got,
                          scenario='%s(%s)' % (meth, label))
    # bind: type from the key roles
    fb = prog.method(K, 'PGPKey', 'bind')
    for sp, kp, want in ((True, False, 'SignatureType.Subkey_Binding'), (False, True, 'SignatureType.PrimaryKey_Binding')):
        sc = Scenario(bind={'self.is_primary': Const(sp)}, args={'key': Sym('key', types={'PGPKey'}, attrs={'is_primary': Const(kp)}, nonnull=True)},
                      inline=noinline)
        outs = Interp(prog, sc).run(fb)
        types = sorted(set(c[1][0] for s, c in _new_calls(outs)))
        rep.check(types == [want], 'C02.1c', 'PGPKey.bind', 'primary=%s binds primary=%s -> %s' % (sp, kp, types),
                  'a primary binding a subkey makes 0x18; a subkey binding its primary makes 0x19', where=fb.where, expected=want, found=types)


# ------------------------------------------------------------------------------------------------ C02.2
def check_sign_flow(rep, prog):
    fi = prog.method('pgpy.pgp', 'PGPKey', '_sign')
    rep.saw(fn=fi)
    sc = Scenario(args={'sig': Sym('sig', types={'PGPSignature'}, nonnull=True)}, inline=noinline, join_unknown=True,
                  axioms={'(sig.hash_algorithm is None)': False})
    outs = Interp(prog, sc).run(fi)
    rep.analysed['paths'] += len(outs)
    n = 0
    for s in outs:
        if s.raised:
            continue
        n += 1
        if n > 6:
            break
        hd = [e for e in s.events if e[0] == 'call' and e[1] == 'sig.hashdata']
        signs = [c for c in s.calls if c[0] == 'self._key.sign']
        if len(hd) != 1 or len(signs) != 1:
            rep.violation('C02.2', 'PGPKey._sign', '%d hashdata / %d sign calls' % (len(hd), len(signs)),
                          'expected exactly one hashdata computation feeding one signing call', where=fi.where)
            continue
        rep.check(hd[0][2] == ['subject'], 'C02.2', 'PGPKey._sign', 'hashdata(%s)' % hd[0][2], 'the subject hashed must be the caller\'s subject',
                  where=fi.where, expected='sig.hashdata(subject)', found=hd[0][2])
        a = signs[0][1]
        rep.check(a[:1] == ['sig.hashdata(subject)'], 'C02.2', 'PGPKey._sign', 'signer data %s' % a[:1],
                  'the signer must sign the very octets that hashdata produced', where=fi.where, expected='sig.hashdata(subject)', found=a[:1])
        families.check_hash_object(rep, prog, 'C02.2', 'PGPKey._sign', a[1] if len(a) > 1 else None, 'sig', fi.where)
        h2 = [v for p, v, l, _ in s.stores if p == 'sig._signature.hash2']
        exp = 'SLICE(HASH(sig.hash_algorithm;sig.hashdata(subject));;2)'
        rep.check(h2 == [exp], 'C02.2', 'PGPKey._sign', 'hash2 = %s' % h2,
                  'the left 16 bits stored must be the first two octets of the digest of the signed data under the signature\'s hash',
                  where=fi.where, expected=exp, found=h2)
        # nothing hashed is added after hashdata
        idx = s.events.index(hd[0])
        late = [e for e in s.events[idx + 1:] if e[0] == 'call' and e[1].endswith('.addnew') and e[3].get('hashed') == 'True']
        late_type = [e for e in s.events[idx + 1:] if e[0] == 'store' and e[1] in ('sig._signature.sigtype', 'sig._signature.halg', 'sig._signature.pubalg')]
        rep.check(not late and not late_type, 'C02.2', 'PGPKey._sign', 'changes after hashdata: %s' % [e[1:3] for e in late + late_type],
                  'what is hashed must be final: no hashed subpacket or header field may change after hashdata', where=fi.where)
        tail = [e[1] for e in s.events[idx + 1:] if e[0] == 'call' and e[1] in ('sig._signature.signature.from_signer', 'sig._signature.update_hlen')]
        rep.check(tail == ['sig._signature.signature.from_signer', 'sig._signature.update_hlen'], 'C02.2', 'PGPKey._sign', 'tail %s' % tail,
                  'the signer output must be stored through from_signer and the header length recomputed afterwards', where=fi.where)
        fs = [c for c in s.calls if c[0] == 'sig._signature.signature.from_signer']
        rep.check(bool(fs) and fs[0][1] and fs[0][1][0].startswith('self._key.sign('), 'C02.2', 'PGPKey._sign', 'from_signer argument',
                  'from_signer must receive the signer output', where=fi.where)
    if n == 0:
        raise AnalysisError('PGPKey._sign: no returning path')
    # PrivKeyV4.sign delegates unchanged
    pv = prog.method('pgpy.packet.packets', 'PrivKeyV4', 'sign')
    for s in Interp(prog, Scenario(inline=noinline)).run(pv):
        rep.check(render(s.ret) == 'self.keymaterial.sign(sigdata, hash_alg)', 'C02.2', 'PrivKeyV4.sign', 'return %s' % render(s.ret),
                  'the key packet hands (sigdata, hash_alg) unchanged to its key material', where=pv.where)
    # key material sign methods: data and hash reach the library; EdDSA pre-hashes like its verify
    fields = prog.module('pgpy.packet.fields')
    for ci in fields.classes.values():
        f = ci.methods.get('sign')
        if f is None or ci.name in ('PrivKey', 'ECDHPriv'):
            continue
        rep.saw(fn=f)
        for s in Interp(prog, Scenario(inline=noinline)).run(f):
            r = render(s.ret)
            if ci.name == 'EdDSAPriv':
                ok = r == 'self.__privkey__().sign(HASH(hash_alg;sigdata))'
            else:
                ok = r.startswith('self.__privkey__().sign(sigdata, ') and 'hash_alg' in r
            rep.check(ok, 'C02.2', '%s.sign' % ci.name, 'return %s' % r, 'the library must sign the caller\'s data with the caller\'s hash',
                      where=f.where, found=r)


# ------------------------------------------------------------------------------------------------ C02.3
def _all_self_stores(ci):
    names = families.class_attr_names(ci)
    for c in ci.mro():
        for defs in c.all_defs.values():
            for f in defs:
                p = f.params
                if not p:
                    continue
                for n in ast.walk(f.node):
                    if isinstance(n, ast.Attribute) and isinstance(n.ctx, ast.Store) and isinstance(n.value, ast.Name) and n.value.id == p[0]:
                        names.add(n.attr)
    return names


def check_addnew(rep, prog):
    sigmod = prog.module('pgpy.packet.subpackets.signature')
    uamod = prog.module('pgpy.packet.subpackets.userattribute')
    n = 0
    for fn in prog.all_functions():
        for node in ast.walk(fn.node):
            if not (isinstance(node, ast.Call) and isinstance(node.func, ast.Attribute) and node.func.attr == 'addnew'):
                continue
            if not node.args or not isinstance(node.args[0], ast.Constant) or not isinstance(node.args[0].value, str):
                raise AnalysisError('%s: addnew with a non-literal subpacket name' % fn.qualname)
            name = node.args[0].value
            ci = sigmod.classes.get(name) or uamod.classes.get(name)
            w = '%s:%d' % (fn.module.relpath, node.lineno)
            n += 1
            rep.analysed['call_sites'] += 1
            if ci is None:
                rep.violation('C02.3', fn.qualname, "addnew('%s')" % name, 'no subpacket class of that name', where=w)
                continue
            attrs = _all_self_stores(ci)
            # everything a signing API states about the signature goes into the HASHED area (only the issuer key id and the
            # embedded back-signature are advisory / self-authenticating and live in the unhashed area)
            if fn.module.name == 'pgpy.pgp' and name not in ('Issuer', 'EmbeddedSignature', 'Image'):
                hk = [k for k in node.keywords if k.arg == 'hashed']
                is_hashed = bool(hk) and isinstance(hk[0].value, ast.Constant) and hk[0].value.value is True
                rep.check(is_hashed, 'C02.3', fn.qualname, "addnew('%s') hashed" % name,
                          "subpacket %s is added outside the hashed area, so the signature does not cover it" % name, where=w,
                          expected="addnew('%s', hashed=True, ...)" % name, found=ast.unparse(node)[:120], scenario=name)
            for kw in node.keywords:
                if kw.arg in (None, 'hashed'):
                    continue
                rep.check(kw.arg in attrs, 'C02.3', fn.qualname, "addnew('%s', %s=...)" % (name, kw.arg),
                          "subpacket class %s has no attribute '%s': addnew silently ignores the option" % (name, kw.arg), where=w,
                          expected='one of %s' % sorted(a for a in attrs if not a.startswith('__'))[:12], found=kw.arg, scenario=name)
    # options popped from prefs must be used
    for meth in ('sign', 'certify', 'revoke', 'revoker', 'bind', '_sign'):
        f = prog.method('pgpy.pgp', 'PGPKey', meth)
        for node in ast.walk(f.node):
            if isinstance(node, ast.Assign) and len(node.targets) == 1 and isinstance(node.targets[0], ast.Name) and \
                    isinstance(node.value, ast.Call) and dotted(node.value.func) == 'prefs.pop':
                var = node.targets[0].id
                loads = [x for x in ast.walk(f.node) if isinstance(x, ast.Name) and x.id == var and isinstance(x.ctx, ast.Load)]
                rep.check(bool(loads), 'C02.3', 'PGPKey.%s' % meth, 'option %s popped into %s' % (ast.unparse(node.value.args[0]), var),
                          'a documented option is read from the caller and then never used', where='%s:%d' % (f.module.relpath, node.lineno))
    # addnew itself: sets every keyword the object has, recomputes the length, files under the hashed key iff hashed
    fa = prog.method('pgpy.packet.fields', 'SubPackets', 'addnew')
    for hashed in (True, False):
        sc = Scenario(args={'hashed': Const(hashed), 'spname': Sym('spname', types={'str'})}, inline=noinline)
        for s in Interp(prog, sc).run(fa):
            st = [p for p, v, l, _ in s.stores if '[' in p]
            want = "self[('h_' + spname)]" if hashed else 'self[spname]'
            rep.check(st == [want], 'C02.3', 'SubPackets.addnew', 'hashed=%s -> %s' % (hashed, st),
                      'a subpacket requested as hashed must be filed in the hashed area (and only then)', where=fa.where, expected=want, found=st)
            calls = [c[0] for c in s.calls]
            rep.check('setattr' in calls and any(c.endswith('.update_hlen') for c in calls), 'C02.3', 'SubPackets.addnew', 'setattr + update_hlen',
                      'addnew must set the options and recompute the subpacket length', where=fa.where)


# ------------------------------------------------------------------------------------------------ C02.4
def check_sig_codecs(rep, prog):
    ci = prog.cls('pgpy.packet.packets', 'SignatureV4')
    f = ci.methods.get('pubalg_int')
    tbl = tables.table(f.node)
    cs = prog.cls('pgpy.constants', 'PubKeyAlgorithm').methods.get('can_sign')
    signers = [m.split('.')[-1] for m in (tables.returned_set(cs) or [])]
    if not signers:
        raise AnalysisError('PubKeyAlgorithm.can_sign: cannot read the member set')
    fields = prog.module('pgpy.packet.fields')
    want = {'RSAEncryptOrSign': 'RSASignature', 'DSA': 'DSASignature', 'ECDSA': 'ECDSASignature', 'EdDSA': 'EdDSASignature'}
    for a in signers:
        got = tbl.get('PubKeyAlgorithm.%s' % a)
        rep.check(got == want.get(a), 'C02.4', 'SignatureV4.pubalg_int', '%s -> %s' % (a, got),
                  'every signing algorithm needs its own signature field class', where=f.where, expected=want.get(a), found=got, scenario=a)
        sc = fields.classes.get(got or '')
        if sc is not None:
            rep.check(sc.find_method('from_signer') is not None and sc.find_method('__sig__') is not None and sc.find_method('parse') is not None,
                      'C02.4', sc.name, 'from_signer/__sig__/parse', 'signature field class must convert both ways', where=sc.where)
    # private classes of signing algorithms define sign
    _, km = tables.keymaterial_table(prog)
    for a in signers:
        pc = fields.classes.get(km.get((False, a), ''))
        if pc is None:
            rep.violation('C02.4', 'PubKeyV4.pkalg_int', 'no private class for %s' % a, 'signing algorithm without private key material', where=f.where)
            continue
        sg = pc.find_method('sign')
        rep.check(sg is not None and sg.cls.name != 'PrivKey', 'C02.4', '%s.sign' % pc.name, 'sign resolves to %s' % (sg.qualname if sg else None),
                  'a signing algorithm\'s private material must implement sign', where=pc.where, scenario=a)
    # RSA: integer <-> MPI octets
    rsa = fields.classes['RSASignature']
    for s in Interp(prog, Scenario(inline=noinline)).run(rsa.methods['__sig__']):
        rep.check(render(s.ret) == 'SLICE(self.md_mod_n.to_mpibytes();2;)', 'C02.4', 'RSASignature.__sig__', render(s.ret),
                  'the RSA signature handed to the verifier is the MPI value octets', where=rsa.where)
    for s in Interp(prog, Scenario(inline=noinline)).run(rsa.methods['from_signer']):
        st = [v for p, v, l, _ in s.stores if p == 'self.md_mod_n']
        rep.check(st == ['MPI(self.bytes_to_int(sig))'], 'C02.4', 'RSASignature.from_signer', '%s' % st,
                  'the signer output is stored as one big-endian integer', where=rsa.where)
    # EdDSA: two halves of (key_size + 7) // 8 octets both ways
    ed = fields.classes['EdDSASignature']
    W = '((EllipticCurveOID.Ed25519.key_size + 7) // 8)'
    for s in Interp(prog, Scenario(inline=noinline)).run(ed.methods['__sig__']):
        r = render(s.ret)
        rep.check(r == 'INT(%s;self.r) INT(%s;self.s)' % (W, W), 'C02.4', 'EdDSASignature.__sig__', r,
                  'r and s must each be emitted at the full curve width (leading zero octets kept)', where=ed.where,
                  expected='INT(w;r) INT(w;s) with w = (key_size + 7) // 8', found=r)
    for s in Interp(prog, Scenario(inline=noinline, axioms={'((len(sig) % 2) != 0)': False})).run(ed.methods['from_signer']):
        if s.raised:
            continue
        r_ = [v for p, v, l, _ in s.stores if p == 'self.r']
        s_ = [v for p, v, l, _ in s.stores if p == 'self.s']
        rep.check(r_ == ['MPI(self.bytes_to_int(SLICE(sig;;(len(sig) // 2))))'] and s_ == ['MPI(self.bytes_to_int(SLICE(sig;(len(sig) // 2);)))'],
                  'C02.4', 'EdDSASignature.from_signer', 'r=%s s=%s' % (r_, s_), 'the signer output is split into two equal halves r || s',
                  where=ed.where)
    # DSA / ECDSA: DER SEQUENCE{r, s} both ways
    dsa = fields.classes['DSASignature']
    mp = dsa.attrs.get('__mpis__')
    rep.check(mp is not None and ast.literal_eval(mp) == ('r', 's'), 'C02.4', 'DSASignature.__mpis__', ast.unparse(mp) if mp else None,
              'DSA-family signatures are the MPIs r then s', where=dsa.where)
    src = ast.unparse(dsa.methods['__sig__'].node)
    rep.check('Sequence' in src and 'encoder.encode' in src and 'for n in self.__mpis__' in src, 'C02.4', 'DSASignature.__sig__', 'DER SEQUENCE of r, s',
              'the verifier input is the DER SEQUENCE {r, s}', where=dsa.where)
    ec = fields.classes['ECDSASignature']
    for s in Interp(prog, Scenario(inline=noinline)).run(ec.methods['from_signer']):
        r_ = [v for p, v, l, _ in s.stores if p == 'self.r']
        s_ = [v for p, v, l, _ in s.stores if p == 'self.s']
        rep.check(r_ == ['MPI(decoder.decode(sig)[0][0])'] and s_ == ['MPI(decoder.decode(sig)[0][1])'], 'C02.4', 'ECDSASignature.from_signer',
                  'r=%s s=%s' % (r_, s_), 'r and s are the first and second INTEGER of the DER signature', where=ec.where)
    # generic writer: MPIs in __mpis__ order
    sb = fields.classes['Signature'].methods['__bytearray__']
    for s in Interp(prog, Scenario(inline=noinline)).run(sb):
        rep.check(alpha(render(s.ret)) == 'EACH($1 in self;$1.to_mpibytes())', 'C02.4', 'fields.Signature.__bytearray__', render(s.ret),
                  'signature MPIs are written in field order', where=sb.where)


# ------------------------------------------------------------------------------------------------ C02.5
def check_sigv4_writer(rep, prog):
    ci = prog.cls('pgpy.packet.packets', 'SignatureV4')
    wb = ci.methods['__bytearray__']
    for s in Interp(prog, Scenario()).run(wb):
        r = render(s.ret)
        exp = ('self.header.__bytearray__() INT(1;self.sigtype) INT(1;self.pubalg) INT(1;self.halg) self.subpackets.__bytearray__() '
               'self.hash2 self.signature.__bytearray__()')
        rep.check(r == exp, 'C02.5', 'SignatureV4.__bytearray__', r,
                  'a V4 signature body is type, pk alg, hash alg, hashed+unhashed areas, left 16 bits, signature MPIs (RFC 4880 5.2.3)',
                  where=wb.where, expected=exp, found=r)
    cb = ci.methods['canonical_bytes']
    for s in Interp(prog, Scenario()).run(cb):
        r = render(s.ret)
        body = ('INT(1;self.header.version) INT(1;self.sigtype) INT(1;self.pubalg) INT(1;self.halg) self.subpackets.__hashbytearray__() '
                'INT(2;0) self.hash2 self.signature.__bytearray__()')
        exp = 'C(88) LEN(4;%s) %s' % (body, body)
        rep.check(r == exp, 'C02.5', 'SignatureV4.canonical_bytes', r[:100],
                  'a signature being signed/attested is 0x88, four-octet length, body with an empty unhashed area (RFC 4880 5.2.4)',
                  where=cb.where, expected=exp, found=r)
    sp = prog.cls('pgpy.packet.fields', 'SubPackets')
    for s in Interp(prog, Scenario(bind={'self._hashed_raw': Const(None)}, inline=noinline)).run(sp.methods['__hashbytearray__']):
        r = render(s.ret)
        exp = 'INT(2;sum(EACH($1 in self._hashed_sp.values();len($1)))) EACH($2 in self._hashed_sp.values();$2.__bytearray__())'
        rep.check(alpha(r) == exp, 'C02.5', 'SubPackets.__hashbytearray__', r, 'a freshly built hashed area is its two-octet length then its subpackets in order',
                  where=sp.where, expected=exp, found=r)
    for s in Interp(prog, Scenario(inline=noinline)).run(sp.methods['__unhashbytearray__']):
        r = render(s.ret)
        exp = 'INT(2;sum(EACH($1 in self._unhashed_sp.values();len($1)))) EACH($2 in self._unhashed_sp.values();$2.__bytearray__())'
        rep.check(alpha(r) == exp, 'C02.5', 'SubPackets.__unhashbytearray__', r, 'the unhashed area is its two-octet length then its subpackets in order',
                  where=sp.where, expected=exp, found=r)


# ------------------------------------------------------------------------------------------------ C02.6
def check_lengths(rep, prog):
    sigmod = prog.module('pgpy.packet.subpackets.signature')
    n = 0
    for ci in sigmod.classes.values():
        f = ci.methods.get('__bytearray__')
        if f is None:
            continue
        rep.saw(cls=ci)
        for s, items in codec.writer_items(prog, f, Scenario()):
            if items is None:
                continue
            for ok, lenitem, x, follow in codec.length_covers(items):
                n += 1
                rep.check(ok, 'C02.6', '%s.__bytearray__' % ci.name, '%s not followed by %s' % (lenitem, x),
                          'a length prefix counts something other than the octets that follow it (e.g. characters instead of encoded octets)',
                          where=f.where, expected='%s ... %s' % (lenitem, x), found='%s then %s' % (lenitem, follow), scenario=ci.name)
    return n
