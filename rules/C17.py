"""C17 - Verification verdicts are coherent: disqualifying conditions always disqualify.

  C17.1 the verdict predicate is monotone in the issue bit-set; its mask holds the disqualifying members and no advisory one
  C17.2 good/bad/bool partition the records (truth tables over the atoms {issues truthy, fail(issues)})
  C17.3 every path through the verification loop records exactly once (or raises)
  C17.4 the disqualified arm records the computed issue set; the crypto arm records WrongSig/OK (with C01.2)
  C17.5 issue aggregation only ever adds bits (| of its sources); an expired key contributes Expired
"""
import ast
import re

from sa import verdict
from sa.interp import Interp, Scenario, Sym, Const, render
from sa.loader import AnalysisError


def run(rep, prog, tier):
    rep.rule('C17.1', 'causes_signature_verify_to_fail is a monotone bit-mask test over the disqualifying members only', floor=8)
    rep.rule('C17.2', 'good_signatures / bad_signatures / __bool__ partition the records; __and__ concatenates', floor=8)
    rep.rule('C17.3', 'each path through the loop of PGPKey.verify records exactly one verdict', floor=2)
    rep.rule('C17.4', 'the disqualified arm records the computed issues, never OK; default record fails closed', floor=3)
    rep.rule('C17.5', 'issues are aggregated with | only; Expired is added exactly when the key is expired', floor=4)
    rep.assume('SecurityIssues(0) is the OK singleton (enum value lookup), so `issues is SecurityIssues.OK` == not issues')

    mask = verdict.check_monotone(rep, prog, 'C17.1')
    verdict.check_mask_contains(rep, prog, 'C17.1', verdict.DISQUALIFYING, verdict.ADVISORY)
    verdict.check_partition(rep, prog, 'C17.2')
    verdict.check_one_record(rep, prog, 'C17.3')
    verdict.check_fail_closed(rep, prog, 'C17.4')
    verdict.check_crypto_arm_verdict(rep, prog, 'C17.4')
    check_disqualified_arm(rep, prog)
    check_aggregation(rep, prog)


def check_disqualified_arm(rep, prog):
    fi = prog.method('pgpy.pgp', 'PGPKey', 'verify')
    rep.saw(fn=fi)

    def oracle(t):
        if 'causes_signature_verify_to_fail' in t:
            return True
        if 'check_soundness' in t or 'check_primitives' in t:
            return True    # the issue set is non-empty
        return None
    sc = Scenario(args={'subject': Sym('subject', types={'PGPUID'}, nonnull=True), 'signature': Const(None)},
                  oracle=oracle, inline=lambda f: False, axioms={'(len(sspairs) == 0)': False, 'sspairs': True})
    outs = Interp(prog, sc).run(fi)
    rep.analysed['paths'] += len(outs)
    recs = []
    crypto = []
    for s in outs:
        for c in s.calls:
            if c[0].endswith('.add_sigsubj') and c not in recs:
                recs.append(c)
            if c[0] == 'self._key.verify' and c not in crypto:
                crypto.append(c)
    if not recs:
        rep.violation('C17.4', 'PGPKey.verify', 'no record on the disqualified arm',
                      'a disqualified key produces no verdict record at all', where=fi.where)
        return
    for ft, args, kw, line, node in recs:
        w = '%s:%d' % (fi.module.relpath, line)
        issues = args[3] if len(args) > 3 else kw.get('issues')
        ops = verdict.or_operands(issues or '')
        has_sources = any('check_soundness' in o for o in ops) and any('check_primitives' in o for o in ops)
        rep.check(issues is not None and has_sources and re.match(r'^\$\d+_0$', args[0]) and args[2] == args[0][:-1] + '1', 'C17.4', 'PGPKey.verify',
                  'disqualified arm records %s' % (args,),
                  'when the key is disqualified the record must carry the computed issue set of (sig, subj)', where=w,
                  expected='add_sigsubj(sig, self, subj, <check_primitives | check_soundness>)', found=args)
    rep.check(not crypto, 'C17.4', 'PGPKey.verify', 'crypto check on disqualified arm',
              'a disqualified key must not fall through to the cryptographic check and be recorded OK', where=fi.where,
              found=[c[1] for c in crypto])
    # the branch condition itself: issues and issues.<predicate>
    conds = [n for n in ast.walk(fi.node) if isinstance(n, ast.If) and 'causes_signature_verify_to_fail' in ast.unparse(n.test)]
    if len(conds) != 1:
        raise AnalysisError('PGPKey.verify: expected one branch on causes_signature_verify_to_fail, found %d' % len(conds))
    t = conds[0].test
    # polarity: predicate true -> record issues arm (the arm that does NOT call self._key.verify)
    body_src = ' '.join(ast.unparse(x) for x in conds[0].body)
    else_src = ' '.join(ast.unparse(x) for x in conds[0].orelse)
    neg = False
    core = t
    if isinstance(core, ast.UnaryOp) and isinstance(core.op, ast.Not):
        neg = True
    fail_arm = else_src if neg else body_src
    pass_arm = body_src if neg else else_src
    rep.check('_key.verify(' not in fail_arm and '_key.verify(' in pass_arm, 'C17.4', 'PGPKey.verify',
              'branch polarity on %s' % ast.unparse(t),
              'the failing arm must not run the crypto check; the other arm must', where='%s:%d' % (fi.module.relpath, conds[0].lineno))


def check_aggregation(rep, prog):
    fi = prog.method('pgpy.pgp', 'PGPKey', 'verify')
    # issues = signature_issues | subkey_issues
    found = False
    for n in ast.walk(fi.node):
        if isinstance(n, ast.Assign) and len(n.targets) == 1 and isinstance(n.targets[0], ast.Name) and n.targets[0].id == 'issues':
            found = True
            v = n.value
            ok = isinstance(v, ast.BinOp) and isinstance(v.op, ast.BitOr)
            names = sorted(x.id for x in ast.walk(v) if isinstance(x, ast.Name))
            rep.check(ok and len(names) == 2, 'C17.5', 'PGPKey.verify', ast.unparse(n),
                      'key issues and signature issues must be united with |', where='%s:%d' % (fi.module.relpath, n.lineno),
                      expected='issues = <a> | <b>', found=ast.unparse(n))
    if not found:
        raise AnalysisError('PGPKey.verify no longer assigns `issues`')
    # sources of the two operands
    src = {}
    for n in ast.walk(fi.node):
        if isinstance(n, ast.Assign) and len(n.targets) == 1 and isinstance(n.targets[0], ast.Name):
            src.setdefault(n.targets[0].id, []).append(ast.unparse(n.value))
    rep.check(any('check_soundness' in s for s in src.get('subkey_issues', [])), 'C17.5', 'PGPKey.verify',
              'subkey_issues = %s' % src.get('subkey_issues'), 'the key conditions must come from check_soundness', where=fi.where)
    # the only bit ever removed is the collision-resistance advisory bit, and only when self-verifying
    for n in ast.walk(fi.node):
        if isinstance(n, ast.AugAssign) and isinstance(n.op, ast.BitAnd) and isinstance(n.target, ast.Name) and 'issues' in n.target.id:
            t = ast.unparse(n.value).replace(' ', '')
            rep.check(t == '~SecurityIssues.HashFunctionNotCollisionResistant', 'C17.5', 'PGPKey.verify', ast.unparse(n),
                      'only the advisory collision-resistance bit may be masked out', where='%s:%d' % (fi.module.relpath, n.lineno),
                      found=ast.unparse(n))
    # check_management: Expired iff is_expired; check_soundness unites management and primitives
    cm = prog.method('pgpy.pgp', 'PGPKey', 'check_management')
    for expired in (True, False):
        sc = Scenario(bind={'self.is_expired': Const(expired)}, inline=lambda f: False)
        outs = Interp(prog, sc).run(cm)
        for s in outs:
            ops = verdict.or_operands(render(s.ret)) if s.ret is not None else []
            has = 'SecurityIssues.Expired' in ops
            rep.check(has == expired, 'C17.5', 'PGPKey.check_management', 'is_expired=%s -> %s' % (expired, render(s.ret)),
                      'an expired key must contribute Expired (and only an expired key)', where=cm.where,
                      expected='Expired present' if expired else 'Expired absent', found=render(s.ret),
                      scenario='is_expired=%s' % expired)
            if expired:
                rep.check('self.self_verified' in ops, 'C17.5', 'PGPKey.check_management', 'result keeps self_verified: %s' % ops,
                          'the self-verification result must stay in the issue set', where=cm.where, found=render(s.ret))
    cs = prog.method('pgpy.pgp', 'PGPKey', 'check_soundness')
    outs = Interp(prog, Scenario(inline=lambda f: False)).run(cs)
    for s in outs:
        ops = verdict.or_operands(render(s.ret))
        rep.check(any('check_management' in o for o in ops) and any('check_primitives' in o for o in ops) and len(ops) == 2,
                  'C17.5', 'PGPKey.check_soundness', 'return %s' % render(s.ret),
                  'soundness must be the union of the management and primitive issues', where=cs.where, found=render(s.ret))
    # is_expired compares expires_at with now using <= / <
    ie = prog.method('pgpy.pgp', 'PGPKey', 'is_expired')
    cmp_ok = False
    for n in ast.walk(ie.node):
        if isinstance(n, ast.Compare) and len(n.ops) == 1 and isinstance(n.ops[0], (ast.LtE, ast.Lt)) and \
                'now' in ast.unparse(n.comparators[0]):
            cmp_ok = True
        if isinstance(n, ast.Compare) and len(n.ops) == 1 and isinstance(n.ops[0], (ast.GtE, ast.Gt)) and \
                'now' in ast.unparse(n.left):
            cmp_ok = True
    rep.check(cmp_ok, 'C17.5', 'PGPKey.is_expired', 'comparison of expiry with now',
              'a key is expired when its expiry time is not after now', where=ie.where)
