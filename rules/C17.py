"""C17 - Verification verdicts are coherent: disqualifying conditions always disqualify.

  C17.1 the verdict predicate is monotone in the issue bit-set; its mask holds the disqualifying members and no advisory one
  C17.2 good/bad/bool partition the records (truth tables over the atoms {issues truthy, fail(issues)})
  C17.3 every path through the verification loop records exactly once (or raises)
  C17.4 the disqualified arm records the computed issue set; the crypto arm records WrongSig/OK (with C01.2)
  C17.5 issue aggregation only ever adds bits (| of its sources); an expired key contributes Expired
"""
import ast
import re

from sa import verdict
from sa.interp import Interp, Scenario, Sym, Const, render
from sa.loader import AnalysisError


def run(rep, prog, tier):
    rep.rule('C17.1', 'causes_signature_verify_to_fail is a monotone bit-mask test over the disqualifying members only', floor=8)
    rep.rule('C17.2', 'good_signatures / bad_signatures / __bool__ partition the records; __and__ concatenates', floor=8)
    rep.rule('C17.3', 'each path through the loop of PGPKey.verify records exactly one verdict', floor=2)
    rep.rule('C17.4', 'the disqualified arm records the computed issues, never OK; default record fails closed', floor=3)
    rep.rule('C17.5', 'issues are aggregated with | only; Expired is added exactly when the key is expired', floor=4)
    rep.assume('SecurityIssues(0) is the OK singleton (enum value lookup), so `issues is SecurityIssues.OK` == not issues')

    mask = verdict.check_monotone(rep, prog, 'C17.1')
    verdict.check_mask_contains(rep, prog, 'C17.1', verdict.DISQUALIFYING, verdict.ADVISORY)
    verdict.check_partition(rep, prog, 'C17.2')
    verdict.check_one_record(rep, prog, 'C17.3')
    verdict.check_sources_partition(rep, prog, 'C17.3')
    verdict.check_fail_closed(rep, prog, 'C17.4')
    verdict.check_crypto_arm_verdict(rep, prog, 'C17.4')
    check_disqualified_arm(rep, prog)
    # the value recorded as the verdict of the key material is compared with NotImplemented before use (the C01.2 analysis)
    from rules.C01 import check_not_implemented
    from rules.C08 import _Proxy
    check_not_implemented(_Proxy(rep, 'C17.4'), prog)
    check_aggregation(rep, prog)


def check_disqualified_arm(rep, prog):
    """PGPKey.verify under each row of the truth table over the atoms {issue set truthy, predicate(issue set)}: the
    disqualified row records the computed issue set of the pair and never reaches the key material; the other rows do."""
    P = verdict.predicate(prog)
    rows = [('no issues', False, False), ('advisory issues only', True, False), ('disqualifying issues', True, True)]
    asked_all, truth_all = [], []
    for name, I, F in rows:
        fi, outs, asked = verdict.run_verify(prog, I=I, F=F, V=None)
        rep.saw(fn=fi)
        rep.analysed['paths'] += len(outs)
        crypto, recs, _ = verdict.collect(outs)
        for a in asked:
            if a not in asked_all:
                asked_all.append(a)
        for a in asked.truth:
            if a not in truth_all:
                truth_all.append(a)
        if not F:
            rep.check(bool(crypto), 'C17.4', 'PGPKey.verify', 'row %s: key material not asked' % name,
                      'the failing arm must not run the crypto check; the other arm must', where=fi.where, scenario=name)
            continue
        if not recs:
            rep.violation('C17.4', 'PGPKey.verify', 'no record on the disqualified arm',
                          'a disqualified key produces no verdict record at all', where=fi.where)
            continue
        for call, s in recs:
            a = verdict.record_args(prog, call)
            w = '%s:%d' % (fi.module.relpath, call[3])
            issues = a[3]
            is_set = issues is not None and verdict.is_issue_set(issues)
            rep.check(is_set and (a[0], a[2]) == verdict.loop_pair(fi, s) and issues in asked, 'C17.4', 'PGPKey.verify',
                      'disqualified arm records %s' % (a,),
                      'when the key is disqualified the record must carry the computed issue set of (sig, subj)', where=w,
                      expected='add_sigsubj(sig, self, subj, <the issue set the predicate was asked of>)', found=a)
            if is_set:
                check_issue_set(rep, P, fi, issues, w, 'recorded on the disqualified arm')
        rep.check(not crypto, 'C17.4', 'PGPKey.verify', 'crypto check on disqualified arm',
                  'a disqualified key must not fall through to the cryptographic check and be recorded OK', where=fi.where,
                  found=[c[1] for c, _ in crypto])
    # the set the predicate decides on is the aggregated one
    if not asked_all:
        raise AnalysisError('PGPKey.verify never asks %s of an issue set' % verdict.PREDICATE)
    for a in asked_all:
        check_issue_set(rep, P, prog.method('pgpy.pgp', 'PGPKey', 'verify'), a, None, 'the verdict predicate is asked of')
    for a in truth_all:
        if a not in asked_all:
            check_issue_set(rep, P, prog.method('pgpy.pgp', 'PGPKey', 'verify'), a, None, 'tested for being empty')


def check_issue_set(rep, P, fi, text, where, what):
    """C17.5: the issue set is the union of the key conditions (check_soundness) and the primitive conditions
    (check_primitives); the only bit ever taken out is the advisory collision-resistance bit."""
    src, const, problems, allbits = verdict.contributions(P, text)
    w = where or fi.where
    hf = P.mem.get('HashFunctionNotCollisionResistant', 0)
    rep.check(not problems, 'C17.5', 'PGPKey.verify', 'issue set %s: %s' % (what, text),
              'key issues and signature issues must be united with |' + ('' if not problems else ': ' + '; '.join(problems)), where=w,
              expected='<check_primitives()> | <check_soundness()>', found=text)
    for k, label in (('soundness', 'check_soundness'), ('primitives', 'check_primitives')):
        rep.check(k in src, 'C17.5', 'PGPKey.verify', 'issue set %s lacks %s: %s' % (what, label, text),
                  'the key conditions must come from check_soundness and check_primitives', where=w, found=text)
        if k in src:
            lost = allbits & ~src[k]
            rep.check(not (lost & ~hf), 'C17.5', 'PGPKey.verify', 'issue set %s drops %s of %s' % (what, P.name(lost), label),
                      'only the advisory collision-resistance bit may be masked out', where=w, found=text)


def check_aggregation(rep, prog):
    # check_management: Expired iff is_expired; check_soundness unites management and primitives
    cm = prog.method('pgpy.pgp', 'PGPKey', 'check_management')
    for expired in (True, False):
        sc = Scenario(bind={'self.is_expired': Const(expired)}, inline=lambda f: False)
        outs = Interp(prog, sc).run(cm)
        for s in outs:
            ops = verdict.or_operands(render(s.ret)) if s.ret is not None else []
            has = 'SecurityIssues.Expired' in ops
            rep.check(has == expired, 'C17.5', 'PGPKey.check_management', 'is_expired=%s -> %s' % (expired, render(s.ret)),
                      'an expired key must contribute Expired (and only an expired key)', where=cm.where,
                      expected='Expired present' if expired else 'Expired absent', found=render(s.ret),
                      scenario='is_expired=%s' % expired)
            if expired:
                rep.check('self.self_verified' in ops, 'C17.5', 'PGPKey.check_management', 'result keeps self_verified: %s' % ops,
                          'the self-verification result must stay in the issue set', where=cm.where, found=render(s.ret))
    cs = prog.method('pgpy.pgp', 'PGPKey', 'check_soundness')
    outs = Interp(prog, Scenario(inline=lambda f: False)).run(cs)
    for s in outs:
        ops = verdict.or_operands(render(s.ret))
        rep.check(any('check_management' in o for o in ops) and any('check_primitives' in o for o in ops) and len(ops) == 2,
                  'C17.5', 'PGPKey.check_soundness', 'return %s' % render(s.ret),
                  'soundness must be the union of the management and primitive issues', where=cs.where, found=render(s.ret))
    # is_expired: no expiry time -> never expired; otherwise "expiry time is not after now" (decided on the returned values)
    ie = prog.method('pgpy.pgp', 'PGPKey', 'is_expired')
    NOW = r'[\w.]*\b(?:now|utcnow)\((?:[\w.]*)\)'
    forms = [re.compile(r'^\(<expires> (<=|<) %s\)$' % NOW), re.compile(r'^\(%s (>=|>) <expires>\)$' % NOW),
             re.compile(r'^not \(<expires> (>=|>) %s\)$' % NOW), re.compile(r'^not \(%s (<=|<) <expires>\)$' % NOW)]
    for has_expiry in (False, True):
        sc = Scenario(bind={'self.expires_at': Sym('<expires>', nonnull=True) if has_expiry else Const(None)}, inline=lambda f: False)
        outs = [s for s in Interp(prog, sc).run(ie) if s.raised is None]
        if not outs:
            raise AnalysisError('PGPKey.is_expired has no returning path')
        for s in outs:
            rt = render(s.ret) if s.ret is not None else 'None'
            if not has_expiry:
                ok = isinstance(s.ret, Const) and s.ret.value is False
                rep.check(ok, 'C17.5', 'PGPKey.is_expired', 'no expiry time -> %s' % rt,
                          'a key without an expiry time is not expired', where=ie.where, expected='False', found=rt, scenario='expires_at is None')
            else:
                rep.check(any(rx.match(rt) for rx in forms), 'C17.5', 'PGPKey.is_expired', 'comparison of expiry with now: %s' % rt,
                          'a key is expired when its expiry time is not after now', where=ie.where,
                          expected='expires_at <= now', found=rt, scenario='expires_at set')
