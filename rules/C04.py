"""C04 - Ciphertext integrity: tampered or mis-keyed encrypted messages never decrypt.

Each integrity check must exist, compare the right terms, have the right polarity, react by raising and dominate the
return of the protected value.  Everything is decided on interpreter paths (values, recorded decisions, ordered events);
no rule looks at statement shapes, local names or source text.
  C04.1 MDC compare in IntegrityProtectedSKEDataV1.decrypt          C04.2 prefix repetition check (SEIPD and the legacy SKEData)
  C04.3 PKESK checksum in PKESessionKeyV3.decrypt_sk                C04.4 secret-key SHA-1 (254) / checksum (255) guards
  C04.5 PGPMessage.decrypt: a path returns only the object that parsed container.decrypt(key, alg) with the (alg, key) a
        passphrase session-key packet of this message gave for the caller's passphrase; every other path raises
  C04.6 PGPKey.decrypt: truth table over (my key id among the recipients, a subkey id among the recipients): own packet /
        delegation to that subkey / raise; the own packet is selected by type, algorithm and key id
  C04.7 ECDH: the unwrapped value is returned only through PKCS#5 unpadding (update + finalize of one unpadder)
  C04.9 wrong passphrase never decrypts: the passphrase reaches String2Key.derive_key unchanged through every layer and is turned
        into hash input injectively (the shared derive_key shape rule of C12; no lossy encoding, no normalisation)
  C04.8 PGPMessage.__or__: the data slot is filled at most once - a second data packet (literal / encrypted data / text) raises,
        so a packet spliced in front of (or behind) the encrypted data can never become, or silently replace, the plaintext
"""
import ast
import itertools
import re

from sa.interp import sl, Interp, Scenario, Const, Obj, Sym, render, Enum
from sa.loader import AnalysisError
from sa import guards
from sa.vocab import FUNCTIONS as VOCAB_FUNCS
from sa.paths import (BV, PathFrame, implied, consistent, eq_atom, isinstance_atom, truth_atom, positional, call_text, canon_text,
                      skel_from_text)

noinline = lambda f: f.name not in VOCAB_FUNCS  # noqa: E731   (only helpers an edit introduced are looked into)


def run(rep, prog, tier):
    rep.rule('C04.1', 'MDC: trailing 22 octets compared with d3 14 || SHA-1(everything before the digest); mismatch raises; dominates return', floor=1)
    rep.rule('C04.2', 'prefix quick check: last two octets of the random block compared with the two that follow; mismatch raises', floor=2)
    rep.rule('C04.3', 'PKESK: sum(session key) mod 65536 compared with the two-octet checksum; mismatch raises', floor=2)
    rep.rule('C04.4', 'secret key: SHA-1 (usage 254) and 16-bit sum (usage 255) of the decrypted material checked; mismatch raises', floor=2)
    rep.rule('C04.5', 'PGPMessage.decrypt returns only the object that parsed the container decrypted with the (key, cipher) a passphrase '
             'session-key packet of this message gave for the caller\'s passphrase; every other path raises', floor=4)
    rep.rule('C04.6', 'PGPKey.decrypt raises unless the message is addressed to it or a subkey; delegates to that subkey; selects its own PKESK', floor=4)
    rep.rule('C04.7', 'ECDH decrypt returns the unwrapped value only through PKCS#5 unpadding (update + finalize)', floor=2)
    rep.rule('C04.8', 'PGPMessage.__or__ fills the data slot only when it is empty; a further data packet of any kind raises', floor=6)
    rep.rule('C04.9', 'the passphrase is handed down unchanged to String2Key.derive_key and enters the hash as itself / its strict UTF-8 '
             'encoding (injective: distinct passphrases give distinct hash inputs)', floor=8)
    rep.assume('SHA-1/MDC detects modification; AES key unwrap raises on a corrupted wrap (cryptographic arguments, trusted)')

    seipd(rep, prog)
    sed(rep, prog)
    pkesk(rep, prog)
    keyblob(rep, prog)
    message_decrypt(rep, prog)
    key_decrypt(rep, prog)
    ecdh(rep, prog)
    message_compose(rep, prog)
    passphrase_path(rep, prog)


# ------------------------------------------------------------------------------------------------ shared helpers
def _calls(outs, pred):
    """Distinct recorded calls (by function text and arguments) over all paths."""
    seen, out = set(), []
    for s in outs:
        for c in s.calls:
            if pred(c):
                k = (c[0], tuple(c[1]), tuple(sorted(c[2].items())))
                if k not in seen:
                    seen.add(k)
                    out.append(c)
    return out


def _symdecrypt(prog, outs, what):
    """The one call of the symmetric primitive `_decrypt` in a function: (text of its value, positional argument texts)."""
    names = prog.function('pgpy.symenc', '_decrypt').params
    cs = _calls(outs, lambda c: c[0] == '_decrypt')
    if not cs:
        raise AnalysisError('%s no longer calls _decrypt' % what)
    if len(cs) != 1:
        raise AnalysisError('%s: %d different _decrypt calls (one expected)' % (what, len(cs)))
    return call_text(cs[0]), positional(cs[0], names)


def _has_guard_atom(outs, side_pred):
    for s in outs:
        for f in s.facts:
            for a in guards.atoms(f[2]):
                eq = guards.equality_of(a)
                if eq is not None and (side_pred(eq[0], eq[1]) or side_pred(eq[1], eq[0])):
                    return True
    return False


def _no_unchecked_store(rep, rid, construct, outs, pt, what, where, scenario=None):
    """A check that comes after the protected value was stored on the object protects nothing: on a path that ends in the
    raise, no attribute store may carry the (not yet accepted) decrypted value."""
    bad = []
    for s in outs:
        if s.raised is None:
            continue
        for st in s.stores:
            if pt in st[1] and st[0] not in bad:
                bad.append(st[0])
    rep.check(not bad, rid, construct, 'decrypted value stored before %s' % what,
              'the decrypted value is kept on the object (%s) on a path where %s fails: the check must come before the value is stored'
              % (', '.join(bad), what), where=where, expected='no store of the unchecked value', found=bad or None, scenario=scenario)


_SUM16 = (re.compile(r'^\(sum\((.*)\) % 65536\)$'), re.compile(r'^\(sum\((.*)\) & 65535\)$'))
_BE16 = (re.compile(r'^self\.bytes_to_int\((.*)\)$'), re.compile(r"^int\.from_bytes\((.*), (?:byteorder=)?'big'\)$"),
         re.compile(r"^struct\.unpack\('[>!]H', (.*)\)\[0\]$"))


def _inner(pats, text):
    for p in pats:
        m = p.match(text)
        if m:
            return m.group(1)
    return None


# ------------------------------------------------------------------------------------------------ C04.1 / C04.2
def seipd(rep, prog):
    fi = prog.method('pgpy.packet.packets', 'IntegrityProtectedSKEDataV1', 'decrypt')
    rep.saw(fn=fi)
    key, alg = fi.params[1], fi.params[2]
    outs = Interp(prog, Scenario(inline=noinline)).run(fi)
    rep.analysed['paths'] += len(outs)
    PT, args = _symdecrypt(prog, outs, 'IntegrityProtectedSKEDataV1.decrypt')
    ok = args is not None and args[:3] == ['self.ct', key, alg] and args[3:] in ([], ['None'])
    rep.check(ok, 'C04.1', 'IntegrityProtectedSKEDataV1.decrypt', 'plaintext = %s' % PT,
              'the whole ciphertext must be decrypted with the session key and cipher (zero IV)', where=fi.where,
              expected='_decrypt(self.ct, %s, %s)' % (key, alg), found=PT)

    def P(t):
        return t.replace(PT, 'PT')

    def mdc_sides(a, b):
        # the digest may be taken over PT[:-20], or over PT[:-22] || d3 14: the same thing once the first two of the 22
        # compared octets are d3 14, which this very comparison establishes
        return P(a) == 'SLICE(PT;-22;)' and P(b) in ('C(d314) HASH(sha1;SLICE(PT;;-20))', 'C(d314) HASH(sha1;SLICE(PT;;-22) C(d314))')

    def mdc_digest(a, b):
        return P(a) == 'SLICE(PT;-20;)' and P(b) == 'HASH(sha1;SLICE(PT;;-20))'

    def mdc_header(a, b):
        return P(a) == 'SLICE(PT;-22;-20)' and P(b) == 'C(d314)'
    if not _has_guard_atom(outs, mdc_sides) and _has_guard_atom(outs, mdc_digest):
        # the same check written as two comparisons: the 20 digest octets and the two header octets d3 14
        guards.check_guard(rep, 'C04.1', 'IntegrityProtectedSKEDataV1.decrypt', outs, mdc_digest,
                           'the MDC digest comparison (last 20 octets == SHA-1(plaintext[:-20]))', fi.where)
        guards.check_guard(rep, 'C04.1', 'IntegrityProtectedSKEDataV1.decrypt', outs, mdc_header,
                           'the MDC header comparison (octets -22..-20 == d3 14)', fi.where)
    else:
        guards.check_guard(rep, 'C04.1', 'IntegrityProtectedSKEDataV1.decrypt', outs, mdc_sides,
                           'the MDC comparison (last 22 octets == d3 14 || SHA-1(plaintext[:-20]))', fi.where)
    BS = '(%s.block_size // 8)' % alg

    def iv_sides(a, b):
        return P(a) == sl('PT', ('', BS), (-2, '')) and P(b) == sl('PT', (BS, ''), ('', 2))
    guards.check_guard(rep, 'C04.2', 'IntegrityProtectedSKEDataV1.decrypt', outs, iv_sides,
                       'the prefix repetition check (octets bs-2..bs == octets bs..bs+2)', fi.where)
    _no_unchecked_store(rep, 'C04.1', 'IntegrityProtectedSKEDataV1.decrypt', outs, PT, 'the MDC / prefix check', fi.where)
    # the value returned is the checked plaintext
    for s in outs:
        if s.raised is None:
            r = P(render(s.ret))
            rep.check(r == sl('PT', (BS, ''), (2, '')), 'C04.1', 'IntegrityProtectedSKEDataV1.decrypt', 'return %s' % r,
                      'the value returned must be the plaintext that was checked, minus the %s+2 prefix octets' % BS, where=fi.where,
                      expected='PT[bs+2:]', found=r)


def sed(rep, prog):
    """The legacy Symmetrically Encrypted Data packet (tag 9, RFC 4880 5.7 / 13.9): no MDC, so the prefix repetition check is the only
    thing between a wrong key (or an integrity-protected packet re-tagged as legacy) and a returned plaintext."""
    fi = prog.method('pgpy.packet.packets', 'SKEData', 'decrypt')
    rep.saw(fn=fi)
    W = 'SKEData.decrypt'
    key, alg = fi.params[1], fi.params[2]
    outs = Interp(prog, Scenario(inline=noinline)).run(fi)
    rep.analysed['paths'] += len(outs)
    names = prog.function('pgpy.symenc', '_decrypt').params
    BS = '(%s.block_size // 8)' % alg
    BS2 = '(%s + 2)' % BS
    cs = [(c, positional(c, names)) for c in _calls(outs, lambda c: c[0] == '_decrypt')]
    pre = [c for c, a in cs if a is not None and a[:3] == [sl('self.ct', ('', BS2)), key, alg] and a[3:] in ([], ['None'])]
    body = [c for c, a in cs if a is not None and a == [sl('self.ct', (BS2, '')), key, alg, sl('self.ct', (2, BS2))]]
    ok = len(cs) == 2 and len(pre) == 1 and len(body) == 1
    rep.check(ok, 'C04.2', W, 'decrypt calls %s' % [call_text(c)[:90] for c, a in cs],
              'RFC 4880 5.7: the first block+2 octets are decrypted with a zero IV, the rest with the key and ciphertext octets 2..bs+2 '
              'as IV (resynchronisation)', where=fi.where, expected='_decrypt(ct[:bs+2], key, alg) and _decrypt(ct[bs+2:], key, alg, ct[2:bs+2])',
              found=[call_text(c) for c, a in cs])
    if not ok:
        return
    PP, BODY = call_text(pre[0]), call_text(body[0])

    def iv_sides(a, b):
        a2, b2 = a.replace(PP, 'PP'), b.replace(PP, 'PP')
        return a2 == sl('PP', ('', BS), (-2, '')) and b2 == sl('PP', (BS, ''), ('', 2))
    guards.check_guard(rep, 'C04.2', W, outs, iv_sides, 'the prefix repetition check (octets bs-2..bs == octets bs..bs+2 of the decrypted prefix)',
                       fi.where)
    _no_unchecked_store(rep, 'C04.2', W, outs, BODY, 'the prefix check', fi.where)
    for s in outs:
        if s.raised is None:
            r = render(s.ret)
            rep.check(r == BODY, 'C04.2', W, 'return %s' % r[:120], 'the value returned must be the resynchronised decryption of the data after '
                      'the prefix', where=fi.where, expected=BODY, found=r)


# ------------------------------------------------------------------------------------------------ C04.3
def pkesk(rep, prog):
    fi = prog.method('pgpy.packet.packets', 'PKESessionKeyV3', 'decrypt_sk')
    rep.saw(fn=fi)
    pk = prog.cls('pgpy.constants', 'PubKeyAlgorithm').enum_members()
    for alg in ('RSAEncryptOrSign', 'ECDH'):
        sc = Scenario(bind={'self.pkalg': Const(Enum('PubKeyAlgorithm', alg, pk[alg]))}, inline=noinline)
        outs = Interp(prog, sc).run(fi)
        rep.analysed['paths'] += len(outs)
        cs = _calls(outs, lambda c: c[0] == 'self.ct.decrypt')
        if not cs:
            raise AnalysisError('PKESessionKeyV3.decrypt_sk no longer calls self.ct.decrypt')
        if len(cs) != 1:
            raise AnalysisError('PKESessionKeyV3.decrypt_sk: %d different self.ct.decrypt calls in scenario %s' % (len(cs), alg))
        M = call_text(cs[0])
        KS = '(SymmetricKeyAlgorithm(M[0]).key_size // 8)'
        KEY = sl('M', (1, ''), ('', KS))
        CHK = sl('M', (1, ''), (KS, ''), ('', 2))

        def sides(a, b, _M=M):
            a2, b2 = a.replace(_M, 'M'), b.replace(_M, 'M')
            return _inner(_SUM16, a2) == KEY and _inner(_BE16, b2) == CHK
        guards.check_guard(rep, 'C04.3', 'PKESessionKeyV3.decrypt_sk', outs, sides,
                           'the session-key checksum (sum of key octets mod 65536 == the two octets after the key)', fi.where,
                           scenario=alg)
        _no_unchecked_store(rep, 'C04.3', 'PKESessionKeyV3.decrypt_sk', outs, M, 'the session-key checksum', fi.where, scenario=alg)
        for s in outs:
            if s.raised is None:
                r = render(s.ret).replace(M, 'M')
                rep.check(r == '(SymmetricKeyAlgorithm(M[0]), %s)' % KEY, 'C04.3', 'PKESessionKeyV3.decrypt_sk', 'return %s' % r,
                          'the (cipher, key) returned must be the checked ones: octet 0 and the key_size // 8 octets after it',
                          where=fi.where, expected='(SymmetricKeyAlgorithm(M[0]), M[1:1+ks])', found=r, scenario=alg)


# ------------------------------------------------------------------------------------------------ C04.4
def keyblob(rep, prog):
    fi = prog.method('pgpy.packet.fields', 'PrivKey', 'decrypt_keyblob')
    rep.saw(fn=fi)
    pw = fi.params[1]
    for usage, what in ((254, 'SHA-1'), (255, 'checksum')):
        sc = Scenario(bind={'self.s2k.usage': Const(usage)}, axioms={'not self.s2k': False, 'self.s2k': True}, inline=noinline)
        outs = Interp(prog, sc).run(fi)
        rep.analysed['paths'] += len(outs)
        PT, args = _symdecrypt(prog, outs, 'PrivKey.decrypt_keyblob')
        dk = [c for s in outs for c in s.calls if c[0] == 'self.s2k.derive_key' and list(c[1]) + list(c[2].values()) == [pw]]
        rep.check(args is not None and len(args) == 4 and [args[0]] + args[2:] == ['self.encbytes', 'self.s2k.encalg', 'self.s2k.iv'] and
                  any(call_text(c) == args[1] for c in dk), 'C04.4',
                  'PrivKey.decrypt_keyblob', 'plaintext = %s' % PT,
                  'the stored ciphertext must be decrypted with the key derived from the passphrase, the stored cipher and IV',
                  where=fi.where, found=PT, scenario='usage %d' % usage)
        if usage == 254:
            def sides(a, b, _PT=PT):
                a2, b2 = a.replace(_PT, 'PT'), b.replace(_PT, 'PT')
                return a2 == 'SLICE(PT;-20;)' and b2 == 'HASH(sha1;SLICE(PT;;-20))'
            desc = 'the SHA-1 check of the decrypted secret material (last 20 octets == SHA-1 of the rest)'
        else:
            def sides(a, b, _PT=PT):
                a2, b2 = a.replace(_PT, 'PT'), b.replace(_PT, 'PT')
                return _inner(_BE16, a2) == 'SLICE(PT;-2;)' and _inner(_SUM16, b2) == 'SLICE(PT;;-2)'
            desc = 'the 16-bit checksum of the decrypted secret material (last 2 octets == sum of the rest mod 65536)'
        guards.check_guard(rep, 'C04.4', 'PrivKey.decrypt_keyblob', outs, sides, desc, fi.where, scenario='usage %d' % usage)
        _no_unchecked_store(rep, 'C04.4', 'PrivKey.decrypt_keyblob', outs, PT, 'the %s check' % what, fi.where, scenario='usage %d' % usage)
        # the usage octet selects the check: it is read, never rewritten, here (the scenario pins it, so a store would go unseen)
        sel = [st for s in outs for st in s.stores if st[0] in ('self.s2k.usage', 'self.s2k')]
        rep.check(not sel, 'C04.4', 'PrivKey.decrypt_keyblob', 'usage octet rewritten', 'the usage octet that selects the integrity check is '
                  'overwritten inside decrypt_keyblob', where=fi.where, found=sel[0][:2] if sel else None, scenario='usage %d' % usage)
        for s in outs:
            if s.raised is None:
                r = render(s.ret).replace(PT, 'PT')
                rep.check(r == 'PT', 'C04.4', 'PrivKey.decrypt_keyblob', 'return %s' % r,
                          'the material handed to the subclass must be the checked plaintext', where=fi.where, found=r,
                          scenario='usage %d' % usage)


# ------------------------------------------------------------------------------------------------ the decrypt chain (C04.5 / C04.6)
class _Paths(PathFrame):
    # helpers that are not part of the reference vocabulary (extracted by an edit) and that the canonicaliser could not make
    # transparent (a return inside a loop, ...) are followed path by path where they are called as a statement
    path_inline = staticmethod(lambda fi: fi.name not in VOCAB_FUNCS)


def _paths(prog, fi, **kw):
    it = Interp(prog, Scenario(inline=noinline, **kw))
    it.frame_cls = _Paths
    return it.run(fi)


def _subclasses(prog, name):
    out = set()
    for cis in prog.classes_by_name.values():
        for ci in cis:
            if any(c.name == name for c in ci.mro()):
                out.add(ci.name)
    if name not in out:
        raise AnalysisError('class %s not found' % name)
    return out


def _container_params(prog):
    """(key, alg) parameter names of the encrypted-data containers' decrypt (both containers are called through one site)."""
    names = None
    for cn in ('SKEData', 'IntegrityProtectedSKEDataV1'):
        p = prog.method('pgpy.packet.packets', cn, 'decrypt').params[1:]
        if names is not None and p != names:
            raise AnalysisError('SKEData.decrypt and IntegrityProtectedSKEDataV1.decrypt disagree on their parameters')
        names = p
    if len(names) != 2:
        raise AnalysisError('container decrypt is expected to take (key, alg); found %s' % names)
    return names


class Chain(object):
    """What a returning path did, read backwards from the value it returns."""
    def __init__(self):
        self.why = None          # None = complete; else (kind, text): which link is missing / wrong
        self.packet = None       # text of the session-key packet decrypt_sk was called on
        self.at = None           # index of the decrypt_sk event


def _chain(prog, s, owner, secret, dec_params):
    """s returns normally.  Links, each found by what it does:
         return O            O is a PGPMessage constructed in this function
         O.parse(D)          after O's construction; every parse O received takes such a D
         D = C.decrypt(K, A) C is the encrypted-data container of `owner` (owner.message)
         K, A = R[1], R[0]   R = X.decrypt_sk(secret): the (cipher, key) pair that call returned, not swapped
       in this order on the path."""
    ch = Chain()
    ev = s.events
    if not (isinstance(s.ret, Obj) and s.ret.cls is not None and s.ret.cls.name == 'PGPMessage'):
        ch.why = ('result', 'returns %s, which is not a message object that parsed decrypted data' % (render(s.ret) if s.ret is not None else None))
        return ch
    name = s.ret.name
    born = max([i for i, e in enumerate(ev) if e[0] == 'assign' and e[1] == name and e[2] == name] or [-1])
    parses = [(i, e) for i, e in enumerate(ev) if e[0] == 'call' and e[1] == name + '.parse' and i > born]
    if not parses:
        ch.why = ('result', 'returns a message object that never parsed anything')
        return ch
    pparams = prog.method('pgpy.pgp', 'PGPMessage', 'parse').params[1:]
    containers = ('%s.message' % owner, '%s._message' % owner)
    for i, e in parses:
        a = positional(e[1:], pparams)
        if a is None or len(a) != 1:
            ch.why = ('parse', 'parse(%s)' % (e[2],))
            return ch
        decs = [(j, d) for j, d in enumerate(ev[:i]) if d[0] == 'call' and d[1].endswith('.decrypt') and call_text(d[1:]) == a[0]]
        if not decs or decs[-1][1][1][:-len('.decrypt')] not in containers:
            ch.why = ('parse', 'the data parsed is %s, not the decryption of the encrypted-data container of this message' % a[0][:120])
            return ch
        j, d = decs[-1]
        ka = positional(d[1:], dec_params)
        sks = [(k, c) for k, c in enumerate(ev[:j]) if c[0] == 'call' and c[1].endswith('.decrypt_sk')]
        hit = None
        for k, c in sks:
            r = call_text(c[1:])
            if ka == ['%s[1]' % r, '%s[0]' % r]:
                hit = (k, c)
        if hit is None:
            ch.why = ('container', 'container decrypt%s does not get the (key, cipher) that a decrypt_sk call on this path returned' % (ka,))
            return ch
        k, c = hit
        if list(c[2]) + list(c[3].values()) != [secret]:
            ch.why = ('secret', 'decrypt_sk(%s) is not given %s' % (', '.join(list(c[2]) + ['%s=%s' % kv for kv in c[3].items()]), secret))
            return ch
        ch.packet, ch.at = c[1][:-len('.decrypt_sk')], k
    return ch


# ------------------------------------------------------------------------------------------------ C04.5
def message_decrypt(rep, prog):
    fi = prog.method('pgpy.pgp', 'PGPMessage', 'decrypt')
    rep.saw(fn=fi)
    W = 'PGPMessage.decrypt'
    pw = fi.params[1]
    outs = _paths(prog, fi)
    rep.analysed['paths'] += len(outs)
    dec_params = _container_params(prog)
    ske = _subclasses(prog, 'SKESessionKey')
    rets = [s for s in outs if s.raised is None]
    if not rets:
        rep.violation('C04.5', W, 'no returning path', 'the function has no returning path at all', where=fi.where)
        return
    # precondition: a returning path has established that the message is encrypted
    bad = [s for s in rets if not implied(s.facts, lambda a: False if truth_atom(a, 'self.is_encrypted') else None)]
    rep.check(not bad, 'C04.5', W, 'not-encrypted precondition', 'decrypting a message that is not encrypted must raise', where=fi.where,
              found='a returning path decides only %s' % [f[0] for f in bad[0].facts] if bad else None)
    # the success chain on every returning path; the other ways out of the search must raise
    groups = {'chain': [], 'exhausted': [], 'handler': [], 'secret': [], 'container': []}
    packets = []
    for s in rets:
        ch = _chain(prog, s, 'self', pw, dec_params)
        if ch.why is None:
            packets.append((s, ch))
            continue
        kind, text = ch.why
        if kind in ('secret', 'container'):
            groups[kind].append(text)
        elif any(e[0] == 'exhausted' for e in s.events) and kind == 'result':
            groups['exhausted'].append(text)
        elif any(f[0].startswith('except') for f in s.facts):
            groups['handler'].append(text)
        else:
            groups['chain'].append(text)
    g = groups['chain']
    rep.check(not g, 'C04.5', W, 'normal exit without a successful parse(decrypt(..))',
              'the function can return without any session key having decrypted and parsed the message', where=fi.where,
              expected='every returning path returns the object that parsed container.decrypt(key, alg)', found=g[0] if g else None)
    g = groups['secret']
    rep.check(not g, 'C04.5', W, 'decrypt_sk argument', 'the session key must be recovered from the packet with the caller\'s passphrase',
              where=fi.where, expected='decrypt_sk(%s)' % pw, found=g[0] if g else None)
    g = groups['container']
    rep.check(not g, 'C04.5', W, 'container decrypt arguments', 'the container must be decrypted with the (key, cipher) that decrypt_sk returned',
              where=fi.where, expected='container.decrypt(key, alg) with alg, key = packet.decrypt_sk(%s)' % pw, found=g[0] if g else None)
    g = groups['handler']
    rep.check(not g, 'C04.5', W, 'failed attempt ends the search as a success',
              'a failed attempt must go on to the next session key or raise, not leave the function as if it had succeeded',
              where=fi.where, expected='continue / raise', found=g[0] if g else None)
    g = groups['exhausted']
    rep.check(not g, 'C04.5', W, 'no candidate worked', 'when no session key worked the function must raise', where=fi.where,
              expected='raise PGPDecryptionError', found=g[0] if g else None)
    # the packet: a passphrase session-key packet of this message
    if packets:
        bad = []
        for s, ch in packets:
            x = ch.packet
            if s.bound.get(x) not in ('self._sessionkeys',) or \
                    not implied(s.facts, lambda a, _x=x: False if isinstance_atom(a, _x, ske) else None):
                bad.append('%s ranging over %s, decisions %s' % (x, s.bound.get(x), [f[0] for f in s.facts if x in f[0]]))
        rep.check(not bad, 'C04.5', W, 'candidate session-key packets',
                  'the candidates must be the passphrase session-key packets of this message', where=fi.where,
                  expected='an element of self._sessionkeys tested with isinstance(.., SKESessionKey)', found=bad[0] if bad else None)


# ------------------------------------------------------------------------------------------------ C04.6
_SETLIKE = ('set', 'frozenset', 'list', 'tuple', 'sorted')


def _coll_kind(node, subs, encs):
    """'S' = the ids of this key's subkeys, 'E' = the recipients of the message (through any set/list wrapper)."""
    if isinstance(node, ast.Call) and isinstance(node.func, ast.Name) and node.func.id in _SETLIKE and len(node.args) == 1 and not node.keywords:
        return _coll_kind(node.args[0], subs, encs)
    if isinstance(node, ast.Call) and isinstance(node.func, ast.Attribute) and node.func.attr == 'keys' and not node.args:
        return 'S' if ast.unparse(node.func.value) in subs else None
    t = ast.unparse(node)
    return 'S' if t in subs else 'E' if t in encs else None


def _is_common(text, subs, encs):
    """text denotes (subkey ids) intersected with (recipients)."""
    m = re.match(r'^(?:(?:set|frozenset|list|tuple|sorted)\()?EACH\((%s) in (.+?) if \(?(%s) in (.+?)\)?;(%s)\)\)?$' % (BV, BV, BV), text)
    if m and m.group(1) == m.group(3) == m.group(5):
        a, b = canon_text(m.group(2)), canon_text(m.group(4))
        kinds = set()
        for t in (a, b):
            try:
                kinds.add(_coll_kind(ast.parse(t, mode='eval').body, subs, encs))
            except SyntaxError:
                return False
        return kinds == {'S', 'E'}
    try:
        n = ast.parse(text, mode='eval').body
    except SyntaxError:
        return False
    if isinstance(n, ast.Call) and isinstance(n.func, ast.Name) and n.func.id in _SETLIKE and len(n.args) == 1:
        return _is_common(ast.unparse(n.args[0]), subs, encs)
    if isinstance(n, ast.BinOp) and isinstance(n.op, ast.BitAnd):
        return {_coll_kind(n.left, subs, encs), _coll_kind(n.right, subs, encs)} == {'S', 'E'}
    if isinstance(n, ast.Call) and isinstance(n.func, ast.Attribute) and n.func.attr == 'intersection' and len(n.args) == 1:
        return {_coll_kind(n.func.value, subs, encs), _coll_kind(n.args[0], subs, encs)} == {'S', 'E'}
    return False


def _split_top(text, sep):
    """Split at the separator where it is not nested in brackets."""
    out, depth, last, i = [], 0, 0, 0
    while i < len(text):
        ch = text[i]
        if ch in '([{':
            depth += 1
        elif ch in ')]}':
            depth -= 1
        elif depth == 0 and text.startswith(sep, i):
            out.append(text[last:i])
            i += len(sep)
            last = i
            continue
        i += 1
    out.append(text[last:])
    return out


def _element_of(text):
    """text picks one element of a collection: the collection's text, else None."""
    for pat in (r'^(?:list|tuple|sorted)\((.*)\)\[(?:0|-1)\]$', r'^next\(iter\((.*)\)\)$', r'^(?:min|max)\((.*)\)$', r'^(.*)\.pop\(\)$',
                r'^next\((EACH\(.*\))(?:, None)?\)$', r'^(EACH\(.*\))\[(?:0|-1)\]$'):
        m = re.match(pat, text)
        if m:
            return m.group(1)
    return None


def key_decrypt(rep, prog):
    fi = prog.method('pgpy.pgp', 'PGPKey', 'decrypt')
    rep.saw(fn=fi)
    W = 'PGPKey.decrypt'
    msg = fi.params[1]
    outs = _paths(prog, fi, bind={'%s.is_encrypted' % msg: Const(True)})
    rep.analysed['paths'] += len(outs)
    dec_params = _container_params(prog)
    pke = _subclasses(prog, 'PKESessionKey')
    me = 'self.fingerprint.keyid'
    subs = ('self.subkeys', 'self._children')
    encs = ('%s.encrypters' % msg,)

    def atom_mine(a):
        """True: atom true <=> my key id is among the recipients; False: the negation; None: another atom."""
        if a[0] == 'cmp' and a[1] in ('in', 'not in') and canon_text(a[2]) == me:
            try:
                k = _coll_kind(ast.parse(canon_text(a[3]), mode='eval').body, subs, encs)
            except SyntaxError:
                k = None
            if k == 'E':
                return a[1] == 'in'
        return None

    def atom_sub(a):
        """True: atom true <=> some subkey id is among the recipients; False: the negation; None: another atom."""
        if a[0] == 'expr' and _is_common(a[1], subs, encs):
            return True
        if a[0] == 'call' and _is_common('%s(%s)' % (a[1], ', '.join(a[2])), subs, encs):
            return True
        if a[0] == 'call' and a[1] == 'bool' and len(a[2]) == 1 and _is_common(a[2][0], subs, encs):
            return True
        if a[0] == 'call' and a[1].endswith('.isdisjoint') and len(a[2]) == 1 and _is_common('%s.intersection(%s)' % (a[1][:-len('.isdisjoint')], a[2][0]), subs, encs):
            return False
        if a[0] == 'cmp':
            l, r = canon_text(a[2]), canon_text(a[3])
            m = re.match(r'^len\((.*)\)$', l)
            if m and _is_common(m.group(1), subs, encs):
                if (a[1], r) in (('>', '0'), ('!=', '0'), ('>=', '1')):
                    return True
                if (a[1], r) in (('==', '0'), ('<', '1'), ('<=', '0')):
                    return False
            if _is_common(l, subs, encs) and r in ('set()', 'frozenset()') and a[1] in ('==', '!='):
                return a[1] == '!='
        return None

    def classify(s):
        """-> (kind, problem): kind in raise / delegate / own / other."""
        if s.raised is not None:
            return 'raise', None
        rt = render(s.ret) if s.ret is not None else 'None'
        # delegation: <subkeys>[K].decrypt(message) with K one of the common ids
        for c in s.calls:
            sub = [t for t in subs if c[0].startswith(t + '[') and c[0].endswith('].decrypt')]
            if sub and call_text(c) == rt:
                k = c[0][len(sub[0]) + 1:-len('].decrypt')]
                coll = s.bound.get(k) if k in s.bound else _element_of(k)
                if positional(c, [msg]) != [msg]:
                    return 'delegate', 'the subkey is handed %s, not the message' % (c[1] or c[2])
                if coll is None or not _is_common(coll, subs, encs):
                    return 'delegate', 'the subkey %s is not taken from the ids common to the subkeys and the recipients' % k
                return 'delegate', None
        ch = _chain(prog, s, msg, 'self._key', dec_params)
        if ch.why is not None:
            return 'other', ch.why[1]
        # the packet the session key came from: selected by type, algorithm and key id
        x = ch.packet
        facts = None
        if x in s.bound:
            v, coll, facts = x, s.bound[x], s.facts
        else:
            e = _element_of(x) or ''
            m = re.match(r'^EACH\((%s) in (.*);(%s)\)$' % (BV, BV), e)
            if m and m.group(1) == m.group(3):
                parts = _split_top(m.group(2), ' if ')
                v, coll = m.group(1), parts[0]
                facts = [(c, True, skel_from_text(c)) for c in parts[1:]]       # every filter of the comprehension holds
        if facts is None or coll not in ('%s._sessionkeys' % msg,):
            return 'own', 'the session key comes from %s, which is not a selected element of %s._sessionkeys' % (x[:100], msg)
        need = (('a public-key session-key packet', lambda a: False if isinstance_atom(a, v, pke) else None),
                ('of this key\'s algorithm', lambda a: _neg(eq_atom(a, '%s.pkalg' % v, 'self.key_algorithm'))),
                ('addressed to this key id', lambda a: _neg(eq_atom(a, '%s.encrypter' % v, me))))
        missing = [what for what, f in need if not implied(facts, f)]
        if missing:
            return 'own', 'the packet selected is not necessarily %s: %s' % (' / '.join(missing), x[:160])
        return 'own', None

    def _neg(p):
        return None if p is None else (not p)

    kinds = [classify(s) for s in outs]
    allowed = {(True, True): ('own', 'delegate'), (True, False): ('own',), (False, True): ('delegate',), (False, False): ()}
    label = {(True, True): 'addressed to this key and to a subkey', (True, False): 'addressed to this key',
             (False, True): 'addressed to a subkey only', (False, False): 'not addressed to this key nor a subkey'}
    for (a, b) in itertools.product((True, False), repeat=2):
        def val(atom, _a=a, _b=b):
            p = atom_mine(atom)
            if p is not None:
                return _a if p else (not _a)
            p = atom_sub(atom)
            if p is not None:
                return _b if p else (not _b)
            return None
        here = [(s, k) for s, k in zip(outs, kinds) if consistent(s.facts, val)]
        good = 0
        ok = True
        for s, (kind, problem) in here:
            if kind == 'raise':
                continue
            if kind in allowed[(a, b)] and problem is None:
                good += 1
                continue
            ok = False
            if kind == 'own' and problem is not None:
                rep.violation('C04.6', W, 'session-key packet selection', 'the packet used must be a public-key session-key packet of this '
                              'message addressed to this key id and algorithm', where=fi.where,
                              expected='isinstance(pk, PKESessionKey) and pk.pkalg == self.key_algorithm and pk.encrypter == self.fingerprint.keyid',
                              found=problem, scenario=label[(a, b)])
            elif kind == 'delegate' and problem is not None:
                rep.violation('C04.6', W, 'delegation', 'delegation must go to a subkey that is among the recipients, with the same message',
                              where=fi.where, found=problem, scenario=label[(a, b)])
            elif kind == 'other':
                rep.violation('C04.6', W, 'return without the decrypt chain', 'a path returns something that is not the message parsed from the '
                              'container decrypted with the (key, cipher) recovered from this key\'s packet with its own secret material',
                              where=fi.where, found=problem, scenario=label[(a, b)])
            else:
                rep.violation('C04.6', W, 'non-recipient path decrypts', 'a key that is not a recipient (nor has a recipient subkey) must raise; '
                              'a key that is not itself a recipient must not use its own secret material', where=fi.where,
                              expected='raise PGPError' if not allowed[(a, b)] else ' / '.join(allowed[(a, b)]),
                              found='%s path: returns %s' % (kind, render(s.ret)[:160] if s.ret is not None else None), scenario=label[(a, b)])
        if not here:
            ok = False
            rep.violation('C04.6', W, 'no path for: %s' % label[(a, b)], 'PGPKey.decrypt has no path for a message %s' % label[(a, b)], where=fi.where)
        elif ok and (a, b) in ((True, False), (False, True)) and good == 0:
            ok = False
            rep.violation('C04.6', W, 'no %s path' % allowed[(a, b)][0], 'PGPKey.decrypt lacks its %s arm' % allowed[(a, b)][0], where=fi.where,
                          scenario=label[(a, b)])
        if ok:
            rep.ok('C04.6', W, '%s: %s' % (label[(a, b)], ' / '.join(allowed[(a, b)]) or 'raises'), scenario=label[(a, b)])


# ------------------------------------------------------------------------------------------------ C04.7
def ecdh(rep, prog):
    fi = prog.method('pgpy.packet.fields', 'ECDHCipherText', 'decrypt')
    rep.saw(fn=fi)
    W = 'ECDHCipherText.decrypt'
    outs = Interp(prog, Scenario(inline=noinline)).run(fi)
    rep.analysed['paths'] += len(outs)
    for s in outs:
        if s.raised is not None:
            continue
        r = render(s.ret)
        scen = '; '.join('%s=%s' % (f[0], f[1]) for f in s.facts)
        uw = [c for c in s.calls if c[0].split('.')[-1] == 'aes_key_unwrap']
        a = positional(uw[0], ['wrapping_key', 'wrapped_key', 'backend']) if len(uw) == 1 else None
        ok = a is not None and len(a) >= 2 and a[1] == 'self.c'
        rep.check(ok, 'C04.7', W, 'unwrap %s' % (a[1:] if a else [c[1] for c in uw]),
                  'the wrapped session key of this packet must be unwrapped', where=fi.where, scenario=scen)
        if len(uw) != 1:
            continue
        U = call_text(uw[0])
        # one unpadder object of PKCS7 with 64-bit blocks; the value is update(U) + finalize() of that object
        mk = [c for c in s.calls if c[0].endswith('.unpadder') and not c[1] and not c[2]]
        pads = [c for c in s.calls if c[0].split('.')[-1] == 'PKCS7']
        good = len(mk) == 1 and len(pads) == 1 and mk[0][0] == call_text(pads[0]) + '.unpadder' and \
            (pads[0][1], pads[0][2]) in ((['64'], {}), ([], {'block_size': '64'}))
        P = call_text(mk[0]) if mk else None
        r2 = r.replace(U, 'U')
        if P:
            r2 = r2.replace(P, 'P')
        rep.check(good and r2 in ('(P.update(U) + P.finalize())', 'P.update(U) P.finalize()'), 'C04.7', W,
                  'return %s' % r2, 'the unwrapped value must be returned only through PKCS#5 unpadding (update + finalize)',
                  where=fi.where, expected='unpadder.update(unwrapped) + unpadder.finalize() with unpadder = PKCS7(64).unpadder()',
                  found=r2, scenario=scen)


# ------------------------------------------------------------------------------------------------ C04.8
def message_compose(rep, prog):
    fi = prog.method('pgpy.pgp', 'PGPMessage', '__or__')
    rep.saw(fn=fi)
    W = 'PGPMessage.__or__'
    other = fi.params[1]
    kinds = []
    for base in ('LiteralData', 'SKEData', 'IntegrityProtectedSKEData'):
        fam = _subclasses(prog, base)
        for n in sorted(fam):
            ci = prog.classes_by_name[n][0]
            is_base = any(n in [c.name for c in prog.classes_by_name[m][0].mro()[1:]] for m in fam)
            if not is_base and n not in [k[0] for k in kinds]:
                kinds.append((n, Sym(other, cls=ci, types={n}, nonnull=True)))      # the concrete (leaf) packet classes
    kinds.append(('bytes', Sym(other, types={'bytes'}, nonnull=True)))
    if len(kinds) < 4:
        raise AnalysisError('PGPMessage.__or__: data packet classes not found (%s)' % [k[0] for k in kinds])
    for name, val in kinds:
        # slot already filled: every path raises (no warn-and-drop, no replace)
        sc = Scenario(bind={'self._message': Sym('self._message', nonnull=True)}, args={other: val}, inline=noinline)
        outs = Interp(prog, sc).run(fi)
        rep.analysed['paths'] += len(outs)
        bad = [s for s in outs if s.raised is None]
        what = 'drops it' if bad and not any(st[0] == 'self._message' for st in bad[0].stores) else 'replaces the data packet'
        rep.check(not bad and bool(outs), 'C04.8', W, 'second data packet (%s)' % name,
                  'a message that already has its data packet must reject a further one: a packet spliced next to the encrypted data '
                  'would otherwise become, or silently be dropped in favour of, a plaintext that was never decrypted', where=fi.where,
                  expected='raise', found='a path %s and returns %s' % (what, render(bad[0].ret) if bad and bad[0].ret is not None else None)
                  if bad else None, scenario='%s, slot filled' % name)
        # empty slot: the packet becomes the data packet
        sc = Scenario(bind={'self._message': Const(None)}, args={other: val}, inline=noinline)
        outs = Interp(prog, sc).run(fi)
        rep.analysed['paths'] += len(outs)
        want = other if name != 'bytes' else None
        good = [s for s in outs if s.raised is None and render(s.ret) == 'self' and
                any(st[0] == 'self._message' and (want is None or st[1] == want) for st in s.stores)]
        rep.check(bool(good) and len(good) == len([s for s in outs if s.raised is None]), 'C04.8', W, 'first data packet (%s)' % name,
                  'the first data packet fills the slot', where=fi.where, scenario='%s, slot empty' % name)


# ------------------------------------------------------------------------------------------------ C04.9
_ENC_OK = ([], ["'utf-8'"], ["'utf8'"], ["'UTF-8'"], ["'utf-8'", "'strict'"], ["'utf8'", "'strict'"], ["'UTF-8'", "'strict'"])
_RAW_OK = ('bytes', 'bytearray', 'isinstance', 'len', 'memoryview', 'type', 'str')


class _Relabel(object):
    """Re-labels the rule ids of a shared rule family (the report is otherwise passed through)."""
    def __init__(self, rep, rid):
        self.rep, self.rid = rep, rid

    def __getattr__(self, k):
        return getattr(self.rep, k)

    def check(self, cond, rid, *a, **kw):
        return self.rep.check(cond, self.rid, *a, **kw)

    def violation(self, rid, *a, **kw):
        return self.rep.violation(self.rid, *a, **kw)

    def ok(self, rid, *a, **kw):
        return self.rep.ok(self.rid, *a, **kw)


def passphrase_path(rep, prog):
    from rules import C12
    # (1) what derive_key hashes: the shared shape rule (salt || passphrase octets, repeated to the count, context preloads)
    C12.check_derive_key(_Relabel(rep, 'C04.9'), prog, 'C04.9', 'C04.9')
    # (2) the passphrase enters the hash as itself or as its strict UTF-8 encoding: nothing lossy, nothing normalising
    fi = prog.method('pgpy.packet.fields', 'String2Key', 'derive_key')
    pw = fi.params[1]
    for ptype in ('bytes', 'str'):
        outs = Interp(prog, Scenario(args={pw: Sym(pw, types={ptype}, nonnull=True)}, inline=noinline)).run(fi)
        rep.analysed['paths'] += len(outs)
        bad = []
        for s in outs:
            for c in s.calls:
                args = list(c[1]) + list(c[2].values())
                if c[0].startswith(pw + '.'):
                    meth = c[0][len(pw) + 1:]
                    lay = positional(c, ['encoding', 'errors']) if meth == 'encode' else None
                    if lay not in _ENC_OK:
                        bad.append(call_text(c))
                elif pw in args and c[0] not in _RAW_OK and not c[0].startswith('HASHER') and not c[0].startswith('hashlib.'):
                    bad.append(call_text(c))
        bad = sorted(set(bad))
        rep.check(not bad, 'C04.9', 'String2Key.derive_key', 'passphrase transformed: %s' % bad,
                  'two different passphrases must never give the same key: the passphrase may only be used as it is (bytes) or through '
                  'a strict UTF-8 encoding; %s is lossy or normalising' % ', '.join(bad), where=fi.where,
                  expected="%s / %s.encode('utf-8')" % (pw, pw), found=bad or None, scenario='%s passphrase' % ptype)
    # (3) every layer above hands the caller's passphrase down as it got it
    layers = [('pgpy.packet.packets', 'SKESessionKeyV4', 'decrypt_sk', 'derive_key'),
              ('pgpy.packet.fields', 'PrivKey', 'decrypt_keyblob', 'derive_key'),
              ('pgpy.packet.packets', 'PrivKeyV4', 'unprotect', 'decrypt_keyblob'),
              ('pgpy.pgp', 'PGPKey', 'unlock', 'unprotect')]
    for n in sorted(_subclasses(prog, 'PrivKey')):
        ci = prog.classes_by_name[n][0]
        if n != 'PrivKey' and 'decrypt_keyblob' in ci.methods and any(c[0].endswith('decrypt_keyblob') for c in _own_calls(prog, ci.methods['decrypt_keyblob'])):
            layers.append((ci.module.name, n, 'decrypt_keyblob', 'decrypt_keyblob'))
    for mod, cn, meth, sink in layers:
        f = prog.method(mod, cn, meth, inherited=False)
        rep.saw(fn=f)
        p = f.params[1]
        hits = [c for c in _own_calls(prog, f) if c[0].split(':')[-1].split('.')[-1] == sink]
        if not hits:
            raise AnalysisError('%s.%s no longer calls %s' % (cn, meth, sink))
        bad = []
        for c in hits:
            a = list(c[1]) + list(c[2].values())
            if not c[0].startswith('super:') and len(a) == 2 and a[0] == f.params[0]:
                a = a[1:]                       # K.m(self, passphrase), the explicit spelling of super().m(passphrase)
            if a != [p]:
                bad.append(call_text(c))
        rep.check(not bad, 'C04.9', '%s.%s' % (cn, meth), '%s(%s)' % (sink, bad),
                  'the passphrase must be handed down unchanged (not stripped, folded, truncated, re-encoded or replaced)', where=f.where,
                  expected='%s(%s)' % (sink, p), found=bad or None)


def _own_calls(prog, f):
    outs = Interp(prog, Scenario(inline=noinline, join_unknown=False)).run(f)
    return _calls(outs, lambda c: True)
