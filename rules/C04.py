"""C04 - Ciphertext integrity: tampered or mis-keyed encrypted messages never decrypt.

Each integrity check must exist, compare the right terms, have the right polarity, react by raising and dominate the
return of the protected value (E3 over interpreter paths; CFG for the loop in PGPMessage.decrypt).
  C04.1 MDC compare in IntegrityProtectedSKEDataV1.decrypt          C04.2 prefix repetition check
  C04.3 PKESK checksum in PKESessionKeyV3.decrypt_sk                C04.4 secret-key SHA-1 (254) / checksum (255) guards
  C04.5 PGPMessage.decrypt: only non-raising exit is the success arm; failures continue; for-else raises
  C04.6 PGPKey.decrypt: raises unless addressed; delegates to the addressed subkey; picks its own session-key packet
  C04.7 ECDH: unwrap result goes through unpadder.update + finalize
"""
import ast
import re

from sa.interp import sl, Interp, Scenario, Sym, Const, Bytes, render
from sa.loader import AnalysisError, dotted
from sa.cfg import CFG, calls_in
from sa import guards

noinline = lambda f: False  # noqa: E731


def _callarg(states, suffix):
    for s in states:
        for c in s.calls:
            if c[0].endswith(suffix):
                return '%s(%s)' % (c[0], ', '.join(list(c[1]) + ['%s=%s' % kv for kv in c[2].items()]))
    return None


def run(rep, prog, tier):
    rep.rule('C04.1', 'MDC: trailing 22 octets compared with d3 14 || SHA-1(everything before the digest); mismatch raises; dominates return', floor=1)
    rep.rule('C04.2', 'prefix quick check: last two octets of the random block compared with the two that follow; mismatch raises', floor=1)
    rep.rule('C04.3', 'PKESK: sum(session key) mod 65536 compared with the two-octet checksum; mismatch raises', floor=2)
    rep.rule('C04.4', 'secret key: SHA-1 (usage 254) and 16-bit sum (usage 255) of the decrypted material checked; mismatch raises', floor=2)
    rep.rule('C04.5', 'PGPMessage.decrypt returns only after a successful parse(decrypt(..)); every failure continues; for-else raises', floor=4)
    rep.rule('C04.6', 'PGPKey.decrypt raises unless the message is addressed to it or a subkey; delegates to that subkey; selects its own PKESK', floor=4)
    rep.rule('C04.7', 'ECDH decrypt returns the unwrapped value only through PKCS#5 unpadding (update + finalize)', floor=2)
    rep.assume('SHA-1/MDC detects modification; AES key unwrap raises on a corrupted wrap (cryptographic arguments, trusted)')

    seipd(rep, prog)
    pkesk(rep, prog)
    keyblob(rep, prog)
    message_decrypt(rep, prog)
    key_decrypt(rep, prog)
    ecdh(rep, prog)


def seipd(rep, prog):
    fi = prog.method('pgpy.packet.packets', 'IntegrityProtectedSKEDataV1', 'decrypt')
    rep.saw(fn=fi)
    outs = Interp(prog, Scenario(inline=noinline)).run(fi)
    rep.analysed['paths'] += len(outs)
    PT = None
    for s in outs:
        for c in s.calls:
            if c[0] == '_decrypt':
                PT = '_decrypt(%s)' % ', '.join(c[1])
    if PT is None:
        raise AnalysisError('IntegrityProtectedSKEDataV1.decrypt no longer calls _decrypt')
    rep.check(PT == '_decrypt(self.ct, key, alg)', 'C04.1', 'IntegrityProtectedSKEDataV1.decrypt', 'plaintext = %s' % PT,
              'the whole ciphertext must be decrypted with the session key and cipher (zero IV)', where=fi.where,
              expected='_decrypt(self.ct, key, alg)', found=PT)

    def mdc_sides(a, b):
        a2, b2 = a.replace(PT, 'PT'), b.replace(PT, 'PT')
        return a2 == 'SLICE(PT;-22;)' and b2 == 'C(d314) HASH(sha1;SLICE(PT;;-20))'
    guards.check_guard(rep, 'C04.1', 'IntegrityProtectedSKEDataV1.decrypt', outs, mdc_sides,
                       'the MDC comparison (last 22 octets == d3 14 || SHA-1(plaintext[:-20]))', fi.where)
    BS = '(alg.block_size // 8)'

    def iv_sides(a, b):
        a2, b2 = a.replace(PT, 'PT'), b.replace(PT, 'PT')
        return a2 == sl('PT', ('', BS), (-2, '')) and b2 == sl('PT', (BS, ''), ('', 2))
    guards.check_guard(rep, 'C04.2', 'IntegrityProtectedSKEDataV1.decrypt', outs, iv_sides,
                       'the prefix repetition check (octets bs-2..bs == octets bs..bs+2)', fi.where)
    # the value returned is the checked plaintext
    for s in outs:
        if s.raised is None:
            r = render(s.ret).replace(PT, 'PT')
            rep.check(r == sl('PT', (BS, ''), (2, '')), 'C04.1', 'IntegrityProtectedSKEDataV1.decrypt', 'return %s' % r,
                      'the value returned must be the plaintext that was checked, minus the %s+2 prefix octets' % BS, where=fi.where,
                      expected='PT[bs+2:]', found=r)


def pkesk(rep, prog):
    fi = prog.method('pgpy.packet.packets', 'PKESessionKeyV3', 'decrypt_sk')
    rep.saw(fn=fi)
    pk = prog.cls('pgpy.constants', 'PubKeyAlgorithm').enum_members()
    from sa.interp import Enum
    for alg in ('RSAEncryptOrSign', 'ECDH'):
        sc = Scenario(bind={'self.pkalg': Const(Enum('PubKeyAlgorithm', alg, pk[alg]))}, inline=noinline)
        outs = Interp(prog, sc).run(fi)
        rep.analysed['paths'] += len(outs)
        M = None
        for s in outs:
            for c in s.calls:
                if c[0] == 'self.ct.decrypt':
                    M = 'self.ct.decrypt(%s)' % ', '.join(c[1])
        if M is None:
            raise AnalysisError('PKESessionKeyV3.decrypt_sk no longer calls self.ct.decrypt')
        KS = '(SymmetricKeyAlgorithm(M[0]).key_size // 8)'
        KEY = sl('M', (1, ''), ('', KS))
        CHK = sl('M', (1, ''), (KS, ''), ('', 2))

        def sides(a, b, _M=M):
            a2, b2 = a.replace(_M, 'M'), b.replace(_M, 'M')
            return a2 == '(sum(%s) %% 65536)' % KEY and b2 in ('self.bytes_to_int(%s)' % CHK, 'int.from_bytes(%s, \'big\')' % CHK)
        guards.check_guard(rep, 'C04.3', 'PKESessionKeyV3.decrypt_sk', outs, sides,
                           'the session-key checksum (sum of key octets mod 65536 == the two octets after the key)', fi.where,
                           scenario=alg)
        for s in outs:
            if s.raised is None:
                r = render(s.ret).replace(M, 'M')
                rep.check(r == '(SymmetricKeyAlgorithm(M[0]), %s)' % KEY, 'C04.3', 'PKESessionKeyV3.decrypt_sk', 'return %s' % r,
                          'the (cipher, key) returned must be the checked ones: octet 0 and the key_size // 8 octets after it',
                          where=fi.where, expected='(SymmetricKeyAlgorithm(M[0]), M[1:1+ks])', found=r, scenario=alg)


def keyblob(rep, prog):
    fi = prog.method('pgpy.packet.fields', 'PrivKey', 'decrypt_keyblob')
    rep.saw(fn=fi)
    for usage, what in ((254, 'SHA-1'), (255, 'checksum')):
        sc = Scenario(bind={'self.s2k.usage': Const(usage)}, axioms={'not self.s2k': False}, inline=noinline)
        outs = Interp(prog, sc).run(fi)
        rep.analysed['paths'] += len(outs)
        PT = None
        for s in outs:
            for c in s.calls:
                if c[0] == '_decrypt':
                    PT = '_decrypt(%s)' % ', '.join(c[1])
        if PT is None:
            raise AnalysisError('PrivKey.decrypt_keyblob no longer calls _decrypt')
        rep.check(PT == '_decrypt(self.encbytes, self.s2k.derive_key(passphrase), self.s2k.encalg, self.s2k.iv)', 'C04.4',
                  'PrivKey.decrypt_keyblob', 'plaintext = %s' % PT,
                  'the stored ciphertext must be decrypted with the key derived from the passphrase, the stored cipher and IV',
                  where=fi.where, found=PT, scenario='usage %d' % usage)
        if usage == 254:
            def sides(a, b, _PT=PT):
                a2, b2 = a.replace(_PT, 'PT'), b.replace(_PT, 'PT')
                return a2 == 'SLICE(PT;-20;)' and b2 == 'HASH(sha1;SLICE(PT;;-20))'
            desc = 'the SHA-1 check of the decrypted secret material (last 20 octets == SHA-1 of the rest)'
        else:
            def sides(a, b, _PT=PT):
                a2, b2 = a.replace(_PT, 'PT'), b.replace(_PT, 'PT')
                return a2 == 'self.bytes_to_int(SLICE(PT;-2;))' and b2 == '(sum(SLICE(PT;;-2)) % 65536)'
            desc = 'the 16-bit checksum of the decrypted secret material (last 2 octets == sum of the rest mod 65536)'
        guards.check_guard(rep, 'C04.4', 'PrivKey.decrypt_keyblob', outs, sides, desc, fi.where, scenario='usage %d' % usage)
        for s in outs:
            if s.raised is None:
                r = render(s.ret).replace(PT, 'PT')
                rep.check(r == 'PT', 'C04.4', 'PrivKey.decrypt_keyblob', 'return %s' % r,
                          'the material handed to the subclass must be the checked plaintext', where=fi.where, found=r,
                          scenario='usage %d' % usage)


def message_decrypt(rep, prog):
    fi = prog.method('pgpy.pgp', 'PGPMessage', 'decrypt')
    rep.saw(fn=fi)
    g = CFG(fi.node)
    loops = [n for n in g.nodes if n.kind == 'loop' and isinstance(n.ast, ast.For)]
    if len(loops) != 1:
        raise AnalysisError('PGPMessage.decrypt: expected one loop over the session-key packets, found %d' % len(loops))
    head = loops[0]
    # the loop iterates over passphrase packets of this message
    it = ast.unparse(head.ast.iter)
    rep.check('_sessionkeys' in it and 'SKESessionKey' in it, 'C04.5', 'PGPMessage.decrypt', 'iterates %s' % it,
              'the candidates must be the passphrase session-key packets of this message', where=fi.where, found=it)
    # success statement: parse(decrypt(...)) ; every normal exit must pass through its normal out-edge
    def is_parse_decrypt(st):
        for c in calls_in(st):
            if isinstance(c.func, ast.Attribute) and c.func.attr == 'parse':
                inner = [x for a in c.args for x in ast.walk(a) if isinstance(x, ast.Call) and isinstance(x.func, ast.Attribute)
                         and x.func.attr == 'decrypt']
                if inner:
                    return True
        return False
    succ = [n for n in g.nodes if n.kind == 'stmt' and n.ast is not None and is_parse_decrypt(n.ast)]
    if len(succ) != 1:
        raise AnalysisError('PGPMessage.decrypt: expected one parse(decrypt(..)) statement, found %d' % len(succ))
    sn = succ[0]
    skip = set((sn.id, m, lab) for m, lab in g.succ[sn.id] if lab != 'exc')
    r = g.reachable(g.entry.id, skip_edges=skip)
    rep.check(g.exit.id not in r, 'C04.5', 'PGPMessage.decrypt', 'normal exit without a successful parse(decrypt(..))',
              'the function can return without any session key having decrypted and parsed the message', where=fi.where,
              expected='every path to the normal exit passes the normal completion of decmsg.parse(self.message.decrypt(key, symalg))',
              found='normal exit reachable with that edge removed')
    # the key handed to decrypt comes from decrypt_sk of the loop's packet with the caller's passphrase
    outs = Interp(prog, Scenario(bind={'self.is_encrypted': Const(True)}, inline=noinline)).run(fi)
    dsk, dec = [], []
    for s in outs:
        for c in s.calls:
            if c[0].endswith('.decrypt_sk') and c not in dsk:
                dsk.append(c)
            if c[0] == 'self.message.decrypt' and c not in dec:
                dec.append(c)
    ok = len(dsk) == 1 and dsk[0][0] == '$1.decrypt_sk' and dsk[0][1] == ['passphrase']     # $1: the loop's packet
    rep.check(ok, 'C04.5', 'PGPMessage.decrypt', 'decrypt_sk call %s' % [(c[0], c[1]) for c in dsk],
              'the session key must be recovered from the loop\'s packet with the caller\'s passphrase', where=fi.where)
    ok = len(dec) == 1 and dec[0][1] == ['$1.decrypt_sk(passphrase)[1]', '$1.decrypt_sk(passphrase)[0]']
    rep.check(ok, 'C04.5', 'PGPMessage.decrypt', 'container decrypt args %s' % [c[1] for c in dec],
              'the container must be decrypted with the (key, cipher) that decrypt_sk returned', where=fi.where,
              expected='self.message.decrypt(key, symalg)', found=[c[1] for c in dec])
    # handlers: failures continue (never break / return / pass to fall out of the loop as success)
    for h in [n for n in g.nodes if n.kind == 'handler']:
        names = [dotted(e) for e in (h.ast.type.elts if isinstance(h.ast.type, ast.Tuple) else [h.ast.type])] if h.ast.type is not None else ['<bare>']
        reach = g.reachable(h.id, skip_nodes={head.id})
        rep.check(g.exit.id not in reach, 'C04.5', 'PGPMessage.decrypt', 'except %s leaves the loop' % names,
                  'a failed attempt must go on to the next session key (continue), not end the loop as if it had succeeded',
                  where='%s:%d' % (fi.module.relpath, h.lineno), expected='continue', found='handler reaches the normal exit without re-entering the loop')
    # for-else raises
    else_nodes = [m for m, lab in g.succ[head.id] if lab == 'F']
    ok = bool(else_nodes)
    for m in else_nodes:
        reach = g.reachable(m)
        if g.exit.id in reach:
            ok = False
    rep.check(ok, 'C04.5', 'PGPMessage.decrypt', 'for-else arm', 'when no session key worked the function must raise', where=fi.where,
              expected='else: raise PGPDecryptionError', found='exhausting the loop reaches the normal exit')
    # precondition
    src = ast.unparse(fi.node)
    rep.check('not self.is_encrypted' in src, 'C04.5', 'PGPMessage.decrypt', 'not-encrypted precondition',
              'decrypting a message that is not encrypted must raise', where=fi.where)
    # the returned object is the one parsed on the success arm
    rets = [n for n in g.nodes if n.kind == 'stmt' and isinstance(n.ast, ast.Return)]
    rep.check(len(rets) == 1 and isinstance(rets[0].ast.value, ast.Name) and rets[0].ast.value.id == 'decmsg', 'C04.5',
              'PGPMessage.decrypt', 'return value', 'the message returned must be the one parsed from the decrypted data', where=fi.where)


def key_decrypt(rep, prog):
    fi = prog.method('pgpy.pgp', 'PGPKey', 'decrypt')
    rep.saw(fn=fi)
    outs = Interp(prog, Scenario(bind={'message.is_encrypted': Const(True)}, inline=noinline)).run(fi)
    rep.analysed['paths'] += len(outs)
    kinds = {'raise': 0, 'delegate': 0, 'own': 0}
    for s in outs:
        facts = dict((f[0], f[1]) for f in s.facts)
        addressed = facts.get('(self.fingerprint.keyid not in message.encrypters)')
        if addressed is None:
            addressed = facts.get('(self.fingerprint.keyid in message.encrypters)')
            addressed = None if addressed is None else (not addressed)
        if addressed is None:
            rep.violation('C04.6', 'PGPKey.decrypt', 'path without recipient test %s' % list(facts),
                          'a path does not test whether the message is addressed to this key', where=fi.where)
            continue
        not_mine = addressed
        if not_mine:
            sub = [v for t, v in facts.items() if 'self.subkeys' in t and 'message.encrypters' in t]
            if sub and sub[0]:
                kinds['delegate'] += 1
                r = render(s.ret)
                ok = re.match(r'^self\.subkeys\[list\(\(set\(self\.subkeys\) & set\(message\.encrypters\)\)\)\[0\]\]\.decrypt\(message\)$', r) is not None
                rep.check(ok and s.raised is None, 'C04.6', 'PGPKey.decrypt', 'delegation %s' % r,
                          'delegation must go to a subkey that is among the recipients, with the same message', where=fi.where, found=r)
            else:
                kinds['raise'] += 1
                rep.check(s.raised is not None, 'C04.6', 'PGPKey.decrypt', 'non-recipient path %s' % (s.raised or render(s.ret)),
                          'a key that is not a recipient (nor has a recipient subkey) must raise', where=fi.where,
                          expected='raise PGPError', found='returns %s' % (render(s.ret) if s.ret is not None else None))
        else:
            kinds['own'] += 1
            sel = s.env.get('pkesk')
            t = render(sel) if sel is not None else ''
            _m = re.search(r'EACH\((\$\d+) in message\._sessionkeys if (.*);\1\)', t)
            _v = _m.group(1) if _m else '$1'
            _c = (_m.group(2) if _m else '').replace(' ', '')
            conj = bool(_m) and all(x in _c for x in ('isinstance(%s,PKESessionKey)' % _v, '%s.pkalg==self.key_algorithm' % _v)) and \
                any(x in _c for x in ('%s.encrypter==self.fingerprint.keyid' % _v, 'self.fingerprint.keyid==%s.encrypter' % _v)) and ' or ' not in _m.group(2)
            rep.check(conj, 'C04.6', 'PGPKey.decrypt', 'session-key packet selection %s' % t[:140],
                      'the packet used must be a public-key session-key packet of this message addressed to this key id and algorithm',
                      where=fi.where, expected='next(pk for pk in message._sessionkeys if isinstance(pk, PKESessionKey) and '
                      'pk.pkalg == self.key_algorithm and pk.encrypter == self.fingerprint.keyid)', found=t)
            dsk = [c for c in s.calls if c[0].endswith('.decrypt_sk')]
            dec = [c for c in s.calls if c[0] == 'message.message.decrypt']
            rep.check(len(dsk) == 1 and dsk[0][0] == t + '.decrypt_sk' and dsk[0][1] == ['self._key'], 'C04.6', 'PGPKey.decrypt',
                      'decrypt_sk(%s)' % (dsk[0][1] if dsk else None),
                      'the session key must be recovered from the selected packet with this key\'s own secret material', where=fi.where)
            dargs = [a.replace(t, 'pkesk') for a in dec[0][1]] if dec else None
            rep.check(len(dec) == 1 and dargs == ['pkesk.decrypt_sk(self._key)[1]', 'pkesk.decrypt_sk(self._key)[0]'], 'C04.6',
                      'PGPKey.decrypt', 'container decrypt(%s)' % (dargs,),
                      'the container must be decrypted with the (key, cipher) recovered from that packet', where=fi.where)
    for k, n in kinds.items():
        if n == 0:
            rep.violation('C04.6', 'PGPKey.decrypt', 'no %s path' % k, 'PGPKey.decrypt lacks its %s arm' % k, where=fi.where)


def ecdh(rep, prog):
    fi = prog.method('pgpy.packet.fields', 'ECDHCipherText', 'decrypt')
    rep.saw(fn=fi)
    outs = Interp(prog, Scenario(inline=noinline)).run(fi)
    rep.analysed['paths'] += len(outs)
    for s in outs:
        r = render(s.ret)
        uw = [c for c in s.calls if c[0] == 'aes_key_unwrap']
        ok = len(uw) == 1 and uw[0][1][1] == 'self.c'
        U = 'aes_key_unwrap(%s)' % ', '.join(uw[0][1]) if uw else None
        scen = '; '.join('%s=%s' % (f[0], f[1]) for f in s.facts)
        rep.check(ok, 'C04.7', 'ECDHCipherText.decrypt', 'unwrap %s' % (uw[0][1][1:] if uw else None),
                  'the wrapped session key of this packet must be unwrapped', where=fi.where, scenario=scen)
        if U:
            r2 = r.replace(U, 'U')
            rep.check(r2 == '(PKCS7(64).unpadder().update(U) + PKCS7(64).unpadder().finalize())', 'C04.7', 'ECDHCipherText.decrypt',
                      'return %s' % r2, 'the unwrapped value must be returned only through PKCS#5 unpadding (update + finalize)',
                      where=fi.where, expected='unpadder.update(unwrapped) + unpadder.finalize()', found=r2, scenario=scen)
