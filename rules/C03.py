"""C03 - Encryption round-trips and conforms to RFC 4880 / RFC 6637 in both directions (layouts and sibling agreement).

  C03.1 PKESK m-value = alg || key || 2-octet (sum mod 65536)  (RFC 4880 5.1); decrypt_sk reads the same three fields in order
  C03.2 SEIPD plaintext = IV || IV[-2:] || data || MDC packet, MDC = SHA-1(IV || IV[-2:] || data || d3 14), MDC header = d3 14
  C03.3 SKESK: ct = CFB(alg || key) under the S2K key; reader takes octet 0 as cipher, rest as key; S2K codec offset
  C03.4 _encrypt / _decrypt build the same cipher, CFB mode and zero IV of block_size // 8 octets
  C03.5 RFC 6637 KDF parameter block and ConcatKDF arguments; encrypt/decrypt pass the same roles; pad/unpad, wrap/unwrap pair up
  C03.6 every compression algorithm has inverse compress / decompress arms
  C03.7 operation wiring: one cipher and one session key reach the ESK packet and the container (with C13.2)
  C03.8 consumers of the heterogeneous session-key list filter by packet class before touching class-specific fields

All rules read interpreter VALUES: parameters are bound by position to role names (sa/taint.run_roles), locally constructed objects
are named after their class, byte terms are compared in normal form, integer expressions by folding at sample points.  No rule
compares source text, local names or statement shapes.
"""
import ast

from sa.interp import Sym, Const, Bytes, Obj, render, render_items, merge_consts, sl, lin_add
from sa.loader import AnalysisError
from sa.sigdata import enum_const
from sa import families, taint
from sa.taint import run_roles, norm_term, split_items, split_args, concat_parts, int_equiv, bind_call, call_text

KEYSUM = 'sum(symkey)'
CT_ENCRYPT = ('self.ct.encrypt', 'type(self.ct).encrypt', 'self.ct.__class__.encrypt')        # encrypt is a classmethod of the ciphertext class
BITS = [64, 128, 192, 256]


def run(rep, prog, tier):
    rep.rule('C03.1', 'PKESK m-value layout and reader order (RFC 4880 5.1)', floor=4)
    rep.rule('C03.2', 'SEIPD plaintext and MDC layout (RFC 4880 5.13 / 5.14)', floor=5)
    rep.rule('C03.3', 'SKESK session-key plaintext layout and reader (RFC 4880 5.3)', floor=4)
    rep.rule('C03.4', '_encrypt/_decrypt sibling agreement: cipher, CFB, zero IV', floor=3)
    rep.rule('C03.5', 'ECDH KDF parameter block (RFC 6637 7-8), KDF arguments, pad/wrap pairing', floor=8)
    rep.rule('C03.6', 'compress/decompress arms are inverse pairs for every algorithm', floor=4)
    rep.rule('C03.7', 'one cipher and one session key reach both the ESK packet and the container', floor=4)
    rep.rule('C03.8', 'session-key list consumers filter by class', floor=3)
    rep.rule('C03.9', 'packet length codec of encrypted (also streamed, partial-length) messages: the C09 partial-length rule under this id', floor=1)
    rep.assume('cryptography CFB / RSA PKCS#1 v1.5 / ECDH / AES key wrap / ConcatKDF and zlib/bz2 are correct (trusted base)')

    pkesk(rep, prog)
    seipd(rep, prog)
    skesk(rep, prog)
    symenc(rep, prog)
    ecdh(rep, prog)
    compression(rep, prog)
    families.check_operation_wiring(rep, prog, 'C03.7')
    families.check_readdressing(rep, prog, 'C03.7')
    families.check_candidate_search(rep, prog, 'C03.8')
    families.check_encrypters_current(rep, prog, 'C03.8')
    # encrypted messages of other implementations arrive as streams (partial body lengths): the header length codec decides whether
    # their containers are read whole - the C09 rule families for it, reported under C03.9
    from rules import C09
    px = _Relabel(rep, 'C03.9')
    B9 = C09.Bench(px, prog)
    C09.partial(px, prog, B9)
    # the passphrase packet is only interoperable if the S2K it carries is the RFC 4880 3.7.1 function (shared with C12.1 / C06.8)
    from rules import C12
    C12.check_derive_key(rep, prog, 'C03.3', 'C03.3')
    decrypt_wiring(rep, prog)
    families.check_sessionkey_consumers(rep, prog, 'C03.8')
    families.check_pkesk_selection(rep, prog, 'C03.8')


class _Relabel(object):
    """Re-labels the rule id of a shared rule family (same device as rules/C08.py)."""
    def __init__(self, rep, rid):
        self.rep, self.rid = rep, rid

    def __getattr__(self, k):
        return getattr(self.rep, k)

    def check(self, cond, rid, *a, **kw):
        return self.rep.check(cond, self.rid, *a, **kw)

    def violation(self, rid, *a, **kw):
        return self.rep.violation(self.rid, *a, **kw)

    def ok(self, rid, *a, **kw):
        return self.rep.ok(self.rid, *a, **kw)


def _events_order(s, first, second):
    """Does an event matching `first` precede every event matching `second` (and both exist)?"""
    i1 = [i for i, e in enumerate(s.events) if first(e)]
    i2 = [i for i, e in enumerate(s.events) if second(e)]
    return bool(i1) and bool(i2) and min(i1) < min(i2)


def _call(e, name):
    return e[0] == 'call' and e[1] == name


def _store(e, path):
    return e[0] == 'store' and e[1] == path


def _kw_sorted(text):
    """A rendered call with its keyword arguments in name order (keyword order is not part of the value)."""
    c = split_args(text)
    if c is None:
        return text
    pos = [a for a in c[1] if not taint.re.match(r'^[A-Za-z_][A-Za-z0-9_]*=', a)]
    kw = sorted(a for a in c[1] if taint.re.match(r'^[A-Za-z_][A-Za-z0-9_]*=', a))
    return '%s(%s)' % (c[0], ', '.join(pos + kw))


def decrypt_wiring(rep, prog):
    """Both decrypt operations hand the container exactly what decrypt_sk recovered: (key, cipher) = (R[1], R[0]) of ONE decrypt_sk result."""
    for cls, roles, subject in (('PGPMessage', ('self', 'passphrase'), 'self'), ('PGPKey', ('self', 'message'), 'message')):
        fi = prog.method('pgpy.pgp', cls, 'decrypt')
        rep.saw(fn=fi)
        seen = 0
        for s in run_roles(prog, fi, roles, bind={'self.is_encrypted': Const(True), 'message.is_encrypted': Const(True)}):
            dsk = [c for c in s.calls if c[0].endswith('.decrypt_sk')]
            dec = [c for c in s.calls if c[0] == '%s.message.decrypt' % subject]
            if s.raised or (not dsk and not dec):
                continue
            seen += 1
            R = [call_text(c) for c in dsk]
            names = prog.method('pgpy.packet.packets', 'IntegrityProtectedSKEDataV1', 'decrypt').params[1:3]      # (key, alg)
            da = bind_call(dec[0], names) if len(dec) == 1 else {}
            ok = len(dec) == 1 and ((set(da) == set(names) and len(names) == 2 and
                                     any([da[names[0]], da[names[1]]] == ['%s[1]' % r, '%s[0]' % r] for r in R)) or
                                    (not dec[0][2] and any(dec[0][1] in (['*reversed(%s)' % r], ['*%s[::-1]' % r]) for r in R)))
            rep.check(ok, 'C03.7', '%s.decrypt' % cls, 'container.decrypt(%s)' % (', '.join(dec[0][1])[:120] if dec else None),
                      'the container must be decrypted with the session key and the cipher that decrypt_sk recovered (in that order)',
                      where=fi.where, expected='message.decrypt(R[1], R[0]) with R = <esk>.decrypt_sk(...)', found=dec[0][1] if dec else None)
        if not seen:
            raise AnalysisError('%s.decrypt: no path that recovers a session key' % cls)


# ------------------------------------------------------------------------------------------------ C03.1
def m_value_ok(text):
    """cipher id (1 octet) || session key || INT(2; sum(key) mod 65536) - the checksum expression is folded, not compared."""
    its = split_items(text)
    if len(its) != 3 or its[0] != 'BYTE(symalg)' or its[1] != 'symkey':
        return False
    if not (its[2].startswith('INT(2;') and its[2].endswith(')')):
        return False
    chk = its[2][len('INT(2;'):-1].replace('functools.reduce(operator.add, symkey, 0)', KEYSUM).replace('functools.reduce(operator.add, symkey)', KEYSUM)
    return int_equiv(chk, lambda S: S % 65536, {KEYSUM: ('S', [0, 1, 255, 65535, 65536, 65537, 131071, 200000, 16711680])}) is True


def pkesk(rep, prog):
    fi = prog.method('pgpy.packet.packets', 'PKESessionKeyV3', 'encrypt_sk')
    rep.saw(fn=fi)
    W = 'PKESessionKeyV3.encrypt_sk'
    for alg in ('RSAEncryptOrSign', 'ECDH'):
        outs = run_roles(prog, fi, ('self', 'pk', 'symalg', 'symkey'), bind={'self.pkalg': enum_const(prog, 'PubKeyAlgorithm', alg)})
        rep.analysed['paths'] += len(outs)
        for s in outs:
            enc = [c for c in s.calls if c[0] in CT_ENCRYPT]
            if len(enc) != 1:
                rep.violation('C03.1', W, '%s: %d encrypt calls' % (alg, len(enc)), 'expected one public-key encryption', where=fi.where, scenario=alg)
                continue
            a = list(enc[0][1])
            mv = norm_term(a[1]) if len(a) > 1 else None
            exp = 'INT(1;symalg) symkey INT(2;(sum(symkey) % 65536))'
            rep.check(mv is not None and m_value_ok(mv), 'C03.1', W, '%s: m = %s' % (alg, mv),
                      'the value encrypted must be cipher id || session key || two-octet checksum (RFC 4880 5.1)', where=fi.where,
                      expected=exp, found=mv, scenario=alg)
            if alg == 'RSAEncryptOrSign':
                rep.check(a[0] == 'pk.keymaterial.__pubkey__().encrypt' and a[2:] == ['padding.PKCS1v15()'] and not enc[0][2], 'C03.1', W,
                          'RSA: %s' % a[0], 'RSA must encrypt with the recipient public key under PKCS#1 v1.5', where=fi.where, scenario=alg,
                          found=a[:1] + a[2:])
            else:
                rep.check(a[0] == 'pk' and len(a) == 2 and not enc[0][2], 'C03.1', W, 'ECDH: %s' % a[0],
                          'ECDH must wrap the m-value for the recipient key itself', where=fi.where, scenario=alg, found=a[:1] + a[2:])
            stores = [v for p, v, l, _ in s.stores if p == 'self.ct']
            rep.check(stores == [call_text(enc[0])] or stores == ['self.ct.encrypt(%s)' % ', '.join(enc[0][1])], 'C03.1', W,
                      '%s: self.ct = %s' % (alg, stores[0][:60] if stores else None), 'the packet must carry the result of the encryption',
                      where=fi.where, scenario=alg)
            rep.check(_events_order(s, lambda e: _store(e, 'self.ct'), lambda e: _call(e, 'self.update_hlen')), 'C03.1', W, '%s: update_hlen' % alg,
                      'the header length must be recomputed after the ciphertext is set', where=fi.where, scenario=alg)
    # RSA decrypt side: the ciphertext integer is left-padded to the modulus size
    fd = prog.method('pgpy.packet.packets', 'PKESessionKeyV3', 'decrypt_sk')
    rep.saw(fn=fd)
    CT = sl('self.ct.me_mod_n.to_mpibytes()', (2, ''))
    KS = 'pk.keymaterial.__privkey__().key_size'
    seen = False
    for s in run_roles(prog, fd, ('self', 'pk'), bind={'self.pkalg': enum_const(prog, 'PubKeyAlgorithm', 'RSAEncryptOrSign')}):
        dec = [c for c in s.calls if c[0] == 'self.ct.decrypt']
        if not dec:
            continue
        seen = True
        a = list(dec[0][1])
        its = split_items(a[1]) if len(a) > 1 else []
        pad_ok = False
        if len(its) == 2 and its[1] == CT and its[0].startswith('REP(C(00);') and its[0].endswith(')'):
            n = its[0][len('REP(C(00);'):-1]
            pad_ok = int_equiv(n, lambda K, L: K // 8 - L, {KS: ('K', [1024, 2048, 3072, 4096]), 'len(%s)' % CT: ('L', [0, 127, 128, 256, 512])}) is True
        elif len(its) == 1:
            r = split_args(its[0])          # <ct>.rjust(<modulus octets>, b'\0')
            pad_ok = r is not None and r[0] == CT + '.rjust' and len(r[1]) == 2 and r[1][1] == 'C(00)' and \
                int_equiv(r[1][0], lambda K: K // 8, {KS: ('K', [1024, 2048, 3072, 4096])}) is True
        rep.check(a[0] == 'pk.keymaterial.__privkey__().decrypt' and pad_ok and a[2:] == ['padding.PKCS1v15()'], 'C03.1', 'PKESessionKeyV3.decrypt_sk',
                  'RSA decrypt args %s' % ', '.join(a)[:100], 'RSA must decrypt the MPI octets left-padded to the modulus size under PKCS#1 v1.5',
                  where=fd.where, expected='(privkey.decrypt, 00 * (key_size // 8 - len(ct)) || ct, PKCS1v15)', found=a)
        break
    if not seen:
        raise AnalysisError('PKESessionKeyV3.decrypt_sk: no self.ct.decrypt call on the RSA arm')
    # reader layout: octet 0 is the cipher, the next key_size // 8 octets are the key (the checksum guard itself belongs to C04)
    nret = 0
    for alg in ('RSAEncryptOrSign', 'ECDH'):
        for s in run_roles(prog, fd, ('self', 'pk'), bind={'self.pkalg': enum_const(prog, 'PubKeyAlgorithm', alg)}):
            dec = [c for c in s.calls if c[0] == 'self.ct.decrypt']
            if s.raised or len(dec) != 1 or s.ret is None:
                continue
            nret += 1
            M = call_text(dec[0])
            A = 'SymmetricKeyAlgorithm(%s[0])' % M
            r = render(s.ret)
            ok = False
            m2 = split_args('T' + r) if r.startswith('(') else None       # '(a, b)' -> the two components
            if m2 is not None and len(m2[1]) == 2 and m2[1][0] == A:
                sl_ = m2[1][1]
                head = 'SLICE(%s;1;' % M
                ok = sl_.startswith(head) and sl_.endswith(')') and \
                    int_equiv(sl_[len(head):-1], lambda K: K // 8 + 1, {A + '.key_size': ('K', BITS)}) is True
            rep.check(ok, 'C03.1', 'PKESessionKeyV3.decrypt_sk', '%s: return %s' % (alg, r.replace(M, 'M')[:120]),
                      'the reader must take octet 0 of m as the cipher and the following key_size // 8 octets as the session key (what encrypt_sk wrote)',
                      where=fd.where, expected='(SymmetricKeyAlgorithm(M[0]), M[1:1 + key_size // 8])', found=r.replace(M, 'M'), scenario=alg)
    if not nret:
        raise AnalysisError('PKESessionKeyV3.decrypt_sk: no returning path')
    # the ciphertext object the packet gets for each algorithm (pkalg setter): RSA -> RSACipherText, ECDH -> ECDHCipherText
    pc = prog.cls('pgpy.packet.packets', 'PKESessionKeyV3')
    pp = pc.find_prop('pkalg')
    setters = list(pp.setters.values()) if pp is not None else []
    if not setters:
        raise AnalysisError('PKESessionKeyV3.pkalg setter vanished')
    fs = setters[0]
    rep.saw(fn=fs)
    for alg, want in (('RSAEncryptOrSign', 'RSACipherText'), ('ECDH', 'ECDHCipherText')):
        got = set()
        outs = [s for s in run_roles(prog, fs, ('self', 'val'), args={'val': enum_const(prog, 'PubKeyAlgorithm', alg)}) if not s.raised]
        plain = [s for s in outs if not any(f[0].startswith('except ') for f in s.facts)]
        for s in (plain or outs):           # an `except KeyError:` arm around the table lookup is only entered when the lookup fails
            st = [(v, val) for p, v, l, val in s.stores if p == 'self.ct']
            got.add(st[-1][1].cls.name if st and isinstance(st[-1][1], Obj) and st[-1][1].cls is not None else (st[-1][0] if st else None))
        rep.check(got == {want}, 'C03.1', 'PKESessionKeyV3.pkalg', '%s -> %s' % (alg, sorted(map(str, got))),
                  'a session-key packet for %s must carry a %s (the class whose encrypt/decrypt pair is checked here)' % (alg, want),
                  where=fs.where, expected=want, found=sorted(map(str, got)), scenario=alg)
    # the packet body on the wire: 8-octet key id, algorithm octet, the ciphertext fields (RFC 4880 5.1)
    fb = prog.method('pgpy.packet.packets', 'PKESessionKeyV3', '__bytearray__')
    rep.saw(fn=fb)
    for s in run_roles(prog, fb, ('self',), inline=None, axioms={'(self.ct is not None)': True, '(self.ct is None)': False}):
        if s.raised:
            continue
        r = split_items(render(s.ret))
        kid = split_args(r[1]) if len(r) == 4 else None
        ok = len(r) == 4 and r[0] == 'self.header.__bytearray__()' and r[2] == 'BYTE(self.pkalg)' and r[3] == 'self.ct.__bytearray__()' and \
            kid is not None and kid[0] == 'binascii.unhexlify' and len(kid[1]) == 1 and \
            (kid[1][0] == 'self.encrypter' or (split_args(kid[1][0]) or ('',))[0] == 'self.encrypter.encode')
        rep.check(ok, 'C03.1', 'PKESessionKeyV3.__bytearray__', 'return %s' % ' '.join(r)[:160],
                  'the packet is header || the whole 8-octet recipient key id || algorithm octet || encrypted session key fields',
                  where=fb.where, expected='header unhexlify(encrypter) BYTE(pkalg) ct', found=r)
    # RSACipherText: C = MPI(big-endian integer of encfn(m, padding)); decrypt hands the same arguments to the private operation
    re_ = prog.method('pgpy.packet.fields', 'RSACipherText', 'encrypt')
    rd_ = prog.method('pgpy.packet.fields', 'RSACipherText', 'decrypt')
    rep.saw(fn=re_)
    rep.saw(fn=rd_)
    for s in run_roles(prog, re_, ('cls', 'encfn'), vararg=['m', 'pad']):
        if s.raised:
            continue
        st = [taint.expand_objs(s, v) for p, v, l, _ in s.stores if p.endswith('.me_mod_n')]
        c = split_args(st[0]) if len(st) == 1 else None
        inner = split_args(c[1][0]) if c is not None and c[0] == 'MPI' and len(c[1]) == 1 else None
        ok = inner is not None and ((inner[0].endswith('.bytes_to_int') and inner[1] == ['encfn(m, pad)']) or
                                    (inner[0] == 'int.from_bytes' and inner[1] in (['encfn(m, pad)', "'big'"], ['encfn(m, pad)', "byteorder='big'"])))
        r = render(s.ret)
        rep.check(ok and st and (r + '.me_mod_n') in [p for p, v, l, _ in s.stores], 'C03.1', 'RSACipherText.encrypt', 'me_mod_n = %s' % st,
                  'the RSA ciphertext is the big-endian integer of the public operation applied to (m, padding), returned in the new object',
                  where=re_.where, expected='MPI(bytes_to_int(encfn(m, pad)))', found=st)
    for s in run_roles(prog, rd_, ('self', 'decfn'), vararg=['c', 'pad']):
        if s.raised:
            continue
        r = render(s.ret)
        rep.check(r == 'decfn(c, pad)', 'C03.1', 'RSACipherText.decrypt', 'return %s' % r,
                  'RSA decryption returns exactly what the private operation yields for (ciphertext octets, padding)', where=rd_.where,
                  expected='decfn(c, pad)', found=r)


# ------------------------------------------------------------------------------------------------ C03.2
def seipd(rep, prog):
    fi = prog.method('pgpy.packet.packets', 'IntegrityProtectedSKEDataV1', 'encrypt')
    rep.saw(fn=fi)
    W = 'IntegrityProtectedSKEDataV1.encrypt'
    PREFIX = ['alg.gen_iv()', sl('alg.gen_iv()', (-2, '')), 'data']
    for s in run_roles(prog, fi, ('self', 'key', 'alg', 'data')):
        enc = taint.calls_named(s, '_encrypt')
        if len(enc) != 1:
            raise AnalysisError('IntegrityProtectedSKEDataV1.encrypt: expected one _encrypt call')
        a = list(enc[0][1]) + [None] * 3
        its = split_items(a[0])
        mdcs = [n for n in taint.objects(s) if taint.obj_of_class(s, n, 'MDC')]
        ser = ['%s.__bytes__()' % n for n in mdcs] + ['%s.__bytearray__()' % n for n in mdcs] + list(mdcs)     # bytes(mdc) renders as the object
        IV = taint.random_prefix(its, 'alg', 'data')
        PREFIX = its[:3] if IV is not None else PREFIX
        ok = len(mdcs) == 1 and IV is not None and len(its) == 4 and its[3] in ser and taint.n_draws(s) == 1
        rep.check(ok and a[1] == 'key' and a[2] == 'alg' and (a[3] in (None, 'None')) and not enc[0][2], 'C03.2', W, 'plaintext %s' % a[0],
                  'plaintext = random block || its last two octets || data || MDC packet, encrypted under (key, alg) with zero IV',
                  where=fi.where, expected=' '.join(PREFIX) + ' <MDC>.__bytes__()', found=enc[0][1])
        mdc = [norm_term(v) for p, v, l, _ in s.stores if p.endswith('.mdc') and p[:-4] in mdcs]
        H = 'HASH(sha1;%s C(d314))' % ' '.join(PREFIX)
        exp_mdc = 'binascii.hexlify(%s)' % H
        # hexlify(digest) and hexdigest().encode(<ascii-compatible>) are the same 40 octets
        same = len(mdc) == 1 and (mdc[0] == exp_mdc or (split_args(mdc[0]) or ('', []))[0] == 'hex(%s).encode' % H)
        rep.check(same, 'C03.2', W, 'mdc = %s' % mdc,
                  'the MDC is SHA-1 over prefix || data || d3 14 (RFC 4880 5.13)', where=fi.where, expected=exp_mdc, found=mdc)
        order = []
        for e in s.events:
            if e[0] == 'call' and e[1].split('.')[0] in mdcs and e[1].split('.')[-1] in ('update_hlen', '__bytes__', '__bytearray__'):
                order.append('update_hlen' if e[1].endswith('.update_hlen') else 'serialise')
            elif e[0] == 'call' and e[1] in ('bytes', 'bytearray') and len(e[2]) == 1 and e[2][0] in mdcs:
                order.append('serialise')
        rep.check(order == ['update_hlen', 'serialise'], 'C03.2', W, 'order %s' % order,
                  'the MDC packet header must be recomputed before it is serialised', where=fi.where)
        st = [v for p, v, l, _ in s.stores if p == 'self.ct']
        rep.check(st == [call_text(enc[0])] and _events_order(s, lambda e: _store(e, 'self.ct'), lambda e: _call(e, 'self.update_hlen')), 'C03.2', W,
                  'self.ct', 'packet carries the ciphertext and its header length is recomputed afterwards', where=fi.where)
    # decrypt is the inverse: same cipher call, the block_size // 8 + 2 prefix octets are dropped (the MDC / quick-check guards are C04's)
    fdec = prog.method('pgpy.packet.packets', 'IntegrityProtectedSKEDataV1', 'decrypt')
    rep.saw(fn=fdec)
    nret = 0
    for s in run_roles(prog, fdec, ('self', 'key', 'alg')):
        if s.raised or s.ret is None:
            continue
        nret += 1
        dcalls = taint.calls_named(s, '_decrypt')
        D = call_text(dcalls[0]) if len(dcalls) == 1 else None
        r = render(s.ret)
        ok = D is not None and (list(dcalls[0][1]) + [None])[:4] in (['self.ct', 'key', 'alg', None], ['self.ct', 'key', 'alg', 'None']) and not dcalls[0][2]
        head = 'SLICE(%s;' % D
        ok = ok and r.startswith(head) and r.endswith(';)') and \
            int_equiv(r[len(head):-2], lambda B: B // 8 + 2, {'alg.block_size': ('B', BITS)}) is True
        rep.check(ok, 'C03.2', 'IntegrityProtectedSKEDataV1.decrypt', 'return %s' % r[:120],
                  'decryption must undo encryption: CFB-decrypt under (key, alg) with zero IV and drop the block_size // 8 + 2 prefix octets',
                  where=fdec.where, expected='_decrypt(self.ct, key, alg)[block_size // 8 + 2:]', found=r)
    if not nret:
        raise AnalysisError('IntegrityProtectedSKEDataV1.decrypt: no returning path')
    # the MDC packet serialises as d3 14 || digest: tag 0x13, new format default, 20 octets < 192 -> one length octet
    mdc = prog.cls('pgpy.packet.packets', 'MDC')
    tid = mdc.attrs.get('__typeid__')
    try:
        tidv = ast.literal_eval(tid) if tid is not None else None
    except ValueError:
        tidv = None
    rep.check(tidv == 0x13, 'C03.2', 'MDC.__typeid__', '__typeid__ = %s' % tidv, 'the MDC packet tag is 19 (0x13)', where=mdc.where)
    mb = mdc.methods.get('__bytearray__')
    if mb is None:
        raise AnalysisError('MDC.__bytearray__ vanished')
    for s in run_roles(prog, mb, ('self',), inline=None):
        r = split_items(render(s.ret))
        rep.check(r == ['self.header.__bytearray__()', 'binascii.unhexlify(self.mdc)'], 'C03.2', 'MDC.__bytearray__', 'return %s' % ' '.join(r),
                  'the MDC packet is its header followed by the 20 digest octets', where=mb.where, found=r)
    hi = prog.method('pgpy.types', 'Header', '__init__')
    for s in run_roles(prog, hi, ('self',)):
        lf = [v for p, v, l, _ in s.stores if p == 'self._lenfmt']
        rep.check(lf == ['1'], 'C03.2', 'Header.__init__', '_lenfmt default %s' % lf, 'new packets must default to the new header format (0xC0 | tag)',
                  where=hi.where)
    hb = prog.method('pgpy.packet.types', 'Header', '__bytearray__')
    for s in run_roles(prog, hb, ('self',), inline=None, bind={'self._lenfmt': Const(1), 'self.tag': Const(0x13), 'self.length': Const(20)}):
        its = merge_consts(s.ret.items) if isinstance(s.ret, Bytes) else []
        r = render_items(its)
        # INT(1;211) = d3 ; length: first alternative of encode_length for 20 < 192 -> INT(1;20)
        ok = r.startswith('INT(1;211)') and ('INT(1;20)' in r)
        rep.check(ok, 'C03.2', 'Header.__bytearray__', 'tag 0x13, length 20 -> %s' % r[:80],
                  'a new-format header for tag 19 and length 20 must serialise as d3 14', where=hb.where,
                  expected='INT(1;211) INT(1;20)', found=r)


# ------------------------------------------------------------------------------------------------ C03.3
def skesk(rep, prog):
    fe = prog.method('pgpy.packet.packets', 'SKESessionKeyV4', 'encrypt_sk')
    fd = prog.method('pgpy.packet.packets', 'SKESessionKeyV4', 'decrypt_sk')
    rep.saw(fn=fe)
    rep.saw(fn=fd)
    ALG = 'self.s2k.encalg'             # the packet's cipher: the symalg property is read through (inline_props)
    KEK = 'self.s2k.derive_key(passphrase)'
    for s in run_roles(prog, fe, ('self', 'passphrase', 'sk'), inline_props={'symalg'}):
        enc = taint.calls_named(s, '_encrypt')
        a = (list(enc[0][1]) + [None] * 4)[:4] if len(enc) == 1 else [None] * 4
        ok = len(enc) == 1 and split_items(a[0]) == ['BYTE(%s)' % ALG, 'sk'] and a[1] == KEK and a[2] == ALG and a[3] in (None, 'None') and not enc[0][2]
        ct = [v for p, v, l, _ in s.stores if p == 'self.ct']
        rep.check(ok and ct == [call_text(enc[0])], 'C03.3', 'SKESessionKeyV4.encrypt_sk', 'ct = %s' % ct,
                  'the encrypted session key is CFB(cipher id || key) under the S2K-derived key with the packet\'s cipher (RFC 4880 5.3)',
                  where=fe.where, expected='_encrypt(INT(1;%s) sk, %s, %s)' % (ALG, KEK, ALG), found=ct)
        rep.check(_events_order(s, lambda e: _store(e, 'self.ct'), lambda e: _call(e, 'self.update_hlen')), 'C03.3', 'SKESessionKeyV4.encrypt_sk',
                  'update_hlen', 'header length recomputed after the ciphertext is set', where=fe.where)
    D = '_decrypt(self.ct, %s, %s)' % (KEK, ALG)
    for s in run_roles(prog, fd, ('self', 'passphrase'), inline_props={'symalg'}, axioms={'self.ct': True}):
        r = render(s.ret)
        exp = '(SymmetricKeyAlgorithm(%s[0]), %s)' % (D, sl(D, (1, '')))
        rep.check(r == exp, 'C03.3', 'SKESessionKeyV4.decrypt_sk', 'return %s' % r.replace(D, 'D'),
                  'the reader must take octet 0 as the cipher and the remaining octets as the key, from the same S2K key and cipher',
                  where=fd.where, expected=exp.replace(D, 'D'), found=r.replace(D, 'D'))
    for s in run_roles(prog, fd, ('self', 'passphrase'), inline_props={'symalg'}, axioms={'self.ct': False}):
        r = render(s.ret)
        rep.check(r == '(%s, %s)' % (ALG, KEK), 'C03.3', 'SKESessionKeyV4.decrypt_sk', 'no-ESK arm %s' % r,
                  'without an encrypted session key the S2K output is the session key', where=fd.where, found=r)
    # S2K specifier offset: writer drops the usage octet, reader re-inserts one
    cb = prog.method('pgpy.packet.packets', 'SKESessionKeyV4', '__bytearray__')
    for s in run_roles(prog, cb, ('self',), inline=None):
        r = split_items(render(s.ret))
        rep.check(r == ['self.header.__bytearray__()', sl('self.s2k.__bytearray__()', (1, '')), 'self.ct'], 'C03.3', 'SKESessionKeyV4.__bytearray__',
                  'return %s' % ' '.join(r), 'the packet body is cipher id, S2K specifier (without the usage octet), encrypted key', where=cb.where,
                  found=r)
    cp = prog.method('pgpy.packet.packets', 'SKESessionKeyV4', 'parse')
    rep.saw(fn=cp)
    for s in run_roles(prog, cp, ('self', 'packet'), forward_stores=False, model_del=False):
        if s.raised:
            continue
        ev = [e for e in s.events if e[0] in ('call', 'store', 'del')]
        ins = [i for i, e in enumerate(ev) if (_call(e, 'packet.insert') and e[2] == ['0', '255']) or
               (_store(e, sl('packet', ('', 0))) and norm_term(e[2]) == 'C(ff)')]          # packet.insert(0, 255) / packet[:0] = b'\xff'
        s2k = [i for i, e in enumerate(ev) if _call(e, 'self.s2k.parse') and
               ((e[2] == ['packet'] and e[3] == {'iv': 'False'}) or (e[2] == ['packet', 'False'] and not e[3]))]
        take = sl('packet', ('', lin_add('self.header.length', 'len(self.s2k)', -1)))
        ct = [i for i, e in enumerate(ev) if _store(e, 'self.ct') and e[2] == take]
        n_ = lin_add('self.header.length', 'len(self.s2k)', -1)
        dl = [i for i, e in enumerate(ev) if (e[0] == 'del' and e[1] == take) or (_store(e, take) and e[2] in ('C()', "''", '')) or
              (_store(e, sl('packet', ('', ''))) and e[2] == sl('packet', (n_, '')))]       # del b[:n] / b[:n] = b'' / b[:] = b[n:]
        lens = [i for i, e in enumerate(ev) if _call(e, 'len') and e[2] == ['self.s2k']] + \
            [i for i, e in enumerate(ev) if _call(e, 'self.s2k.__len__')]
        ok = len(ins) == 1 and len(s2k) == 1 and len(ct) == 1 and len(dl) == 1 and ins[0] < s2k[0] < ct[0] <= dl[0] + 1 and \
            bool(lens) and all(i > s2k[0] for i in lens)      # the specifier's length is only known once it has been parsed
        rep.check(ok, 'C03.3', 'SKESessionKeyV4.parse', 'usage octet re-inserted, no IV, remainder = header.length - len(s2k)',
                  'the reader must mirror the writer: one synthetic usage octet stands in for the version octet', where=cp.where,
                  expected='packet.insert(0, 255); s2k.parse(packet, iv=False); ct = packet[:header.length - len(s2k)] (consumed)',
                  found=[(e[0], e[1], e[2]) for e in ev if e[0] != 'call' or e[1] in ('packet.insert', 'self.s2k.parse')])


# ------------------------------------------------------------------------------------------------ C03.4
def symenc(rep, prog):
    fe = prog.function('pgpy.symenc', '_encrypt')
    fd = prog.function('pgpy.symenc', '_decrypt')
    for f, kind, arg in ((fe, 'encryptor', 'pt'), (fd, 'decryptor', 'ct')):
        rep.saw(fn=f)
        name = '_encrypt' if kind == 'encryptor' else '_decrypt'
        for ivgiven in (False, True):
            scen = 'iv %s' % ('given' if ivgiven else 'default')
            outs = run_roles(prog, f, (arg, 'key', 'alg', 'iv'), args={'iv': Sym('iv', nonnull=True) if ivgiven else Const(None)},
                             axioms={'alg.is_insecure': False, 'not alg.is_supported': False, 'alg.is_supported': True})
            rets = [s for s in outs if s.raised is None]
            ok = len(rets) == 1
            found = [render(s.ret) for s in rets]
            if ok:
                s = rets[0]
                ctor = taint.calls_named(s, 'Cipher')
                ca = bind_call(ctor[0], ['algorithm', 'mode', 'backend']) if len(ctor) == 1 else {}
                ok = len(ctor) == 1 and set(ca) == {'algorithm', 'mode', 'backend'} and ca['algorithm'] == 'alg.cipher(key)' and \
                    ca['backend'] == 'default_backend()'
                mcall = [c for c in s.calls if c[0] == 'modes.CFB' and call_text(c) == ca.get('mode')]
                ok = ok and len(mcall) == 1
                ma = bind_call(mcall[0], ['initialization_vector']) if ok else {}
                ok = ok and set(ma) == {'initialization_vector'}
                if ok and ivgiven:
                    ok = ma['initialization_vector'] == 'iv'
                elif ok:
                    z = taint.zero_octets(ma['initialization_vector'])
                    ok = z is not None and int_equiv(z, lambda B: B // 8, {'alg.block_size': ('B', BITS)}) is True
                if ok:
                    Cc = '%s.%s()' % (call_text(ctor[0]), kind)
                    ok = concat_parts(render(s.ret)) == ['%s.update(%s)' % (Cc, arg), '%s.finalize()' % Cc]
                    found = [render(s.ret).replace(Cc, 'CIPHER')]
            rep.check(ok, 'C03.4', name, '%s: %s' % (scen, [x[:120] for x in found]),
                      'both directions must use the same cipher construction, CFB mode and an all-zero IV of block_size // 8 octets by default',
                      where=f.where, expected='CIPHER.update(%s) + CIPHER.finalize(), CIPHER = Cipher(alg.cipher(key), modes.CFB(%s), default_backend()).%s()'
                      % (arg, 'iv' if ivgiven else '00 * (alg.block_size // 8)', kind), found=found, scenario=scen)
    families.check_cipher_tables(rep, prog, 'C03.4')


# ------------------------------------------------------------------------------------------------ C03.5
def _kdf_args(call):
    """ConcatKDFHash(algorithm, length, otherinfo, backend) however the arguments were passed."""
    names = ['algorithm', 'length', 'otherinfo', 'backend']
    got = dict(zip(names, call[1]))
    got.update(call[2])
    return got


def ecdh(rep, prog):
    fk = prog.method('pgpy.packet.fields', 'ECKDF', 'derive_key')
    rep.saw(fn=fk)
    for s in run_roles(prog, fk, ('self', 's', 'curve', 'pkalg', 'fingerprint')):
        kd = taint.calls_named(s, 'ConcatKDFHash')
        if len(kd) != 1:
            raise AnalysisError('ECKDF.derive_key: expected one ConcatKDFHash construction')
        kw = _kdf_args(kd[0])
        exp_info = [sl('encoder.encode(curve.value)', (1, '')), 'BYTE(pkalg)', 'C(0301)', 'BYTE(self.halg)', 'BYTE(self.encalg)',
                    'C(416e6f6e796d6f75732053656e64657220202020)', "binascii.unhexlify(fingerprint.replace(' ', ''))"]
        info = [x.replace("''.join(fingerprint.split(' '))", "fingerprint.replace(' ', '')") for x in split_items(kw.get('otherinfo'))]
        rep.check(info == exp_info, 'C03.5', 'ECKDF.derive_key', 'Param = %s' % ' '.join(info),
                  'KDF parameter block must be OID-len||OID || alg id || 03 01 || KDF hash || KEK alg || "Anonymous Sender    " || fingerprint '
                  '(RFC 6637 section 8)', where=fk.where, expected=' '.join(exp_info), found=' '.join(info))
        rep.check(kw.get('algorithm') == 'getattr(hashes, self.halg.name)()', 'C03.5', 'ECKDF.derive_key', 'hash %s' % kw.get('algorithm'),
                  'the KDF hash must be the one declared in the key\'s KDF parameters', where=fk.where, found=kw.get('algorithm'))
        rep.check(int_equiv(kw.get('length'), lambda K: K // 8, {'self.encalg.key_size': ('K', BITS)}) is True, 'C03.5', 'ECKDF.derive_key',
                  'length %s' % kw.get('length'), 'the derived KEK length must be the key size of the KEK algorithm declared in the key',
                  where=fk.where, expected='(self.encalg.key_size // 8)', found=kw.get('length'))
        r = split_args(render(s.ret))
        rep.check(r is not None and r[0].endswith('.derive') and r[0].startswith('ConcatKDFHash(') and r[1] == ['s'], 'C03.5', 'ECKDF.derive_key',
                  'derive(s)', 'the KDF input is the shared secret', where=fk.where, found=render(s.ret)[-40:])
    # both directions pass the same roles
    fe = prog.method('pgpy.packet.fields', 'ECDHCipherText', 'encrypt')
    fd = prog.method('pgpy.packet.fields', 'ECDHCipherText', 'decrypt')
    for f, which in ((fe, 'encrypt'), (fd, 'decrypt')):
        rep.saw(fn=f)
        for s in run_roles(prog, f, ('self', 'pk'), vararg=['m']):
            if s.raised:
                continue
            dk = [c for c in s.calls if c[0].endswith('.derive_key')]
            scen = '%s; %s' % (which, '; '.join('%s=%s' % (x[0], x[1]) for x in s.facts))
            da = bind_call(dk[0], ['s', 'curve', 'pkalg', 'fingerprint']) if len(dk) == 1 else {}
            ok = len(dk) == 1 and dk[0][0] == 'pk.keymaterial.kdf.derive_key' and set(da) == {'s', 'curve', 'pkalg', 'fingerprint'} and \
                [da['curve'], da['pkalg'], da['fingerprint']] == ['pk.keymaterial.oid', 'PubKeyAlgorithm.ECDH', 'pk.fingerprint'] and \
                (split_args(da['s']) or ('',))[0].endswith('.exchange')
            rep.check(ok, 'C03.5', 'ECDHCipherText.%s' % which, 'derive_key(%s)' % (da or None),
                      'both directions must derive the KEK from (shared secret, recipient curve, ECDH id, recipient fingerprint) '
                      'with the recipient key\'s own KDF parameters', where=f.where, scenario=scen)
            pad = taint.calls_named(s, 'PKCS7')
            rep.check(len(pad) == 1 and bind_call(pad[0], ['block_size']) == {'block_size': '64'}, 'C03.5',
                      'ECDHCipherText.%s' % which, 'PKCS7(%s)' % (pad[0][1] if pad else None),
                      'the m-value is PKCS#5 padded to a multiple of 8 octets', where=f.where, scenario=scen)
            P = call_text(pad[0]) if pad else 'PKCS7(64)'
            KEK = call_text(dk[0]) if dk else '?'
            if which == 'encrypt':
                w = taint.calls_named(s, 'aes_key_wrap')
                ok = len(w) == 1 and len(w[0][1]) >= 2 and \
                    concat_parts(w[0][1][1]) == ['%s.padder().update(m)' % P, '%s.padder().finalize()' % P] and \
                    w[0][1][0] == KEK
                rep.check(ok, 'C03.5', 'ECDHCipherText.encrypt', 'aes_key_wrap(kek, padded m)', 'C = AESKeyWrap(Z, padded m)', where=f.where,
                          scenario=scen, found=w[0][1][1] if w else None)
                pst = [split_args(taint.expand_objs(s, v)) for p, v, l, _ in s.stores if p.endswith('.p')]
                x25519 = any(c[0].endswith('X25519PrivateKey.generate') for c in s.calls)
                exch = [c for c in s.calls if c[0].endswith('.exchange')]
                EPH = exch[0][0][:-len('.exchange')] if len(exch) == 1 else '?'
                if x25519:
                    coords = ['%s.public_key().public_bytes(encoding=serialization.Encoding.Raw, format=serialization.PublicFormat.Raw)' % EPH]
                    alt = ['%s.public_key().public_bytes(serialization.Encoding.Raw, serialization.PublicFormat.Raw)' % EPH]
                else:
                    coords = ['MPI(%s.public_key().public_numbers().%s)' % (EPH, a) for a in 'xy']
                    alt = coords
                ok = len(pst) == 1 and pst[0] is not None and pst[0][0] == 'ECPoint.from_values' and len(pst[0][1]) == (3 if x25519 else 4) and \
                    pst[0][1][0] == 'pk.keymaterial.oid.key_size' and pst[0][1][1] == ('ECPointFormat.Native' if x25519 else 'ECPointFormat.Standard') and \
                    [_kw_sorted(x) for x in pst[0][1][2:]] in ([_kw_sorted(x) for x in coords], alt)
                ret = render(s.ret) if s.ret is not None else None
                onret = sorted(p for p, v, l, _ in s.stores if p.endswith('.p') or p.endswith('.c')) == sorted(['%s.c' % ret, '%s.p' % ret])
                rep.check(onret, 'C03.5', 'ECDHCipherText.encrypt', 'C and the point are set on the object returned (%s)' % ret,
                          'the ciphertext object handed back must be the one that carries the ephemeral point and C', where=f.where, scenario=scen,
                          found=[p for p, v, l, _ in s.stores])
                rep.check(ok, 'C03.5', 'ECDHCipherText.encrypt', 'ct.p = %s(%s)' % ((pst[0][0], ', '.join(pst[0][1][:2])) if pst and pst[0] else (None, '')),
                          'the ephemeral point is encoded for the recipient curve: its bit length, native format for Curve25519 and the '
                          'uncompressed standard format otherwise, from the x (and y) of the ephemeral public key in that order', where=f.where,
                          scenario=scen, found=pst[0] if pst else None)
                cst = [v for p, v, l, _ in s.stores if p.endswith('.c')]
                rep.check(len(w) == 1 and cst == [call_text(w[0])], 'C03.5', 'ECDHCipherText.encrypt', 'ct.c', 'the packet carries C',
                          where=f.where, scenario=scen)
            else:
                exch = [c for c in s.calls if c[0] == 'pk.keymaterial.__privkey__().exchange']
                peer = exch[0][1][-1] if len(exch) == 1 and exch[0][1] else ''
                pn = taint.calls_named(s, 'EllipticCurvePublicNumbers')
                if pn:
                    pa = bind_call(pn[0], ['x', 'y', 'curve'])
                    okp = len(pn) == 1 and pa == {'x': 'self.p.x', 'y': 'self.p.y', 'curve': 'pk.keymaterial.oid.curve()'} and \
                        peer in ('%s.public_key(default_backend())' % call_text(pn[0]), '%s.public_key()' % call_text(pn[0])) and \
                        exch[0][1][:-1] == ['ec.ECDH()']
                else:
                    okp = peer == 'x25519.X25519PublicKey.from_public_bytes(self.p.x)' and len(exch[0][1]) == 1
                rep.check(okp, 'C03.5', 'ECDHCipherText.decrypt', 'peer point %s' % peer[:100],
                          'the shared secret is computed with the ephemeral point of the packet: (x, y) on the recipient curve, or the native x for '
                          'Curve25519, under the recipient private key', where=f.where, scenario=scen, found=exch[0][1] if exch else None)
                w = taint.calls_named(s, 'aes_key_unwrap')
                ok = len(w) == 1 and len(w[0][1]) >= 2 and w[0][1][1] == 'self.c' and w[0][1][0] == KEK
                U = 'aes_key_unwrap(%s)' % ', '.join(w[0][1]) if w else ''
                ok = ok and concat_parts(render(s.ret)) == ['%s.unpadder().update(%s)' % (P, U), '%s.unpadder().finalize()' % P]
                rep.check(ok, 'C03.5', 'ECDHCipherText.decrypt', 'unpad(aes_key_unwrap(kek, C))', 'm = unpad(AESKeyUnwrap(Z, C)) - the inverse of encrypt',
                          where=f.where, scenario=scen, found=render(s.ret)[:200])
    # ECDH ciphertext codec: MPI(point) || len(C) || C
    cb = prog.method('pgpy.packet.fields', 'ECDHCipherText', '__bytearray__')
    for s in run_roles(prog, cb, ('self',)):
        r = split_items(render(s.ret))
        rep.check(r == ['self.p.to_mpibytes()', 'BYTE(len(self.c))', 'self.c'], 'C03.5',
                  'ECDHCipherText.__bytearray__', 'return %s' % ' '.join(r),
                  'ECDH session key = MPI(ephemeral point) || one-octet length of C || C (RFC 6637 section 8)', where=cb.where, found=r)


# ------------------------------------------------------------------------------------------------ C03.6
def compression(rep, prog):
    ci = prog.cls('pgpy.constants', 'CompressionAlgorithm')
    Z = 'zlib.compress(data)'
    table = {  # member -> (compress, decompress) inverse pairs (RFC 4880 9.3: ZIP = raw DEFLATE, ZLIB = RFC 1950, BZ2)
        'Uncompressed': ('data', 'data'),
        'ZIP': (sl(Z, (2, -4)), 'zlib.decompress(data, -15)'),
        'ZLIB': (Z, 'zlib.decompress(data)'),
        'BZ2': ('bz2.compress(data)', 'bz2.decompress(data)'),
    }
    mem = ci.enum_members()
    rep.check({k: mem.get(k) for k in table} == {'Uncompressed': 0, 'ZIP': 1, 'ZLIB': 2, 'BZ2': 3}, 'C03.6', 'CompressionAlgorithm', 'ids',
              'compression ids must be the RFC 4880 9.3 values', where=ci.where, found=mem)
    for m in mem:
        if m not in table:
            rep.violation('C03.6', 'CompressionAlgorithm', 'member %s' % m, 'a compression algorithm without a reviewed inverse pair', where=ci.where)
    for name, idx in (('compress', 0), ('decompress', 1)):
        f = ci.methods.get(name)
        if f is None:
            raise AnalysisError('CompressionAlgorithm.%s vanished' % name)
        rep.saw(fn=f)
        for m, pair in table.items():
            outs = run_roles(prog, f, ('self', 'data'), args={'self': enum_const(prog, 'CompressionAlgorithm', m)})
            rets = sorted(set(norm_term(taint.qualify_imports(render(s.ret), f.module)).replace(', wbits=', ', ').replace('-zlib.MAX_WBITS', '-15')
                              for s in outs if s.raised is None))      # zlib.decompress(data, wbits=-15); zlib.MAX_WBITS is 15
            rep.check(rets == [pair[idx]], 'C03.6', 'CompressionAlgorithm.%s' % name, '%s -> %s' % (m, rets),
                      '%s arm of %s must be the inverse of its sibling' % (name, m), where=f.where, expected=pair[idx], found=rets, scenario=m)
