"""C03 - Encryption round-trips and conforms to RFC 4880 / RFC 6637 in both directions (layouts and sibling agreement).

  C03.1 PKESK m-value = alg || key || 2-octet (sum mod 65536)  (RFC 4880 5.1); decrypt_sk reads the same three fields in order
  C03.2 SEIPD plaintext = IV || IV[-2:] || data || MDC packet, MDC = SHA-1(IV || IV[-2:] || data || d3 14), MDC header = d3 14
  C03.3 SKESK: ct = CFB(alg || key) under the S2K key; reader takes octet 0 as cipher, rest as key; S2K codec offset
  C03.4 _encrypt / _decrypt build the same cipher, CFB mode and zero IV of block_size // 8 octets
  C03.5 RFC 6637 KDF parameter block and ConcatKDF arguments; encrypt/decrypt pass the same roles; pad/unpad, wrap/unwrap pair up
  C03.6 every compression algorithm has inverse compress / decompress arms
  C03.7 operation wiring: one cipher and one session key reach the ESK packet and the container (with C13.2)
  C03.8 consumers of the heterogeneous session-key list filter by packet class before touching class-specific fields
"""
import ast
import re

from sa.interp import Interp, Scenario, Sym, Const, Bytes, Enum, render, render_items, merge_consts, render_item
from sa.loader import AnalysisError, dotted
from sa.templates import C, INT, SYM, BYTE, Pred, match
from sa.sigdata import enum_const
from sa import s2kshape, families

noinline = lambda f: False  # noqa: E731


def run(rep, prog, tier):
    rep.rule('C03.1', 'PKESK m-value layout and reader order (RFC 4880 5.1)', floor=4)
    rep.rule('C03.2', 'SEIPD plaintext and MDC layout (RFC 4880 5.13 / 5.14)', floor=5)
    rep.rule('C03.3', 'SKESK session-key plaintext layout and reader (RFC 4880 5.3)', floor=4)
    rep.rule('C03.4', '_encrypt/_decrypt sibling agreement: cipher, CFB, zero IV', floor=3)
    rep.rule('C03.5', 'ECDH KDF parameter block (RFC 6637 7-8), KDF arguments, pad/wrap pairing', floor=8)
    rep.rule('C03.6', 'compress/decompress arms are inverse pairs for every algorithm', floor=4)
    rep.rule('C03.7', 'one cipher and one session key reach both the ESK packet and the container', floor=4)
    rep.rule('C03.8', 'session-key list consumers filter by class', floor=3)
    rep.assume('cryptography CFB / RSA PKCS#1 v1.5 / ECDH / AES key wrap / ConcatKDF and zlib/bz2 are correct (trusted base)')

    pkesk(rep, prog)
    seipd(rep, prog)
    skesk(rep, prog)
    symenc(rep, prog)
    ecdh(rep, prog)
    compression(rep, prog)
    families.check_operation_wiring(rep, prog, 'C03.7')
    families.check_sessionkey_consumers(rep, prog, 'C03.8')
    families.check_pkesk_selection(rep, prog, 'C03.8')


def pkesk(rep, prog):
    fi = prog.method('pgpy.packet.packets', 'PKESessionKeyV3', 'encrypt_sk')
    rep.saw(fn=fi)
    pk = prog.cls('pgpy.constants', 'PubKeyAlgorithm').enum_members()
    for alg in ('RSAEncryptOrSign', 'ECDH'):
        sc = Scenario(bind={'self.pkalg': Const(Enum('PubKeyAlgorithm', alg, pk[alg]))}, inline=noinline)
        outs = Interp(prog, sc).run(fi)
        rep.analysed['paths'] += len(outs)
        for s in outs:
            enc = [c for c in s.calls if c[0] == 'self.ct.encrypt']
            if len(enc) != 1:
                rep.violation('C03.1', 'PKESessionKeyV3.encrypt_sk', '%s: %d encrypt calls' % (alg, len(enc)), 'expected one public-key encryption',
                              where=fi.where, scenario=alg)
                continue
            a = enc[0][1]
            m = re.match(r'^\*\((.*?)(, padding\.PKCS1v15\(\))?\)$', a[1]) if len(a) > 1 else None
            mv = m.group(1) if m else None
            exp = 'INT(1;symalg) symkey INT(2;(sum(symkey) % 65536))'
            rep.check(mv == exp, 'C03.1', 'PKESessionKeyV3.encrypt_sk', '%s: m = %s' % (alg, mv),
                      'the value encrypted must be cipher id || session key || two-octet checksum (RFC 4880 5.1)', where=fi.where,
                      expected=exp, found=mv, scenario=alg)
            if alg == 'RSAEncryptOrSign':
                rep.check(a[0] == 'pk.keymaterial.__pubkey__().encrypt' and m is not None and m.group(2) is not None, 'C03.1',
                          'PKESessionKeyV3.encrypt_sk', 'RSA: %s' % a[0], 'RSA must encrypt with the recipient public key under PKCS#1 v1.5',
                          where=fi.where, scenario=alg)
            stores = [v for p, v, l, _ in s.stores if p == 'self.ct']
            rep.check(len(stores) == 1 and stores[0].startswith('self.ct.encrypt('), 'C03.1', 'PKESessionKeyV3.encrypt_sk',
                      '%s: self.ct = %s' % (alg, stores[0][:60] if stores else None), 'the packet must carry the result of the encryption',
                      where=fi.where, scenario=alg)
            rep.check(any(c[0] == 'self.update_hlen' for c in s.calls), 'C03.1', 'PKESessionKeyV3.encrypt_sk', '%s: update_hlen' % alg,
                      'the header length must be recomputed after the ciphertext is set', where=fi.where, scenario=alg)
    # RSA decrypt side: the ciphertext integer is left-padded to the modulus size
    fd = prog.method('pgpy.packet.packets', 'PKESessionKeyV3', 'decrypt_sk')
    sc = Scenario(bind={'self.pkalg': Const(Enum('PubKeyAlgorithm', 'RSAEncryptOrSign', pk['RSAEncryptOrSign']))}, inline=noinline)
    for s in Interp(prog, sc).run(fd):
        dec = [c for c in s.calls if c[0] == 'self.ct.decrypt']
        if dec:
            a = dec[0][1]
            exp = ('*(REP(C(00);((pk.keymaterial.__privkey__().key_size // 8) - len(SLICE(self.ct.me_mod_n.to_mpibytes();2;)))) '
                   'SLICE(self.ct.me_mod_n.to_mpibytes();2;), padding.PKCS1v15())')
            rep.check(a[0] == 'pk.keymaterial.__privkey__().decrypt' and a[1] == exp, 'C03.1', 'PKESessionKeyV3.decrypt_sk',
                      'RSA decrypt args %s' % a[1][:80], 'RSA must decrypt the MPI octets left-padded to the modulus size under PKCS#1 v1.5',
                      where=fd.where, expected=exp, found=a[1])
            break


def seipd(rep, prog):
    fi = prog.method('pgpy.packet.packets', 'IntegrityProtectedSKEDataV1', 'encrypt')
    rep.saw(fn=fi)
    outs = Interp(prog, Scenario(inline=noinline)).run(fi)
    for s in outs:
        enc = [c for c in s.calls if c[0] == '_encrypt']
        if len(enc) != 1:
            raise AnalysisError('IntegrityProtectedSKEDataV1.encrypt: expected one _encrypt call')
        pt = enc[0][1][0]
        exp_pt = 'alg.gen_iv() SLICE(alg.gen_iv();-2;) data mdc.__bytes__()'
        rep.check(pt == exp_pt and enc[0][1][1:] == ['key', 'alg'], 'C03.2', 'IntegrityProtectedSKEDataV1.encrypt', 'plaintext %s' % pt,
                  'plaintext = random block || its last two octets || data || MDC packet, encrypted under (key, alg) with zero IV',
                  where=fi.where, expected=exp_pt, found=pt)
        mdc = [v for p, v, l, _ in s.stores if p == 'mdc.mdc']
        exp_mdc = 'binascii.hexlify(HASH(sha1;alg.gen_iv() SLICE(alg.gen_iv();-2;) data C(d314)))'
        rep.check(mdc == [exp_mdc], 'C03.2', 'IntegrityProtectedSKEDataV1.encrypt', 'mdc = %s' % mdc,
                  'the MDC is SHA-1 over prefix || data || d3 14 (RFC 4880 5.13)', where=fi.where, expected=exp_mdc, found=mdc)
        order = [e[1] for e in s.events if e[0] == 'call' and e[1] in ('mdc.update_hlen', 'mdc.__bytes__')]
        rep.check(order == ['mdc.update_hlen', 'mdc.__bytes__'], 'C03.2', 'IntegrityProtectedSKEDataV1.encrypt', 'order %s' % order,
                  'the MDC packet header must be recomputed before it is serialised', where=fi.where)
        st = [v for p, v, l, _ in s.stores if p == 'self.ct']
        rep.check(len(st) == 1 and st[0].startswith('_encrypt('), 'C03.2', 'IntegrityProtectedSKEDataV1.encrypt', 'self.ct', 'packet carries the ciphertext',
                  where=fi.where)
    # the MDC packet serialises as d3 14 || digest: tag 0x13, new format default, 20 octets < 192 -> one length octet
    mdc = prog.cls('pgpy.packet.packets', 'MDC')
    tid = mdc.attrs.get('__typeid__')
    rep.check(tid is not None and ast.literal_eval(tid) == 0x13, 'C03.2', 'MDC.__typeid__', '__typeid__ = %s' % (ast.unparse(tid) if tid else None),
              'the MDC packet tag is 19 (0x13)', where=mdc.where)
    mb = mdc.methods.get('__bytearray__')
    for s in Interp(prog, Scenario()).run(mb):
        r = render(s.ret)
        rep.check(r == 'self.header.__bytearray__() binascii.unhexlify(self.mdc)', 'C03.2', 'MDC.__bytearray__', 'return %s' % r,
                  'the MDC packet is its header followed by the 20 digest octets', where=mb.where, found=r)
    hi = prog.method('pgpy.types', 'Header', '__init__')
    lf = [ast.literal_eval(n.value) for n in ast.walk(hi.node) if isinstance(n, ast.Assign) and
          ast.unparse(n.targets[0]) == 'self._lenfmt']
    rep.check(lf == [1], 'C03.2', 'Header.__init__', '_lenfmt default %s' % lf, 'new packets must default to the new header format (0xC0 | tag)',
              where=hi.where)
    hb = prog.method('pgpy.packet.types', 'Header', '__bytearray__')
    for s in Interp(prog, Scenario(bind={'self._lenfmt': Const(1), 'self.tag': Const(0x13), 'self.length': Const(20)})).run(hb):
        its = merge_consts(s.ret.items) if isinstance(s.ret, Bytes) else []
        r = render_items(its)
        # INT(1;211) = d3 ; length: first alternative of encode_length for 20 < 192 -> INT(1;20)
        ok = r.startswith('INT(1;211)') and ('INT(1;20)' in r)
        rep.check(ok, 'C03.2', 'Header.__bytearray__', 'tag 0x13, length 20 -> %s' % r[:80],
                  'a new-format header for tag 19 and length 20 must serialise as d3 14', where=hb.where,
                  expected='INT(1;211) INT(1;20)', found=r)


def skesk(rep, prog):
    fe = prog.method('pgpy.packet.packets', 'SKESessionKeyV4', 'encrypt_sk')
    fd = prog.method('pgpy.packet.packets', 'SKESessionKeyV4', 'decrypt_sk')
    rep.saw(fn=fe)
    rep.saw(fn=fd)
    for s in Interp(prog, Scenario(inline=noinline)).run(fe):
        ct = [v for p, v, l, _ in s.stores if p == 'self.ct']
        exp = '_encrypt(INT(1;self.symalg) sk, self.s2k.derive_key(passphrase), self.symalg)'
        rep.check(ct == [exp], 'C03.3', 'SKESessionKeyV4.encrypt_sk', 'ct = %s' % ct,
                  'the encrypted session key is CFB(cipher id || key) under the S2K-derived key with the packet\'s cipher (RFC 4880 5.3)',
                  where=fe.where, expected=exp, found=ct)
        rep.check(any(c[0] == 'self.update_hlen' for c in s.calls), 'C03.3', 'SKESessionKeyV4.encrypt_sk', 'update_hlen',
                  'header length recomputed after the ciphertext is set', where=fe.where)
    for s in Interp(prog, Scenario(inline=noinline, axioms={'self.ct': True})).run(fd):
        r = render(s.ret)
        D = '_decrypt(self.ct, self.s2k.derive_key(passphrase), self.symalg)'
        exp = '(SymmetricKeyAlgorithm(%s[0]), SLICE(%s;1;))' % (D, D)
        rep.check(r == exp, 'C03.3', 'SKESessionKeyV4.decrypt_sk', 'return %s' % r.replace(D, 'D'),
                  'the reader must take octet 0 as the cipher and the remaining octets as the key, from the same S2K key and cipher',
                  where=fd.where, expected=exp.replace(D, 'D'), found=r.replace(D, 'D'))
    for s in Interp(prog, Scenario(inline=noinline, axioms={'self.ct': False})).run(fd):
        r = render(s.ret)
        rep.check(r == '(self.symalg, self.s2k.derive_key(passphrase))', 'C03.3', 'SKESessionKeyV4.decrypt_sk', 'no-ESK arm %s' % r,
                  'without an encrypted session key the S2K output is the session key', where=fd.where, found=r)
    # S2K specifier offset: writer drops the usage octet, reader re-inserts one
    cb = prog.method('pgpy.packet.packets', 'SKESessionKeyV4', '__bytearray__')
    for s in Interp(prog, Scenario()).run(cb):
        r = render(s.ret)
        rep.check(r == 'self.header.__bytearray__() SLICE(self.s2k.__bytearray__();1;) self.ct', 'C03.3', 'SKESessionKeyV4.__bytearray__',
                  'return %s' % r, 'the packet body is cipher id, S2K specifier (without the usage octet), encrypted key', where=cb.where, found=r)
    cp = prog.method('pgpy.packet.packets', 'SKESessionKeyV4', 'parse')
    src = ast.unparse(cp.node)
    rep.check('packet.insert(0, 255)' in src and 'self.s2k.parse(packet, iv=False)' in src and 'self.header.length - len(self.s2k)' in src,
              'C03.3', 'SKESessionKeyV4.parse', 'usage octet re-inserted, no IV, remainder = header.length - len(s2k)',
              'the reader must mirror the writer: one synthetic usage octet stands in for the version octet', where=cp.where)


def symenc(rep, prog):
    fe = prog.function('pgpy.symenc', '_encrypt')
    fd = prog.function('pgpy.symenc', '_decrypt')
    res = {}
    for f, kind in ((fe, 'encryptor'), (fd, 'decryptor')):
        rep.saw(fn=f)
        for ivgiven in (False, True):
            sc = Scenario(inline=noinline, args={'iv': Sym('iv', nonnull=True) if ivgiven else Const(None)},
                          axioms={'alg.is_insecure': False, 'not alg.is_supported': False})
            rets = [render(s.ret) for s in Interp(prog, sc).run(f) if s.raised is None]
            res[(kind, ivgiven)] = rets
    for ivgiven in (False, True):
        IV = 'iv' if ivgiven else 'REP(C(00);(alg.block_size // 8))'
        for kind, arg in (('encryptor', 'pt'), ('decryptor', 'ct')):
            Cc = 'Cipher(alg.cipher(key), modes.CFB(%s), default_backend()).%s()' % (IV, kind)
            exp = '(%s.update(%s) + %s.finalize())' % (Cc, arg, Cc)
            got = res[(kind, ivgiven)]
            rep.check(got == [exp], 'C03.4', '_%s' % ('encrypt' if kind == 'encryptor' else 'decrypt'),
                      'iv %s: %s' % ('given' if ivgiven else 'default', [g.replace(Cc, 'CIPHER') for g in got]),
                      'both directions must use the same cipher construction, CFB mode and an all-zero IV of block_size // 8 octets by default',
                      where=(fe if kind == 'encryptor' else fd).where, expected=exp.replace(Cc, 'CIPHER'),
                      found=[g.replace(Cc, 'CIPHER') for g in got], scenario='iv %s' % ('given' if ivgiven else 'default'))
    families.check_cipher_tables(rep, prog, 'C03.4')


def ecdh(rep, prog):
    fk = prog.method('pgpy.packet.fields', 'ECKDF', 'derive_key')
    rep.saw(fn=fk)
    for s in Interp(prog, Scenario(inline=noinline)).run(fk):
        kd = [c for c in s.calls if c[0] == 'ConcatKDFHash']
        if len(kd) != 1:
            raise AnalysisError('ECKDF.derive_key: expected one ConcatKDFHash construction')
        kw = kd[0][2]
        exp_info = ("SLICE(encoder.encode(curve.value);1;) BYTE(pkalg) C(0301) BYTE(self.halg) BYTE(self.encalg) "
                    "C(416e6f6e796d6f75732053656e64657220202020) binascii.unhexlify(fingerprint.replace(' ', ''))")
        rep.check(kw.get('otherinfo') == exp_info, 'C03.5', 'ECKDF.derive_key', 'Param = %s' % kw.get('otherinfo'),
                  'KDF parameter block must be OID-len||OID || alg id || 03 01 || KDF hash || KEK alg || "Anonymous Sender    " || fingerprint '
                  '(RFC 6637 section 8)', where=fk.where, expected=exp_info, found=kw.get('otherinfo'))
        rep.check(kw.get('algorithm') == 'getattr(hashes, self.halg.name)()', 'C03.5', 'ECKDF.derive_key', 'hash %s' % kw.get('algorithm'),
                  'the KDF hash must be the one declared in the key\'s KDF parameters', where=fk.where, found=kw.get('algorithm'))
        rep.check(kw.get('length') == '(self.encalg.key_size // 8)', 'C03.5', 'ECKDF.derive_key', 'length %s' % kw.get('length'),
                  'the derived KEK length must be the key size of the KEK algorithm declared in the key', where=fk.where,
                  expected='(self.encalg.key_size // 8)', found=kw.get('length'))
        r = render(s.ret)
        rep.check(r.endswith('.derive(s)'), 'C03.5', 'ECKDF.derive_key', 'derive(s)', 'the KDF input is the shared secret', where=fk.where, found=r[-40:])
    # both directions pass the same roles
    fe = prog.method('pgpy.packet.fields', 'ECDHCipherText', 'encrypt')
    fd = prog.method('pgpy.packet.fields', 'ECDHCipherText', 'decrypt')
    for f, which in ((fe, 'encrypt'), (fd, 'decrypt')):
        rep.saw(fn=f)
        for s in Interp(prog, Scenario(inline=noinline)).run(f):
            dk = [c for c in s.calls if c[0].endswith('.kdf.derive_key')]
            scen = '%s; %s' % (which, '; '.join('%s=%s' % (x[0], x[1]) for x in s.facts))
            ok = len(dk) == 1 and dk[0][0] == 'pk.keymaterial.kdf.derive_key' and \
                dk[0][1][1:] == ['pk.keymaterial.oid', 'PubKeyAlgorithm.ECDH', 'pk.fingerprint'] and '.exchange(' in dk[0][1][0]
            rep.check(ok, 'C03.5', 'ECDHCipherText.%s' % which, 'derive_key(%s)' % (dk[0][1][1:] if dk else None),
                      'both directions must derive the KEK from (shared secret, recipient curve, ECDH id, recipient fingerprint) '
                      'with the recipient key\'s own KDF parameters', where=f.where, scenario=scen)
            pad = [c for c in s.calls if c[0] == 'PKCS7']
            rep.check(len(pad) == 1 and pad[0][1] == ['64'], 'C03.5', 'ECDHCipherText.%s' % which, 'PKCS7(%s)' % (pad[0][1] if pad else None),
                      'the m-value is PKCS#5 padded to a multiple of 8 octets', where=f.where, scenario=scen)
            if which == 'encrypt':
                w = [c for c in s.calls if c[0] == 'aes_key_wrap']
                ok = len(w) == 1 and w[0][1][1] == '(PKCS7(64).padder().update(*args[0]) + PKCS7(64).padder().finalize())' and \
                    w[0][1][0].startswith('pk.keymaterial.kdf.derive_key(')
                rep.check(ok, 'C03.5', 'ECDHCipherText.encrypt', 'aes_key_wrap(kek, padded m)', 'C = AESKeyWrap(Z, padded m)', where=f.where,
                          scenario=scen, found=w[0][1][1] if w else None)
                cst = [v for p, v, l, _ in s.stores if p.endswith('.c')]
                rep.check(len(cst) == 1 and cst[0].startswith('aes_key_wrap('), 'C03.5', 'ECDHCipherText.encrypt', 'ct.c', 'the packet carries C',
                          where=f.where, scenario=scen)
    # ECDH ciphertext codec: MPI(point) || len(C) || C
    cb = prog.method('pgpy.packet.fields', 'ECDHCipherText', '__bytearray__')
    for s in Interp(prog, Scenario(inline=noinline)).run(cb):
        r = render(s.ret)
        rep.check(r == 'self.p.to_mpibytes() BYTE(len(self.c)) self.c', 'C03.5', 'ECDHCipherText.__bytearray__', 'return %s' % r,
                  'ECDH session key = MPI(ephemeral point) || one-octet length of C || C (RFC 6637 section 8)', where=cb.where, found=r)


def compression(rep, prog):
    ci = prog.cls('pgpy.constants', 'CompressionAlgorithm')
    table = {  # member -> (compress, decompress) inverse pairs (RFC 4880 9.3: ZIP = raw DEFLATE, ZLIB = RFC 1950, BZ2)
        'Uncompressed': ('data', 'data'),
        'ZIP': ('SLICE(zlib.compress(data);2;-4)', 'zlib.decompress(data, -15)'),
        'ZLIB': ('zlib.compress(data)', 'zlib.decompress(data)'),
        'BZ2': ('bz2.compress(data)', 'bz2.decompress(data)'),
    }
    mem = ci.enum_members()
    rep.check({k: mem.get(k) for k in table} == {'Uncompressed': 0, 'ZIP': 1, 'ZLIB': 2, 'BZ2': 3}, 'C03.6', 'CompressionAlgorithm', 'ids',
              'compression ids must be the RFC 4880 9.3 values', where=ci.where, found=mem)
    for m in mem:
        if m not in table:
            rep.violation('C03.6', 'CompressionAlgorithm', 'member %s' % m, 'a compression algorithm without a reviewed inverse pair', where=ci.where)
    for name, idx in (('compress', 0), ('decompress', 1)):
        f = ci.methods.get(name)
        if f is None:
            raise AnalysisError('CompressionAlgorithm.%s vanished' % name)
        rep.saw(fn=f)
        for m, pair in table.items():
            outs = Interp(prog, Scenario(inline=noinline)).run(f, self_val=enum_const(prog, 'CompressionAlgorithm', m))
            rets = [render(s.ret) for s in outs if s.raised is None]
            rep.check(rets == [pair[idx]], 'C03.6', 'CompressionAlgorithm.%s' % name, '%s -> %s' % (m, rets),
                      '%s arm of %s must be the inverse of its sibling' % (name, m), where=f.where, expected=pair[idx], found=rets, scenario=m)
