"""C01 - Signature soundness: verification never accepts what was not signed.

Decided statically (necessary conditions; see DESIGN.md section 5/C01):
  C01.1 octets hashed for every (signature type x subject kind) = RFC 4880 5.2.4 layout
  C01.2 PGPKey.verify wiring: hashdata(subj) / __sig__ / hash object of the loop's own (sig, subj); falsy -> WrongSig
  C01.3 key-material verify: truthy only after the library accepted; InvalidSignature -> falsy
  C01.4 verdict object (shared with C17)
  C01.5 SignatureV4.parse feeds the attributes the trailer reads (shared with C08 codec engine)
"""
import ast
import re

from sa import sigdata
from sa.interp import Interp, Scenario, Sym, Const, Enum, render, alpha
from sa.loader import AnalysisError, dotted
from sa import verdict
from sa import families
from sa import guards


def run(rep, prog, tier):
    rep.rule('C01.1', 'PGPSignature.hashdata emits exactly the RFC 4880 5.2.4 octets for each signature type and subject kind', floor=23)
    rep.rule('C01.1.ids', 'SignatureType enum values equal the RFC 4880 5.2.1 ids', floor=15)
    rep.rule('C01.1b', 'PGPKey.hashdata / PGPUID.hashdata denote the public key packet body / user id body', floor=4)
    rep.rule('C01.2', 'PGPKey.verify passes the loop pair (sig, subj) to hashdata/__sig__/hash and maps a falsy result to WrongSig', floor=5)
    rep.rule('C01.3', 'each key-material verify returns truthy only on a path through the library verify; InvalidSignature -> falsy', floor=4)
    rep.rule('C01.4', 'verdict object: default issues fail closed, WrongSig disqualifies (shared with C17)', floor=3)
    rep.rule('C01.5', 'version, signature type and both algorithm ids reach the trailer as received: parse order, injective setters, plain getters', floor=12)
    rep.rule('C01.6', 'the hashed subpacket area that is hashed is the received one, also on copies (the C05 capture / replay / copy rules)', floor=30)
    rep.rule('C01.7', 'what verify hands to hashdata for a message is an injective function of the received octets (no lossy decode / encode / normalisation)', floor=12)
    rep.rule('C01.8', 'the user-attribute hashdata covers every received attribute subpacket: parse files each one, the serialiser emits each one', floor=4)
    rep.rule('C01.10', 'PGPKey.sign: a subject that is present (not None) is signed with a document type; Timestamp only for None', floor=4)
    rep.rule('C01.9', 'the signature / key integers handed to the verifier are a one-to-one image of the received MPI octets (the C09 MPI codec analysis)', floor=4)
    rep.assume('PGPKey.hashdata / PGPUID.hashdata are non-empty for a key / user id that exists (axiom len(...) > 0)')
    rep.assume('cryptography.*.verify raises InvalidSignature on a bad signature and returns None otherwise (trusted base)')

    sigdata.check_hashdata(rep, prog, 'C01.1')
    sigdata.check_subject_hashdata(rep, prog, 'C01.1b')
    check_verify_wiring(rep, prog)
    check_material_verify(rep, prog)
    verdict.check_fail_closed(rep, prog, 'C01.4')
    verdict.check_crypto_arm_verdict(rep, prog, 'C01.2')
    verdict.check_mask_contains(rep, prog, 'C01.4', ['WrongSig'])
    check_header_fields(rep, prog)
    verdict.check_one_record(rep, prog, 'C01.2')       # no path through the loop skips a collected pair (it records, delegates or raises)
    verdict.check_partition(rep, prog, 'C01.4')        # the same evaluation C17.2 makes: truthy exactly when no record is bad
    check_hashed_area(rep, prog)
    check_signed_data_path(rep, prog)
    check_user_attribute_path(rep, prog)
    check_mpi_codec(rep, prog)
    check_sign_type(rep, prog)
    # a key that must not be relied upon: the record on that arm carries the issue set that disqualified it, never OK (the C17.4 /
    # C17.5 analysis of PGPKey.verify under the truth-table rows, run here under a C01 id)
    from rules.C17 import check_disqualified_arm
    from rules.C08 import _Proxy
    check_disqualified_arm(_Proxy(rep, 'C01.4'), prog)


# ------------------------------------------------------------------------------------------------ C01.2
def check_verify_wiring(rep, prog):
    """The pair examined is whatever the verification loop binds (canonical $k_0 / $k_1 when the pair list is summarised, the
    element values when it is statically known); every expectation is built from that pair, never from variable names."""
    fi = prog.method('pgpy.pgp', 'PGPKey', 'verify')
    rep.saw(fn=fi)
    vp = fi.params[1:3]                                     # (subject, signature) of the delegated PGPKey.verify
    for verdict_truthy, detached in ((False, False), (True, False), (False, True), (True, True)):
        fi, outs, _ = verdict.run_verify(prog, detached=detached, F=False, V=verdict_truthy)
        rep.analysed['paths'] += len(outs)
        crypto, records, delegations = verdict.collect(outs)
        rep.analysed['call_sites'] += len(crypto) + len(records) + len(delegations)
        scen = 'library verify %s, %s' % ('accepts' if verdict_truthy else 'rejects', 'detached' if detached else 'attached')
        if not crypto:
            rep.violation('C01.2', 'PGPKey.verify', 'no call self._key.verify(...)',
                          'verify never reaches the key material check', where=fi.where)
            continue
        for (ft, args, kw, line, node), s in crypto:
            pair = verdict.loop_pair(fi, s)
            if pair is None:
                raise AnalysisError('PGPKey.verify: the key material is asked on a path where the verification loop binds no pair')
            S, J = pair
            w = '%s:%d' % (fi.module.relpath, line)
            exp = ['%s.hashdata(%s)' % (S, J), '%s.__sig__' % S]
            if not verdict_truthy:
                rep.check(len(args) == 3 and not kw and args[0] == exp[0], 'C01.2', 'PGPKey.verify', 'hashed data argument %s' % (args[:1],),
                          'the data verified must be sig.hashdata(subj) of the pair being examined', where=w,
                          expected=exp[0], found=args[0] if args else None)
                rep.check(len(args) == 3 and not kw and args[1] == exp[1], 'C01.2', 'PGPKey.verify', 'signature argument %s' % (args[1:2],),
                          'the signature integers verified must be those of the signature being examined', where=w,
                          expected=exp[1], found=args[1] if len(args) > 1 else None)
                families.check_hash_object(rep, prog, 'C01.2', 'PGPKey.verify', args[2] if len(args) > 2 else None, S, w)
        # verdict polarity: every record made on a path through the key material check carries the verdict of that check,
        # for the pair of that path
        want = 'SecurityIssues.OK' if verdict_truthy else 'SecurityIssues.WrongSig'
        good, bad, shown = [], [], []
        for call, s in records:
            a = verdict.record_args(prog, call)
            shown.append(a)
            if a[3] == want and (a[0], a[2]) == verdict.loop_pair(fi, s):
                good.append(a)
            else:
                bad.append(a)
        rep.check(bool(good) and not bad, 'C01.2', 'PGPKey.verify',
                  'library result %s -> recorded %s' % ('truthy' if verdict_truthy else 'falsy', shown),
                  'a %s key-material result must be recorded as %s for (sig, subj)' % ('truthy' if verdict_truthy else 'falsy', want),
                  where=fi.where, expected=want, found=shown, scenario=scen)
        if not verdict_truthy:
            for (ft, args, kw, line, node), s in delegations:
                S, J = verdict.loop_pair(fi, s) or (None, None)
                a = list(args[:2]) + [None] * (2 - len(args))
                for k, v in kw.items():
                    if k in vp:
                        a[vp.index(k)] = v
                rep.check(ft == 'self.subkeys[%s.signer].verify' % S and a == [J, S] and len(args) + len(kw) == 2, 'C01.2', 'PGPKey.verify',
                          'delegation %s(%s)' % (ft, ', '.join(args)),
                          'subkey delegation must hand the same (subj, sig) to the subkey named by sig.signer',
                          where='%s:%d' % (fi.module.relpath, line), expected='self.subkeys[%s.signer].verify(%s, %s)' % (S, J, S),
                          found='%s(%s)' % (ft, ', '.join(args)))
            if not delegations:
                rep.violation('C01.2', 'PGPKey.verify', 'no subkey delegation',
                              'signatures issued by a subkey are not delegated to that subkey', where=fi.where)
    check_not_implemented(rep, prog)
    # PubKeyV4.verify delegates with the same argument roles
    pv = prog.method('pgpy.packet.packets', 'PubKeyV4', 'verify')
    outs = Interp(prog, Scenario(inline=lambda f: False)).run(pv)
    for s in outs:
        exp = 'self.keymaterial.verify(%s)' % ', '.join(pv.params[1:])
        rep.check(render(s.ret) == exp, 'C01.2', 'PubKeyV4.verify', 'return %s' % render(s.ret),
                  'the key packet must hand (subj, sigbytes, hash_alg) unchanged to its key material', where=pv.where,
                  expected=exp, found=render(s.ret))


def check_not_implemented(rep, prog):
    """NotImplemented (the abstract key material's answer) must not be treated as a verdict: on every path that records the
    result of the key material, a decision comparing that result with NotImplemented was taken and says "it is not"; the
    other outcome raises.  Decided on the paths of the detached scenario (pair list known, so decisions are kept)."""
    fi, outs, _ = verdict.run_verify(prog, detached=True, F=False, V=None)
    rep.analysed['paths'] += len(outs)
    n = 0
    ok = True
    why = None
    for s in outs:
        crypto = [c for c in s.calls if c[0] == 'self._key.verify']
        if not crypto:
            continue
        texts = set('%s(%s)' % (c[0], ', '.join(c[1] + ['%s=%s' % kv for kv in c[2].items()])) for c in crypto)
        fact = None
        for text, value, sk in s.facts:
            for a in guards.atoms(sk):
                eq = guards.equality_of(a)
                if eq is not None and ((eq[0] in texts and eq[1] == 'NotImplemented') or (eq[1] in texts and eq[0] == 'NotImplemented')):
                    fact = (text, value, sk, a, eq)
        recorded = any(c[0].endswith('.add_sigsubj') for c in s.calls) and s.raised is None
        if fact is None:
            if recorded:
                n += 1
                ok, why = False, 'a path records the result of the key material without comparing it with NotImplemented'
            continue
        text, value, sk, a, eq = fact
        on_ni = guards.eval_skel(sk, lambda at: (eq[2] if at is a else None))
        on_other = guards.eval_skel(sk, lambda at: ((not eq[2]) if at is a else None))
        if recorded:
            n += 1
            if on_ni is None or on_other is None or on_ni == on_other or value != on_other:
                ok, why = False, 'a NotImplemented result of the key material is recorded as a verdict (decision %s = %s)' % (text, value)
    if n == 0:
        raise AnalysisError('PGPKey.verify: no path records a key-material result in the detached scenario')
    rep.check(ok, 'C01.2', 'PGPKey.verify', 'NotImplemented check', 'a NotImplemented result of the key material must raise, not be recorded',
              where=fi.where, found=why)


# ------------------------------------------------------------------------------------------------ C01.3
def check_material_verify(rep, prog):
    """Decided on interpreter paths with the three caller values pinned by parameter position (<subj>, <sigbytes>,
    <hash_alg>): a path whose return value is not a falsy constant must have made the library call and must not have
    passed through any exception handler; the library call receives the caller's values in their roles."""
    fields = prog.module('pgpy.packet.fields')
    n = 0
    for ci in fields.classes.values():
        f = ci.methods.get('verify')
        if f is None:
            continue
        p = f.params
        if len(p) != 4:
            raise AnalysisError('%s.verify no longer takes (subj, sigbytes, hash_alg)' % ci.name)
        sc = Scenario(args={p[1]: Sym('<subj>', nonnull=True), p[2]: Sym('<sigbytes>', nonnull=True), p[3]: Sym('<hash_alg>', nonnull=True)},
                      inline=lambda fn: False)
        outs = Interp(prog, sc).run(f)

        def lib(c):
            return c[0].endswith('.verify') and '__pubkey__' in c[0]
        if outs and all(s.raised is None and s.ret is not None and render(s.ret) == 'NotImplemented' and not any(lib(c) for c in s.calls)
                        for s in outs):
            continue   # abstract default: PGPKey.verify turns NotImplemented into an exception (C01.2)
        n += 1
        rep.saw(fn=f)
        construct = '%s.verify' % ci.name
        rep.analysed['paths'] += len(outs)
        libcalls = []
        for s in outs:
            for c in s.calls:
                if lib(c) and c not in libcalls:
                    libcalls.append(c)
        if not libcalls:
            rep.violation('C01.3', construct, 'no call self.__pubkey__().verify(...)',
                          'the method never asks the cryptographic library', where=f.where)
            continue
        # the call must be evaluated whenever its statement is: not the right operand of and/or, not an arm of a conditional
        # expression, not inside a comprehension (the interpreter's paths fork on statements, not inside expressions)
        for c in libcalls:
            cond = conditional_context(f.node, c[4])
            rep.check(cond is None, 'C01.3', construct, 'library verify evaluated conditionally (%s)' % cond,
                      'a non-false return is reachable without the library having accepted the signature '
                      '(the library call is skipped by a short-circuit)', where='%s:%d' % (f.module.relpath, c[3]), found=cond)
        for s in outs:
            if s.raised is not None:
                continue
            v = s.ret
            rt = render(v) if v is not None else 'None'
            if v is None or (isinstance(v, Const) and not isinstance(v.value, Enum) and not v.value):
                rep.ok('C01.3', construct, 'falsy return %s on path %s' % (rt, [x[0] for x in s.facts]))
                continue
            # truthy or unknown return: only after a *normal* completion of the library call
            asked = any(lib(c) for c in s.calls)
            handled = [x[0] for x in s.facts if x[0].startswith('except')]
            rep.check(asked and not handled, 'C01.3', construct, 'return %s' % rt,
                      'a non-false return is reachable without the library having accepted the signature '
                      '(handler fall-through or early return)', where=f.where,
                      expected='every path to a truthy return passes the normal exit of self.__pubkey__().verify(...)',
                      found='return %s reachable when the library call %s' % (rt, 'raised (%s)' % ', '.join(handled) if handled else 'was skipped'))
        # the library rejects (its verify raises InvalidSignature at the call, in the state reached so far): no truthy result
        sc2 = Scenario(args=sc.args, inline=sc.inline, raises=lambda ft: 'InvalidSignature' if ft.endswith('.verify') and '__pubkey__' in ft else None)
        outs2 = Interp(prog, sc2).run(f)
        rep.analysed['paths'] += len(outs2)
        for s in outs2:
            if s.raised is not None or not any(lib(c) for c in s.calls):
                continue
            v = s.ret
            rt = render(v) if v is not None else 'None'
            rep.check(v is None or (isinstance(v, Const) and not isinstance(v.value, Enum) and not v.value), 'C01.3', construct,
                      'library raises InvalidSignature -> return %s' % rt,
                      'a non-false return is reachable without the library having accepted the signature '
                      '(handler fall-through or early return)', where=f.where, expected='falsy constant or an exception',
                      found='return %s after the library call raised' % rt, scenario='library verify raises InvalidSignature')
        # handlers: only InvalidSignature is swallowed
        for st in ast.walk(f.node):
            if isinstance(st, ast.ExceptHandler):
                names = [dotted(e) for e in (st.type.elts if isinstance(st.type, ast.Tuple) else [st.type])] if st.type is not None else [None]
                rep.check([x.split('.')[-1] if x else x for x in names] == ['InvalidSignature'], 'C01.3', construct, 'except %s' % names,
                          'only InvalidSignature may be converted into a verdict', where='%s:%d' % (f.module.relpath, st.lineno),
                          expected="['InvalidSignature']", found=names)
        # argument roles of the library call
        for ft, args, kw, line, node in libcalls:
            w = '%s:%d' % (f.module.relpath, line)
            # the caller's signature octets, unchanged or left-padded with zero octets (RSA); never sliced or rebuilt
            sig_ok = len(args) >= 2 and re.match(r'^(REP\(C\(00\);[^;]*\) )?<sigbytes>$', args[0]) is not None
            subj_ok = len(args) >= 2 and args[1] in ('<subj>', 'HASH(<hash_alg>;<subj>)')
            rep.check(sig_ok and subj_ok, 'C01.3', construct, 'library verify(%s)' % ', '.join(args),
                      'the library must verify the caller\'s signature bytes over the caller\'s data', where=w,
                      expected='verify(<sigbytes>, <subj> | HASH(<hash_alg>;<subj>), ...)', found=args)
            if args and '<hash_alg>' not in ' '.join(args + list(kw.values())):
                rep.violation('C01.3', construct, 'library verify(%s) ignores hash_alg' % ', '.join(args),
                              'the hash algorithm named by the signature is not used', where=w)
    if n == 0:
        raise AnalysisError('no concrete key-material verify found')


def conditional_context(fn_node, target):
    """Name of the expression construct that makes the evaluation of `target` conditional within its statement, or None."""
    found = []

    def rec(n, ctx):
        if n is target:
            found.append(ctx)
            return
        if isinstance(n, ast.BoolOp):
            for i, v in enumerate(n.values):
                rec(v, ctx if i == 0 else ('right operand of `%s`' % ('and' if isinstance(n.op, ast.And) else 'or')))
            return
        if isinstance(n, ast.IfExp):
            rec(n.test, ctx)
            rec(n.body, 'arm of a conditional expression')
            rec(n.orelse, 'arm of a conditional expression')
            return
        if isinstance(n, (ast.ListComp, ast.SetComp, ast.GeneratorExp, ast.DictComp, ast.Lambda)):
            for ch in ast.iter_child_nodes(n):
                rec(ch, 'inside a comprehension / lambda')
            return
        for ch in ast.iter_child_nodes(n):
            rec(ch, None if isinstance(ch, ast.stmt) else ctx)
    rec(fn_node, None)
    return found[0] if found else None


# ------------------------------------------------------------------------------------------------ C01.5
TRAILER_FIELDS = ('type', 'key_algorithm', 'hash_algorithm')      # PGPSignature properties the 5.2.4 trailer reads (C01.1 template)


def check_header_fields(rep, prog):
    """Every header octet that enters the RFC 4880 5.2.4 trailer must be the octet that was in the packet: the PGPSignature
    property returns the packet field, the field's getter returns what the setter stored, the setter stores the received value
    itself (evaluated at every declared id and at undeclared octets: enum lookup by value is injective, anything that sends
    two octets to one member is not), and parse feeds the fields from consecutive octets in RFC 5.2.3 order."""
    sv4 = prog.cls('pgpy.packet.packets', 'SignatureV4')
    props = []
    for name in TRAILER_FIELDS:
        g = prog.method('pgpy.pgp', 'PGPSignature', name)
        rep.saw(fn=g)
        rets = set(render(s.ret) for s in Interp(prog, Scenario(inline=lambda f: False)).run(g) if s.raised is None and s.ret is not None)
        m = re.match(r'^self\._signature\.([A-Za-z_]\w*)$', next(iter(rets))) if len(rets) == 1 else None
        ok = m is not None and sv4.find_prop(m.group(1)) is not None
        rep.check(ok, 'C01.5', 'PGPSignature.%s' % name, 'returns %s' % sorted(rets),
                  'the trailer octet must come from the parsed packet field', where=g.where, expected='self._signature.<packet field>', found=sorted(rets))
        if ok:
            props.append((sv4, m.group(1)))
    vh = prog.cls('pgpy.packet.types', 'VersionedHeader')
    props.append((vh, 'version'))
    for ci, pname in props:
        check_injective_field(rep, prog, ci, pname)
    # parse: type, public-key algorithm, hash algorithm from consecutive received octets
    sp = prog.method('pgpy.packet.packets', 'SignatureV4', 'parse')
    rep.saw(fn=sp)
    want = ['self.%s' % pn for ci, pn in props if ci is sv4]
    sc = Scenario(args={sp.params[1]: Sym('<pkt>', nonnull=True)}, inline=lambda f: False, forward_stores=False, model_del=True)
    for s in Interp(prog, sc).run(sp):
        if s.raised is not None:
            continue
        got = []
        for path, vt, line, v in s.stores:
            if path in want:
                m = re.match(r'^(?:<pkt>|SLICE\(<pkt>;(\d+);\))\[0\]$', vt)
                got.append((path, int(m.group(1) or 0) if m else vt))
        rep.check(got == [(w, i) for i, w in enumerate(want)], 'C01.5', 'SignatureV4.parse', 'header fields %s' % got,
                  'signature type, public-key algorithm and hash algorithm are the three consecutive octets after the version (RFC 4880 5.2.3)',
                  where=sp.where, expected=[(w, i) for i, w in enumerate(want)], found=got)


def check_injective_field(rep, prog, ci, pname):
    p = ci.find_prop(pname)
    construct = '%s.%s' % (ci.name, pname)
    if p is None or p.getter is None or not p.setters:
        raise AnalysisError('%s is no longer a type-dispatched property' % construct)
    rep.saw(fn=p.getter)
    rets = set(render(s.ret) for s in Interp(prog, Scenario(inline=lambda f: False)).run(p.getter) if s.raised is None and s.ret is not None)
    selfname = p.getter.params[0]
    m = re.match(r'^%s\.([A-Za-z_]\w*)$' % re.escape(selfname), next(iter(rets))) if len(rets) == 1 else None
    rep.check(m is not None, 'C01.5', construct, 'getter returns %s' % sorted(rets), 'the value hashed must be the stored one',
              where=p.getter.where, expected='self.<attribute>', found=sorted(rets))
    if m is None:
        return
    attr = m.group(1)
    # the enum the field is declared with (a registered setter type that is an enum class), and its ids
    members = {}
    for tname in p.setters:
        for ec in prog.classes_by_name.get(tname, []):
            mem = {k: v for k, v in ec.enum_members().items() if isinstance(v, int) and not isinstance(v, bool)}
            if mem:
                members = mem
                ename = ec.name
    byval = {}
    for k, v in members.items():
        byval.setdefault(v, k)
    points = sorted(byval) if byval else [3, 4, 5]
    points += [v for v in (0x6a, 0xfd) if v not in byval][:2]
    done = set()
    for tname, st in sorted(p.setters.items()):
        if id(st) in done or len(st.params) != 2:
            continue
        done.add(id(st))
        rep.saw(fn=st)
        bad = []
        for k in points:
            outs = Interp(prog, Scenario(args={st.params[1]: Const(k)}, inline=lambda f: False)).run(st)
            rep.analysed['paths'] += len(outs)
            for s in outs:
                if s.raised is not None:
                    continue
                stored = [vt for path, vt, line, v in s.stores if path == '%s.%s' % (st.params[0], attr)]
                okvals = {repr(k)}
                if byval:
                    okvals.add('%s.%s' % (ename, byval[k]) if k in byval else '%s(%d)' % (ename, k))
                if not stored or stored[-1] not in okvals:
                    bad.append((k, stored[-1] if stored else '<nothing stored>'))
        rep.check(not bad, 'C01.5', '%s_%s' % (construct, tname), '%s <- %s' % (attr, bad[:4]),
                  'the received %s octet must be stored unchanged (enum lookup by value or the raw value), never mapped to another value: '
                  'a signature whose octet was rewritten would hash the same trailer' % pname, where=st.where,
                  expected='octet k stored as the member with value k', found=['octet %s stored as %s' % b for b in bad[:6]])


# ------------------------------------------------------------------------------------------------ C01.6
def check_hashed_area(rep, prog):
    """"never truthy if any hashed subpacket value differs": the octets hashed for the hashed area must be the received ones,
    on the parsed signature and on every copy of it.  This is C05's own analysis (capture, replay, other stores / copies,
    consumers), called here under a C01 rule id - not a second implementation."""
    from rules import C05
    from rules.C08 import _Proxy
    P = _Proxy(rep, 'C01.6')
    ci = prog.cls('pgpy.packet.fields', 'SubPackets')
    hb = ci.methods.get('__hashbytearray__')
    if hb is None:
        raise AnalysisError('SubPackets.__hashbytearray__ vanished')
    raw = C05.raw_attribute(prog)
    if raw is None:
        rep.violation('C01.6', 'SubPackets.__hashbytearray__', 're-serialises parsed subpackets',
                      'the hashed area that is verified is a re-encoding of parsed subpacket objects, not the received octets: '
                      'subpacket values that re-encode alike verify alike', where=hb.where)
        return
    C05.check_capture(P, prog, ci, raw)
    C05.check_replay(P, prog, ci, hb, raw, '%s.%s' % (hb.params[0], raw))
    C05.check_other_stores(P, prog, ci, raw)
    C05.check_consumers(P, prog)


# ------------------------------------------------------------------------------------------------ C01.7
INJECTIVE_CODECS = {'latin-1', 'latin1', 'latin_1', 'iso-8859-1', 'iso8859-1', 'l1', 'utf-8', 'utf8', 'utf_8', 'ascii', 'us-ascii', 'charmap'}
INJECTIVE_ERRORS = {'strict', 'surrogateescape', 'surrogatepass'}
LOSSY_METHODS = {'strip', 'lstrip', 'rstrip', 'lower', 'upper', 'casefold', 'title', 'capitalize', 'swapcase', 'replace', 'expandtabs',
                 'translate', 'splitlines', 'split', 'rsplit', 'partition', 'rpartition', 'removeprefix', 'removesuffix', 'zfill',
                 'center', 'ljust', 'rjust', 'format', 'join', 'normalize'}
LOSSY_FUNCTIONS = {'re.sub', 're.subn', 'unicodedata.normalize', 'textwrap.dedent', 'str.strip', 'str.lower'}
TRANSPARENT_METHODS = {'copy', '__bytearray__', '__bytes__', '__copy__', 'tobytes'}


def _lit(t):
    try:
        v = ast.literal_eval(t)
    except Exception:
        return None
    return v.lower() if isinstance(v, str) else None


def lossy_steps(s, root):
    """Transformations applied on this path to values rooted at `root` that are not injective: (description) list, and the
    list of steps that could not be classified."""
    lossy, unknown = [], []
    for ft, args, kw, line, node in s.calls:
        if ft.startswith(root + '.') or ft.startswith(root + '['):
            meth = ft.rsplit('.', 1)[-1]
            shown = '%s(%s)' % (ft, ', '.join(args + ['%s=%s' % kv for kv in kw.items()]))
            if meth in ('decode', 'encode'):
                codec = _lit(args[0]) if args else (_lit(kw['encoding']) if 'encoding' in kw else 'utf-8')
                errors = _lit(args[1]) if len(args) > 1 else (_lit(kw['errors']) if 'errors' in kw else 'strict')
                if errors is None or codec is None:
                    unknown.append(shown)
                elif errors not in INJECTIVE_ERRORS:
                    lossy.append('%s: errors=%r maps different octets to the same text' % (shown, errors))
                elif codec not in INJECTIVE_CODECS:
                    lossy.append('%s: codec %r is not one-to-one (byte order marks / alternative encodings)' % (shown, codec))
            elif meth in LOSSY_METHODS:
                lossy.append('%s: %s is not one-to-one' % (shown, meth))
            elif meth in TRANSPARENT_METHODS or meth.startswith('is') or meth in ('startswith', 'endswith', 'find', 'index', 'count'):
                pass
            else:
                unknown.append(shown)
        elif ft in LOSSY_FUNCTIONS and any(a.startswith(root) for a in args):
            lossy.append('%s(%s): not one-to-one' % (ft, ', '.join(args)))
        elif ft in ('str', 'bytes', 'bytearray') and len(args) + len(kw) > 1 and args and args[0].startswith(root):
            codec = _lit(args[1]) if len(args) > 1 else (_lit(kw.get('encoding', "'utf-8'")))
            errors = _lit(args[2]) if len(args) > 2 else (_lit(kw['errors']) if 'errors' in kw else 'strict')
            if errors not in INJECTIVE_ERRORS or codec not in INJECTIVE_CODECS:
                lossy.append('%s(%s): lossy conversion' % (ft, ', '.join(args + ['%s=%s' % kv for kv in kw.items()])))
    return lossy, unknown


def check_rooted_value(rep, construct, fi, s, root, value_text, scen):
    lossy, unknown = lossy_steps(s, root)
    rooted = value_text is not None and (value_text == root or value_text.startswith(root + '.') or value_text.startswith(root + '[') or
                                         re.match(r'^(bytes|bytearray|str)\(%s\)$' % re.escape(root), value_text) is not None)
    sliced = value_text is not None and 'SLICE(' in value_text
    rep.check(rooted and not lossy and not sliced, 'C01.7', construct, '%s -> %s' % (scen, value_text),
              'the signed data must be a one-to-one image of the received octets: ' +
              ('; '.join(lossy) if lossy else ('a slice drops octets' if sliced else 'the value does not derive from %s' % root)) +
              ' - a forged octet would hash to the same data', where=fi.where,
              expected='%s, decoded / encoded strictly with a one-to-one codec at most' % root, found=value_text, scenario=scen)
    if unknown and rooted and not lossy:
        raise AnalysisError('%s: transformation of the signed data not classified: %s' % (construct, unknown[:2]))


def codec_choices(prog, g, name, extra):
    """Value assignments of the optional parameters of a text helper: the declared defaults, and each combination a call site in
    the package passes (literals after canonicalisation; anything else cannot be decided)."""
    if not extra:
        return [{}]
    a = g.node.args
    names = [x.arg for x in a.args]
    dflt = dict(zip(names[len(names) - len(a.defaults):], a.defaults))
    dflt.update({x.arg: d for x, d in zip(a.kwonlyargs, a.kw_defaults) if d is not None})
    base = {}
    for k in extra:
        if k not in dflt:
            raise AnalysisError('PGPObject.%s: parameter %s has no default' % (name, k))
        try:
            base[k] = Const(ast.literal_eval(dflt[k]))
        except Exception:
            raise AnalysisError('PGPObject.%s: default of %s is not a literal' % (name, k))
    out = [base]
    is_static = any(dotted(d) == 'staticmethod' for d in g.node.decorator_list)
    first_extra = names.index(extra[0]) - (0 if is_static else 1) if extra[0] in names else None
    for fn in prog.all_functions():
        for n in ast.walk(fn.node):
            if isinstance(n, ast.Call) and isinstance(n.func, ast.Attribute) and n.func.attr == name:
                given = dict(base)
                passed = False
                for i, v in enumerate(n.args):
                    if first_extra is not None and i >= first_extra and i - first_extra < len(extra):
                        given[extra[i - first_extra]] = v
                        passed = True
                for kw in n.keywords:
                    if kw.arg in extra:
                        given[kw.arg] = kw.value
                        passed = True
                if not passed:
                    continue
                for k, v in list(given.items()):
                    if isinstance(v, ast.AST):
                        try:
                            given[k] = Const(ast.literal_eval(v))
                        except Exception:
                            raise AnalysisError('%s: %s(...) is called with a %s that is not a literal (%s)' % (fn.qualname, name, k, ast.unparse(v)))
                if not any(all(render(given[k]) == render(o[k]) for k in extra) for o in out):
                    out.append(given)
    return out


def check_signed_data_path(rep, prog):
    """LiteralData octets -> contents -> PGPMessage.message -> _signed_data -> the pair PGPKey.verify examines -> hashdata."""
    noinl = lambda f: False  # noqa: E731
    lit = prog.cls('pgpy.packet.packets', 'LiteralData')
    getter = lit.find_method('contents')
    if getter is None:
        raise AnalysisError('LiteralData.contents vanished')
    rep.saw(fn=getter)
    me = getter.params[0]
    # the octets: what the binary format returns unchanged, and what parse fills from the packet
    root = None
    for s in Interp(prog, Scenario(bind={'%s.format' % me: Const('b')}, inline=noinl)).run(getter):
        if s.raised is None and s.ret is not None:
            t = render(s.ret)
            m = re.search(r'%s\.[A-Za-z_]\w*' % re.escape(me), t)
            root = m.group(0) if m else None
    if root is None:
        raise AnalysisError('LiteralData.contents: binary contents do not come from an attribute of the packet')
    pf = lit.find_method('parse')
    stored = False
    for s in Interp(prog, Scenario(args={pf.params[1]: Sym('<pkt>', nonnull=True)}, inline=noinl, forward_stores=False)).run(pf):
        for path, vt, line, v in s.stores:
            if path == root.replace(me + '.', pf.params[0] + '.', 1) and '<pkt>' in vt:
                stored = True
    rep.check(stored, 'C01.7', 'LiteralData.parse', '%s filled from the packet' % root, 'the contents must be the received octets', where=pf.where)
    for fmt in ('b', 't', 'u'):
        outs = [s for s in Interp(prog, Scenario(bind={'%s.format' % me: Const(fmt)}, inline=noinl)).run(getter) if s.raised is None]
        if not outs:
            raise AnalysisError('LiteralData.contents: no returning path for format %r' % fmt)
        for s in outs:
            check_rooted_value(rep, 'LiteralData.contents', getter, s, root, render(s.ret) if s.ret is not None else None, 'format %r' % fmt)
    # PGPMessage.message / _signed_data for a literal message hand the contents on unchanged
    msg = prog.cls('pgpy.pgp', 'PGPMessage')
    for name, want_root in (('message', None), ('_signed_data', None)):
        g = msg.find_method(name)
        if g is None:
            if name == '_signed_data':
                continue            # older trees hand PGPMessage.message to hashdata directly
            raise AnalysisError('PGPMessage.%s vanished' % name)
        rep.saw(fn=g)
        sc = Scenario(bind={'%s._message' % g.params[0]: Sym('%s._message' % g.params[0], types={'LiteralData'}, nonnull=True),
                            '%s.type' % g.params[0]: Const('literal')}, inline=noinl)
        outs = [s for s in Interp(prog, sc).run(g) if s.raised is None]
        if not outs:
            raise AnalysisError('PGPMessage.%s: no returning path for a literal message' % name)
        r = '%s._message.contents' % g.params[0] if name == 'message' else '%s.message' % g.params[0]
        for s in outs:
            check_rooted_value(rep, 'PGPMessage.%s' % name, g, s, r, render(s.ret) if s.ret is not None else None, 'literal message')
    # the text helpers used on the cleartext path decode / encode strictly
    po = prog.cls('pgpy.types', 'PGPObject')
    for name in ('bytes_to_text', 'text_to_bytes'):
        g = po.find_method(name)
        if g is None:
            continue
        rep.saw(fn=g)
        is_static = any(dotted(d) == 'staticmethod' for d in g.node.decorator_list)
        pos = [a.arg for a in g.node.args.args][0 if is_static else 1:]
        if not pos:
            raise AnalysisError('PGPObject.%s takes no text' % name)
        arg = pos[0]                                     # the text, by position; further parameters (codec) in every value they take:
        extra = pos[1:] + [a.arg for a in g.node.args.kwonlyargs]
        choices = codec_choices(prog, g, name, extra)    # their declared default and whatever a call site passes
        for typ in ('bytes', 'str'):
            for given in choices:
                args = {arg: Sym('<text>', types={typ}, nonnull=True)}
                args.update(given)
                scen = '%s argument%s' % (typ, ''.join(', %s=%s' % (k, render(v)) for k, v in sorted(given.items())))
                for s in Interp(prog, Scenario(args=args, inline=noinl)).run(g):
                    if s.raised is None:
                        check_rooted_value(rep, 'PGPObject.%s' % name, g, s, '<text>', render(s.ret) if s.ret is not None else None, scen)
    # PGPKey.verify examines the message's signed data, unchanged
    fi, outs, _ = verdict.run_verify(prog, F=False, V=False, subject_type='PGPMessage')
    subj = fi.params[1]
    seen = 0
    for s in outs:
        for (ft, args, kw, line, node) in [c for c in s.calls if c[0] == 'self._key.verify']:
            pair = verdict.loop_pair(fi, s)
            if pair is None:
                continue
            bound = [v for k, v in s.bound.items() if pair[0].startswith(k + '_') or pair[0].startswith(k + '[')]
            coll = (bound[0] if bound else '') + ' ' + pair[0]
            m = re.findall(r'EACH\(\$[\d.]+ in [^;]*;\(\$[\d.]+, ([^()]*(?:\([^()]*\))?[^()]*)\)\)', coll)
            if not m:
                continue
            seen += 1
            lossy, unknown = lossy_steps(s, subj)
            handed = '_signed_data' if msg.find_method('_signed_data') is not None else 'message'
            ok = all(x in ('%s.%s' % (subj, handed),) for x in m) and not lossy
            rep.check(ok, 'C01.7', 'PGPKey.verify', 'message pairs (sig, %s)' % sorted(set(m)),
                      'the data examined for a message must be its signed data, unchanged' + (': ' + '; '.join(lossy) if lossy else ''), where=fi.where,
                      expected='(sig, %s.%s)' % (subj, handed), found=sorted(set(m)), scenario='PGPMessage subject')
    if not seen:
        raise AnalysisError('PGPKey.verify: no pairs collected for a PGPMessage subject')
    # hashdata: a text subject is encoded strictly
    hd = prog.method('pgpy.pgp', 'PGPSignature', 'hashdata')
    sp = hd.params[1]
    n = 0
    for s in Interp(prog, Scenario(args={sp: Sym('<subject>', types={'str'}, nonnull=True)},
                                   bind={'%s.type' % hd.params[0]: Const(Enum('SignatureType', 'BinaryDocument', 0))}, inline=noinl)).run(hd):
        if s.raised is not None:
            continue
        n += 1
        lossy, unknown = lossy_steps(s, '<subject>')
        rep.check(not lossy, 'C01.7', 'PGPSignature.hashdata', 'text subject: %s' % (lossy or 'strict encodings only'),
                  'a text subject must be encoded one-to-one before hashing', where=hd.where, found=lossy, scenario='str subject')
    if n == 0:
        raise AnalysisError('PGPSignature.hashdata: no returning path for a text subject')


# ------------------------------------------------------------------------------------------------ C01.8
def check_user_attribute_path(rep, prog):
    """PGPUID.hashdata of a user attribute is the serialisation of its subpacket set (C01.1b).  For that to be an image of the
    received body nothing may be filtered on the way in or out: UserAttributeSubPackets.parse files the subpacket it has read on
    EVERY returning path (whatever class the dispatcher made of it: the type tests are explored both ways), the item store puts
    it into the container the serialiser walks, and the serialiser emits every element of that container."""
    noinl = lambda f: False  # noqa: E731
    ci = prog.cls('pgpy.packet.fields', 'UserAttributeSubPackets')
    pf = ci.find_method('parse')
    ba = ci.find_method('__bytearray__')
    si = ci.find_method('__setitem__')
    if pf is None or ba is None or si is None or len(pf.params) != 2:
        raise AnalysisError('UserAttributeSubPackets parse / __bytearray__ / __setitem__ vanished')
    rep.saw(fn=pf)
    me = pf.params[0]
    n = 0
    for answer in (False, True):
        sc = Scenario(args={pf.params[1]: Sym('<pkt>', nonnull=True)}, inline=noinl, forward_stores=False,
                      oracle=lambda t, _a=answer: _a if t.startswith('isinstance(') else None)
        for s in Interp(prog, sc).run(pf):
            if s.raised is not None:
                continue
            n += 1
            read = [c for c in s.calls if c[1] == ['<pkt>'] and not c[2] and c[0] not in ('len', 'bytearray', 'bytes', 'isinstance', 'memoryview')]
            texts = set('%s(<pkt>)' % c[0] for c in read)
            # the value filed: its construction text when it is an object the interpreter made (locals are named after their target)
            filed = [getattr(val, 'text', None) or v for p_, v, l, val in s.stores if p_.startswith(me + '[')]
            filed += [c[1][-1] for c in s.calls if c[0] in (me + '.__setitem__',) and c[1]]
            ok = len(read) == 1 and len(filed) == 1 and filed[0] in texts
            rep.check(ok, 'C01.8', 'UserAttributeSubPackets.parse', 'subpacket read %s, filed %s' % (sorted(texts), filed),
                      'every attribute subpacket that is read must be kept (whatever its type): a subpacket that is dropped leaves '
                      'the hashed data, so a user attribute with forged or added octets there verifies alike', where=pf.where,
                      expected='self[<name>] = <the subpacket read from the packet> on every returning path', found=filed,
                      scenario='type tests answered %s; decisions %s' % (answer, [x[0] for x in s.facts]))
    if n == 0:
        raise AnalysisError('UserAttributeSubPackets.parse has no returning path')
    # the serialiser walks one container without a filter ...
    rep.saw(fn=ba)
    coll = None
    for s in Interp(prog, Scenario(inline=noinl)).run(ba):
        if s.raised is not None:
            continue
        t = alpha(render(s.ret)) if s.ret is not None else 'None'
        m = re.match(r'^EACH\(\$1 in %s\.([A-Za-z_]\w*)\.values\(\);\$1\.__bytearray__\(\)\)$' % re.escape(ba.params[0]), t)
        rep.check(m is not None, 'C01.8', 'UserAttributeSubPackets.__bytearray__', 'returns %s' % t,
                  'the serialisation that is hashed must consist of every stored attribute subpacket, in order', where=ba.where,
                  expected='EACH(sp in self.<container>.values(); sp.__bytearray__())', found=t)
        if m:
            coll = m.group(1)
    # ... and that is the container the item store fills for an attribute subpacket
    if coll is not None:
        rep.saw(fn=si)
        for s in Interp(prog, Scenario(args={si.params[1]: Const('Image'), si.params[2]: Sym('<sp>', nonnull=True)},
                                       inline=lambda f: f.cls is not None and f.name.startswith('_') and not f.name.startswith('__'))).run(si):
            if s.raised is not None:
                continue
            tgt = [p_ for p_, v, l, val in s.stores if v == '<sp>']
            rep.check(len(tgt) == 1 and tgt[0].startswith('%s.%s[' % (si.params[0], coll)), 'C01.8', 'SubPackets.__setitem__',
                      'attribute subpacket stored in %s' % tgt, 'the subpacket must be filed in the container the serialiser walks',
                      where=si.where, expected='%s.%s[...]' % (si.params[0], coll), found=tgt)


# ------------------------------------------------------------------------------------------------ C01.9
def check_mpi_codec(rep, prog):
    """The integers of a signature (and of the key) reach the verifier through MPI.__new__: if the reader discards received bits
    (masking to the declared bit count, truncating), two different packets verify alike.  C09's finite-point MPI analysis
    (reader, writer, lengths, round trip, parsed-then-written) is run here under a C01 id - not a second implementation."""
    from rules import C09
    from rules.C08 import _Proxy
    C09.mpi(_Proxy(rep, 'C01.9'), prog)


# ------------------------------------------------------------------------------------------------ C01.10
DOCUMENT_TYPES = ('SignatureType.BinaryDocument', 'SignatureType.CanonicalDocument')


def check_sign_type(rep, prog):
    """A Timestamp / Standalone signature covers no document, so it verifies with any.  PGPKey.sign may choose it only when there
    is no subject (None); for every subject that is present - also an empty one - the type handed to PGPSignature.new is a
    document type.  Decided on interpreter paths with the subject pinned: None / non-None text, octets, message."""
    fi = prog.method('pgpy.pgp', 'PGPKey', 'sign')
    rep.saw(fn=fi)
    sp = fi.params[1]
    scen = [('None', Const(None)), ('str (possibly empty)', Sym(sp, types={'str'}, nonnull=True)),
            ('bytes (possibly empty)', Sym(sp, types={'bytes'}, nonnull=True)),
            ('bytearray (possibly empty)', Sym(sp, types={'bytearray'}, nonnull=True)),
            ('PGPMessage', Sym(sp, types={'PGPMessage'}, nonnull=True))]
    for name, val in scen:
        outs = [s for s in Interp(prog, Scenario(args={sp: val}, inline=lambda f: False)).run(fi) if s.raised is None]
        rep.analysed['paths'] += len(outs)
        if not outs:
            raise AnalysisError('PGPKey.sign: no returning path for subject %s' % name)
        for s in outs:
            made = [c for c in s.calls if c[0] == 'PGPSignature.new']
            if len(made) != 1 or not (made[0][1] or 'sigtype' in made[0][2]):
                raise AnalysisError('PGPKey.sign: expected one PGPSignature.new(<type>, ...) per path, found %s' % [c[0] for c in made])
            t = made[0][1][0] if made[0][1] else made[0][2]['sigtype']
            if name == 'None':
                ok = t in ('SignatureType.Timestamp', 'SignatureType.Standalone')
                msg = 'signing nothing makes a timestamp / standalone signature'
            else:
                ok = t in DOCUMENT_TYPES
                msg = ('a subject that is present must be signed with a document type: a %s signature covers no document and '
                       'verifies with any (the test that selects it must be `subject is None`, not emptiness)' % t.split('.')[-1])
            rep.check(ok, 'C01.10', 'PGPKey.sign', 'subject %s -> %s' % (name, t), msg, where=fi.where,
                      expected='Timestamp' if name == 'None' else 'BinaryDocument / CanonicalDocument', found=t,
                      scenario='subject %s; decisions %s' % (name, [x[0] for x in s.facts]))
