"""C09 - Primitive wire codecs (partial): agreement between the sites that must share a constant or a dependency.

  C09.1 new-format length: the branch thresholds and formulas of encoder (_new_length), decoder (_parse_len) and width selector
        (llen) agree with RFC 4880 4.2.2 at every boundary (guard and formula EXPRESSIONS are constant-folded by the checker)
  C09.2 the declared length-of-length depends on the value in both header formats; old-format widening condition is exact at the
        1/2/4-octet boundaries; the length-type maps of writer and reader are inverse
  C09.3 MPI: reader takes (bits + 7) // 8 octets after a two-octet count; writer emits the same shape; __len__ agrees
  C09.4 S2K coded count formula and setter bounds (with C12.3)
  C09.5 every datetime -> four octets site uses the UTC-correct idiom; every reader builds an aware UTC datetime
  C09.6 subpacket header: canonical length, (critical << 7) + type octet, reader splits with & 0x7f / & 0x80
  C09.7 int_to_bytes / bytes_to_int / int_byte_len primitives (the axioms every layout rule relies on)
Not decided: exactness for every value of the domain (would need enumeration by execution or a solver - other families).
"""
import ast

from sa.interp import Interp, Scenario, Sym, Const, Bytes, render, render_items, merge_consts
from sa.loader import AnalysisError, dotted
from sa.s2kshape import fold, _NoFold, check_count
from sa.timeidiom import check_time_sites

noinline = lambda f: False  # noqa: E731


def run(rep, prog, tier):
    rep.rule('C09.1', 'new-format length thresholds and formulas agree with RFC 4880 4.2.2 in encoder, decoder and width selector', floor=8)
    rep.rule('C09.2', 'length-of-length depends on the value; old-format widening exact at boundaries; type maps inverse', floor=5)
    rep.rule('C09.3', 'MPI reader/writer/length expression shapes', floor=4)
    rep.rule('C09.4', 'S2K coded count', floor=3)
    rep.rule('C09.5', 'timestamp idioms (writer UTC-correct, reader aware UTC)', floor=7)
    rep.rule('C09.6', 'subpacket header octets', floor=4)
    rep.rule('C09.7', 'integer/octet primitives', floor=3)
    rep.rule('C09.8', 'packet tag octet: writer and reader agree for every tag, format and length type; partial-length accumulation', floor=5)
    rep.assume('guard and formula expressions are folded by the checker\'s own integer evaluator at RFC boundary values; no repo code runs')

    H = prog.cls('pgpy.types', 'Header')
    new_format(rep, prog, H)
    widths(rep, prog, H)
    mpi(rep, prog)
    check_count(rep, prog, 'C09.4')
    times(rep, prog)
    subpacket_header(rep, prog)
    primitives(rep, prog)
    tag_octet(rep, prog)


def _nested(fn_node, name):
    for n in ast.walk(fn_node):
        if isinstance(n, ast.FunctionDef) and n.name == name:
            return n
    return None


def _if_chain(body):
    """[(test or None, stmts)] for an if/elif/else chain that is the first statement of `body` (plus trailing fallthrough)."""
    arms = []
    node = next((s for s in body if isinstance(s, ast.If)), None)
    rest = []
    if node is not None:
        rest = body[body.index(node) + 1:]
    while isinstance(node, ast.If):
        arms.append((node.test, node.body))
        if len(node.orelse) == 1 and isinstance(node.orelse[0], ast.If):
            node = node.orelse[0]
        else:
            if node.orelse:
                arms.append((None, node.orelse))
            node = None
    if rest:
        arms.append((None, rest))
    return arms


def _arm_of(arms, env):
    for i, (t, body) in enumerate(arms):
        if t is None or fold(t, env):
            return i
    return None


def new_format(rep, prog, H):
    enc = H.methods.get('encode_length')
    nl = _nested(enc.node, '_new_length')
    if nl is None:
        raise AnalysisError('Header.encode_length._new_length vanished')
    rep.saw(fn=enc)
    p = nl.args.args[0].arg
    arms = _if_chain(nl.body)
    try:
        # encoder arm selection at the RFC boundaries
        want = {0: 0, 1: 0, 191: 0, 192: 1, 193: 1, 8383: 1, 8384: 2, 8385: 2, 65535: 2, 0xFFFFFFFF: 2}
        got = {n: _arm_of(arms, {p: n}) for n in want}
        rep.check(got == want, 'C09.1', 'Header.encode_length._new_length', 'arm per length %s' % {k: v for k, v in got.items() if want[k] != v},
                  'lengths 0..191 take one octet, 192..8383 two octets, above that five (RFC 4880 4.2.2)', where='%s:%d' % (enc.module.relpath, nl.lineno),
                  expected=want, found=got)
        # two-octet formula: value emitted = ((n - 192) >> 8) + 192 , (n - 192) & 0xFF
        ret2 = [s for s in arms[1][1] if isinstance(s, ast.Return)] if len(arms) > 1 else []
        formula = None
        env_assign = {}
        for s in arms[1][1] if len(arms) > 1 else []:
            if isinstance(s, ast.Assign) and isinstance(s.targets[0], ast.Name):
                env_assign[s.targets[0].id] = s.value
        if ret2 and isinstance(ret2[0].value, ast.Call) and ret2[0].value.args:
            formula = ret2[0].value.args[0]
            if isinstance(formula, ast.Name) and formula.id in env_assign:
                formula = env_assign[formula.id]
            width = ret2[0].value.args[1] if len(ret2[0].value.args) > 1 else None
        if formula is None:
            raise AnalysisError('_new_length: two-octet arm has an unrecognised shape')
        bad = None
        for n in list(range(192, 8384)):
            v = fold(formula, {p: n})
            exp = ((((n - 192) >> 8) + 192) << 8) + ((n - 192) & 0xFF)
            if v != exp:
                bad = (n, v, exp)
                break
        rep.check(bad is None and width is not None and fold(width, {}) == 2, 'C09.1', 'Header.encode_length._new_length', 'two-octet formula %s' % ast.unparse(formula),
                  'two-octet encoding must be ((n - 192) >> 8) + 192, (n - 192) & 0xFF' + ('' if bad is None else ': n=%d gives %#x, RFC %#x' % bad),
                  where='%s:%d' % (enc.module.relpath, nl.lineno), found=ast.unparse(formula))
        r5 = [s for s in arms[2][1] if isinstance(s, ast.Return)] if len(arms) > 2 else []
        rep.check(bool(r5) and ast.unparse(r5[0].value).replace(' ', '') in ("b'\\xff'+Header.int_to_bytes(nl,4)".replace('nl', p),), 'C09.1',
                  'Header.encode_length._new_length', 'five-octet form %s' % (ast.unparse(r5[0].value) if r5 else None),
                  'five-octet encoding is 0xFF followed by the four-octet length', where='%s:%d' % (enc.module.relpath, nl.lineno))
    except _NoFold as ex:
        raise AnalysisError('_new_length: expression not foldable: %s' % ex)
    # decoder
    lb = None
    for tn, f in H.props['length'].setter_order:
        if tn in ('bytes', 'bytearray'):
            lb = f
    if lb is None:
        raise AnalysisError('Header.length binary setter vanished')
    rep.saw(fn=lb)
    pl = _nested(lb.node, '_parse_len')
    if pl is None:
        raise AnalysisError('Header.length_bin._parse_len vanished')
    fo_assign = [s for s in pl.body if isinstance(s, ast.Assign) and isinstance(s.targets[0], ast.Name)]
    fo = fo_assign[0].targets[0].id if fo_assign else 'fo'
    arms = _if_chain(pl.body)
    try:
        want = {}
        for v in range(256):
            want[v] = 0 if v < 192 else 1 if v < 224 else 2 if v < 255 else 3
        got = {v: _arm_of(arms, {fo: v}) for v in range(256)}
        diff = {k: (got[k], want[k]) for k in want if got[k] != want[k]}
        rep.check(not diff, 'C09.1', 'Header.length_bin._parse_len', 'arm per first octet %s' % dict(list(diff.items())[:4]),
                  'first octet < 192: one octet; 192..223: two octets; 224..254: partial body length; 255: five octets', where='%s:%d' % (lb.module.relpath, pl.lineno),
                  expected='RFC 4880 4.2.2 ranges', found=dict(list(diff.items())[:6]))
        # returned tuples: (value, size, partial)
        def ret_tuple(i):
            r = [s for s in arms[i][1] if isinstance(s, ast.Return)]
            return r[0].value.elts if r and isinstance(r[0].value, ast.Tuple) and len(r[0].value.elts) == 3 else None
        t0, t1, t2, t3 = (ret_tuple(i) if i < len(arms) else None for i in range(4))
        sizes = [fold(t[1], {}) if t else None for t in (t0, t1, t2, t3)]
        parts = [ast.unparse(t[2]) if t else None for t in (t0, t1, t2, t3)]
        rep.check(sizes == [1, 2, 1, 5] and parts == ['False', 'False', 'True', 'False'], 'C09.1', 'Header.length_bin._parse_len',
                  'field sizes %s partial flags %s' % (sizes, parts), 'the length field occupies 1 / 2 / 1 (partial) / 5 octets', where='%s:%d' % (lb.module.relpath, pl.lineno))
        # partial length: 1 << (fo & 0x1F)
        bad = None
        if t2 is not None:
            for v in range(224, 255):
                if fold(t2[0], {fo: v}) != (1 << (v & 0x1F)):
                    bad = (v, fold(t2[0], {fo: v}), 1 << (v & 0x1F))
                    break
        rep.check(t2 is not None and bad is None, 'C09.1', 'Header.length_bin._parse_len', 'partial length %s' % (ast.unparse(t2[0]) if t2 else None),
                  'a partial body length octet encodes 1 << (octet & 0x1F)' + ('' if bad is None else ': octet %#x gives %d, RFC %d' % bad),
                  where='%s:%d' % (lb.module.relpath, pl.lineno), expected='1 << (fo & 0x1f)', found=ast.unparse(t2[0]) if t2 else None)
        # two-octet decode: ((o1 - 192) << 8) + o2 + 192 with dlen = (o1 << 8) + o2
        dl = [s for s in arms[1][1] if isinstance(s, ast.Assign)]
        bad = None
        if t1 is not None and dl:
            dn = dl[0].targets[0].id
            for o1 in range(192, 224):
                for o2 in (0, 1, 127, 255):
                    v = fold(t1[0], {dn: (o1 << 8) + o2})
                    exp = ((o1 - 192) << 8) + o2 + 192
                    if v != exp:
                        bad = (o1, o2, v, exp)
                        break
                if bad:
                    break
            src_ok = ast.unparse(dl[0].value).replace(' ', '').endswith('[offset:offset+2])')
        else:
            src_ok = False
        rep.check(t1 is not None and bad is None and src_ok, 'C09.1', 'Header.length_bin._parse_len', 'two-octet decode %s' % (ast.unparse(t1[0]) if t1 else None),
                  'two-octet lengths decode as ((o1 - 192) << 8) + o2 + 192' + ('' if bad is None else ': %#x %#x gives %d, RFC %d' % bad),
                  where='%s:%d' % (lb.module.relpath, pl.lineno))
        rep.check(t3 is not None and ast.unparse(t3[0]).replace(' ', '').endswith('[offset+1:offset+5])'), 'C09.1', 'Header.length_bin._parse_len',
                  'five-octet decode %s' % (ast.unparse(t3[0]) if t3 else None), 'five-octet lengths are the four octets after 0xFF', where='%s:%d' % (lb.module.relpath, pl.lineno))
    except _NoFold as ex:
        raise AnalysisError('_parse_len: expression not foldable: %s' % ex)
    # width selector (llen getter, new format arm)
    g = H.props['llen'].getter
    rep.saw(fn=g)
    outer = _if_chain(g.node.body)
    new_arm = None
    for t, body in outer:
        if t is not None and ast.unparse(t).replace(' ', '') in ('lf==1', 'self._lenfmt==1'):
            new_arm = body
    if new_arm is None:
        raise AnalysisError('Header.llen: new-format arm not found')
    arms = _if_chain(new_arm)
    try:
        want = {0: 1, 191: 1, 192: 2, 8383: 2, 8384: 5, 100000: 5}
        got = {}
        for n in want:
            i = _arm_of(arms, {'self.length': n})
            r = [s for s in arms[i][1] if isinstance(s, ast.Return)]
            got[n] = fold(r[0].value, {}) if r else None
        rep.check(got == want, 'C09.1', 'Header.llen', 'width per length %s' % {k: v for k, v in got.items() if want[k] != v},
                  'the declared width must be the width the encoder actually uses (1 below 192, 2 below 8384, else 5)', where=g.where, expected=want, found=got)
    except _NoFold as ex:
        raise AnalysisError('Header.llen: expression not foldable: %s' % ex)


def widths(rep, prog, H):
    g = H.props['llen'].getter
    outer = _if_chain(g.node.body)
    old_arm = None
    for t, body in outer:
        if t is None:
            old_arm = body
    if old_arm is None:
        raise AnalysisError('Header.llen: old-format arm not found')
    uses_length = any(isinstance(n, ast.Attribute) and n.attr in ('length', '_len') for s in old_arm for n in ast.walk(s))
    where = '%s:%d' % (g.module.relpath, old_arm[0].lineno)
    if not uses_length:
        rep.violation('C09.2', 'Header.llen', 'old-format arm: %s' % ' ; '.join(ast.unparse(s) for s in old_arm),
                      'for old-format headers the length-of-length is whatever was parsed and never depends on the current length: a body that '
                      'outgrows it is written with more length octets than the tag octet announces', where=where,
                      expected='width recomputed from the length (as the new-format arm does)', found=' ; '.join(ast.unparse(s) for s in old_arm))
    else:
        wl = [n for s in old_arm for n in ast.walk(s) if isinstance(n, ast.While)]
        if len(wl) != 1:
            raise AnalysisError('Header.llen old-format arm: unrecognised widening shape')
        test = wl[0].test
        var = None
        for s in old_arm:
            if isinstance(s, ast.Assign) and isinstance(s.targets[0], ast.Name):
                var = s.targets[0].id
        try:
            want = {(255, 1): False, (256, 1): True, (257, 1): True, (65535, 2): False, (65536, 2): True, (65537, 2): True,
                    (1 << 31, 4): False, (5, 0): False, (0, 1): False}
            got = {k: bool(fold(test, {'self.length': k[0], var: k[1]})) for k in want}
            diff = {k: got[k] for k in want if got[k] != want[k]}
            rep.check(not diff, 'C09.2', 'Header.llen', 'widen condition %s wrong at %s' % (ast.unparse(test), diff),
                      'an old-format length field must widen exactly when the length no longer fits: 256 needs two octets, 65536 needs four',
                      where=where, expected='widen iff length >= 2 ** (8 * llen)', found={str(k): v for k, v in diff.items()})
        except _NoFold as ex:
            raise AnalysisError('Header.llen widening test not foldable: %s' % ex)
        step = [ast.unparse(s) for s in wl[0].body]
        rep.check(step in (['%s *= 2' % var], ['%s = %s * 2' % (var, var)]), 'C09.2', 'Header.llen', 'widening step %s' % step,
                  'old-format widths are 1, 2, 4', where=where)
        rets = [s for s in old_arm if isinstance(s, ast.Return)]
        rep.check(bool(rets) and ast.unparse(rets[-1].value) == var, 'C09.2', 'Header.llen', 'returns the widened width', 'the widened value must be what is declared', where=where)
    # writer type bits and reader map are inverse
    hb = prog.method('pgpy.packet.types', 'Header', '__bytearray__')
    wmap = rmap = None
    for n in ast.walk(hb.node):
        if isinstance(n, ast.Dict):
            try:
                wmap = ast.literal_eval(n)
            except Exception:
                pass
    li = prog.cls('pgpy.types', 'Header').props['llen'].setters.get('int')
    for n in ast.walk(li.node):
        if isinstance(n, ast.Dict):
            try:
                rmap = ast.literal_eval(n)
            except Exception:
                pass
    rep.check(wmap == {1: 0, 2: 1, 4: 2, 0: 3} and rmap == {0: 1, 1: 2, 2: 4, 3: 0}, 'C09.2', 'Header length-type maps', 'writer %s reader %s' % (wmap, rmap),
              'old-format length-type bits: 0 -> 1 octet, 1 -> 2, 2 -> 4, 3 -> indeterminate, both ways', where=hb.where)
    # the writer takes both the type bits and the octets from the same llen / length
    for s in Interp(prog, Scenario(bind={'self._lenfmt': Const(0)}, inline=noinline)).run(hb):
        r = render(s.ret)
        rep.check('[self.llen]' in r and 'self.encode_length(self.length, 0, self.llen)' in r, 'C09.2', 'packet Header.__bytearray__', 'old format: %s' % r[:120],
                  'type bits and length octets must come from the same (llen, length) pair', where=hb.where)
    ol = prog.method('pgpy.types', 'Header', 'encode_length')
    o = _nested(ol.node, '_old_length')
    rep.check(o is not None and ast.unparse(o.body[-1]).replace(' ', '') == "returnHeader.int_to_bytes(nl,llen)ifllen>0elseb''", 'C09.2',
              'Header.encode_length._old_length', ast.unparse(o.body[-1]) if o else None, 'old-format length is llen big-endian octets (none for indeterminate)', where=ol.where)
    # parse side of old format
    lbsrc = None
    for tn, f in prog.cls('pgpy.types', 'Header').props['length'].setter_order:
        if tn in ('bytes', 'bytearray'):
            lbsrc = f
    oln = _nested(lbsrc.node, '_old_len')
    t = ast.unparse(oln).replace(' ', '') if oln else ''
    rep.check('self._len=self.bytes_to_int(b[:self.llen])' in t and 'delb[:self.llen]' in t, 'C09.2', 'Header.length_bin._old_len', 'reads and consumes llen octets',
              'old-format length is read from, and consumes, exactly llen octets', where=lbsrc.where)


def mpi(rep, prog):
    M = prog.cls('pgpy.packet.types', 'MPI')
    n = M.methods.get('__new__')
    src = ast.unparse(n.node).replace(' ', '')
    rep.check('fl=(MPIs.bytes_to_int(num[:2])+7)//8' in src and 'delnum[:2]' in src and 'mpi=MPIs.bytes_to_int(num[:fl])' in src and 'delnum[:fl]' in src,
              'C09.3', 'MPI.__new__', 'two-octet bit count, then (bits + 7) // 8 octets, each consumed',
              'an MPI is a two-octet bit count followed by ceil(bits / 8) octets (RFC 4880 3.2)', where=n.where)
    for name, exp in (('byte_length', '((self.bit_length() + 7) // 8)'), ('__len__', '(self.byte_length() + 2)')):
        f = M.methods.get(name)
        for s in Interp(prog, Scenario(inline=noinline)).run(f):
            rep.check(render(s.ret) == exp, 'C09.3', 'MPI.%s' % name, render(s.ret), 'MPI octet length is ceil(bits / 8); total length adds the two count octets',
                      where=f.where, expected=exp, found=render(s.ret))
    f = M.methods.get('to_mpibytes')
    for s in Interp(prog, Scenario(inline=noinline)).run(f):
        r = render(s.ret)
        rep.check(r == 'INT(2;self.bit_length()) INT(self.byte_length();self)', 'C09.3', 'MPI.to_mpibytes', r,
                  'an MPI is written as its bit length in two octets followed by the value in ceil(bits / 8) octets', where=f.where,
                  expected='INT(2;bit_length) INT(byte_length;value)', found=r)


def times(rep, prog):
    n = check_time_sites(rep, prog, 'C09.5')
    # readers: int -> aware UTC datetime ; bytes -> int
    sites = [('pgpy.packet.packets', 'PubKeyV4', 'created'), ('pgpy.packet.packets', 'LiteralData', 'mtime'),
             ('pgpy.packet.subpackets.signature', 'CreationTime', 'created')]
    for mod, cls, prop in sites:
        c = prog.cls(mod, cls)
        p = c.props.get(prop)
        if p is None:
            raise AnalysisError('%s.%s sdproperty vanished' % (cls, prop))
        si = p.setters.get('int')
        sb = p.setters.get('bytearray') or p.setters.get('bytes')
        if si is None or sb is None:
            raise AnalysisError('%s.%s int/bytes setters vanished' % (cls, prop))
        for s in Interp(prog, Scenario(inline=noinline)).run(si):
            v = [val for pth, val, l, _ in s.stores if pth == 'self.%s' % prop]
            rep.check(v == ['datetime.fromtimestamp(val, timezone.utc)'], 'C09.5', '%s.%s (int)' % (cls, prop), '%s' % v,
                      'four-octet times are seconds since 1970 UTC and must become aware UTC datetimes', where=si.where,
                      expected='datetime.fromtimestamp(val, timezone.utc)', found=v)
        for s in Interp(prog, Scenario(inline=noinline)).run(sb):
            v = [val for pth, val, l, _ in s.stores if pth == 'self.%s' % prop]
            rep.check(v == ['self.bytes_to_int(val)'], 'C09.5', '%s.%s (bytes)' % (cls, prop), '%s' % v, 'the four octets are one big-endian number', where=sb.where)
    ex = prog.cls('pgpy.packet.subpackets.signature', 'SignatureExpirationTime')
    f = ex.methods.get('__bytearray__')
    for s in Interp(prog, Scenario()).run(f):
        rep.check(render(s.ret).endswith('INT(4;int(self.expires.total_seconds()))'), 'C09.5', 'SignatureExpirationTime.__bytearray__', render(s.ret)[-60:],
                  'expiration times are written as whole seconds in four octets', where=f.where)


def subpacket_header(rep, prog):
    SH = prog.cls('pgpy.packet.subpackets.types', 'Header')
    f = SH.methods.get('__bytearray__')
    for s in Interp(prog, Scenario(inline=noinline)).run(f):
        r = render(s.ret)
        rep.check(r == 'self.encode_length(self.length) INT(1;((int(self.critical) << 7) + self.typeid))', 'C09.6', 'subpacket Header.__bytearray__', r,
                  'a subpacket header is its new-format length followed by the type octet with the critical bit in bit 7', where=f.where,
                  expected='encode_length(length) INT(1;(critical << 7) + typeid)', found=r)
    ti = SH.props['typeid'].setters.get('int')
    for s in Interp(prog, Scenario(inline=noinline)).run(ti):
        v = [val for pth, val, l, _ in s.stores if pth == 'self._typeid']
        rep.check(v == ['(val & 127)'], 'C09.6', 'subpacket Header.typeid_int', '%s' % v, 'the type is the low seven bits', where=ti.where)
    tb = SH.props['typeid'].setters.get('bytearray') or SH.props['typeid'].setters.get('bytes')
    for s in Interp(prog, Scenario(inline=noinline, forward_stores=False)).run(tb):
        st = {pth: val for pth, val, l, _ in s.stores}
        rep.check(st.get('self.typeid') == 'self.bytes_to_int(val)' and st.get('self.critical') == 'bool((self.bytes_to_int(val) & 128))', 'C09.6',
                  'subpacket Header.typeid_bin', '%s' % st, 'the critical flag is bit 7 of the type octet', where=tb.where)
    ln = SH.methods.get('__len__')
    for s in Interp(prog, Scenario(inline=noinline)).run(ln):
        rep.check(render(s.ret) == '(self.llen + 1)', 'C09.6', 'subpacket Header.__len__', render(s.ret), 'header length = length field + type octet', where=ln.where)
    ps = SH.methods.get('parse')
    src = ast.unparse(ps.node).replace(' ', '')
    rep.check('self.length=packet' in src and 'self.typeid=packet[:1]' in src and 'delpacket[:1]' in src, 'C09.6', 'subpacket Header.parse',
              'length then one type octet, consumed', 'reader mirrors the writer', where=ps.where)


def primitives(rep, prog):
    P = prog.cls('pgpy.types', 'PGPObject')
    f = P.methods.get('int_byte_len')
    for s in Interp(prog, Scenario(inline=noinline)).run(f):
        rep.check(render(s.ret) == '((i.bit_length() + 7) // 8)', 'C09.7', 'PGPObject.int_byte_len', render(s.ret), 'octets needed = ceil(bits / 8)', where=f.where)
    f = P.methods.get('int_to_bytes')
    for s in Interp(prog, Scenario(inline=noinline, args={'order': Const('big')})).run(f):
        r = render(s.ret)
        rep.check(r == "i.to_bytes(max(minlen, PGPObject.int_byte_len(i), 1), 'big')", 'C09.7', 'PGPObject.int_to_bytes', r,
                  'int_to_bytes(i, n) emits max(n, octets needed, 1) big-endian octets (the axiom all layout rules use)', where=f.where,
                  expected="i.to_bytes(max(minlen, int_byte_len(i), 1), 'big')", found=r)
    d = f.node.args.defaults
    rep.check([ast.literal_eval(x) for x in d] == [1, 'big'], 'C09.7', 'PGPObject.int_to_bytes', 'defaults %s' % [ast.unparse(x) for x in d],
              'default width 1, big-endian', where=f.where)
    f = P.methods.get('bytes_to_int')
    for s in Interp(prog, Scenario(inline=noinline, args={'order': Const('big')})).run(f):
        rep.check(render(s.ret) == "int.from_bytes(b, 'big')", 'C09.7', 'PGPObject.bytes_to_int', render(s.ret), 'big-endian octets to integer', where=f.where)


def tag_octet(rep, prog):
    PH = prog.cls('pgpy.packet.types', 'Header')
    hb = PH.methods['__bytearray__']
    exprs = {}
    for lf in (0, 1):
        for s in Interp(prog, Scenario(bind={'self._lenfmt': Const(lf)}, inline=noinline)).run(hb):
            its = merge_consts(s.ret.items) if isinstance(s.ret, Bytes) else []
            if not its or its[0][0] != 'INT' or its[0][1] != '1':
                raise AnalysisError('packet Header.__bytearray__: first term is not the one-octet tag')
            try:
                exprs[lf] = ast.parse(its[0][2], mode='eval').body
            except SyntaxError:
                raise AnalysisError('packet Header.__bytearray__: tag expression not parseable: %s' % its[0][2])
    try:
        bad = None
        for tag in range(64):
            o = fold(exprs[1], {'self.tag': tag})
            if o != (0xC0 | tag):
                bad = ('new', tag, o, 0xC0 | tag)
                break
        rep.check(bad is None, 'C09.8', 'packet Header.__bytearray__', 'new-format tag octet %s' % (bad,), 'a new-format tag octet is 0xC0 | tag (RFC 4880 4.2)',
                  where=hb.where, found=ast.unparse(exprs[1]))
        bad = None
        for tag in range(16):
            for llen, lt in ((1, 0), (2, 1), (4, 2), (0, 3)):
                o = fold(exprs[0], {'self.tag': tag, 'self.llen': llen})
                if o != (0x80 | (tag << 2) | lt):
                    bad = ('old', tag, llen, o, 0x80 | (tag << 2) | lt)
                    break
            if bad:
                break
        rep.check(bad is None, 'C09.8', 'packet Header.__bytearray__', 'old-format tag octet %s' % (bad,),
                  'an old-format tag octet is 0x80 | tag << 2 | length-type (RFC 4880 4.2)', where=hb.where, found=ast.unparse(exprs[0]))
    except _NoFold as ex:
        raise AnalysisError('packet Header tag expression not foldable: %s' % ex)
    # reader
    hp = PH.methods['parse']
    asg = {}
    for n in ast.walk(hp.node):
        if isinstance(n, ast.Assign) and isinstance(n.targets[0], ast.Attribute):
            asg.setdefault(n.targets[0].attr, n.value)
    ti = PH.props['tag'].setters.get('int')
    tval = None
    for n in ast.walk(ti.node):
        if isinstance(n, ast.Assign) and isinstance(n.targets[0], ast.Name) and n.targets[0].id == '_tag':
            tval = n.value
    if '_lenfmt' not in asg or 'llen' not in asg or tval is None or ast.unparse(asg.get('tag')) != 'packet[0]':
        raise AnalysisError('packet Header.parse / tag_int: unrecognised shape')
    pv = ti.params[1]
    try:
        bad = None
        for o in range(0x80, 0x100):
            lf = fold(asg['_lenfmt'], {'packet[0]': o})
            t = fold(tval, {pv: o, 'self._lenfmt': lf})
            want_lf = (o >> 6) & 1
            want_t = (o & 0x3F) if want_lf else ((o >> 2) & 0x0F)
            lt = fold(asg['llen'], {'packet[0]': o})
            if lf != want_lf or t != want_t or (not want_lf and lt != (o & 3)):
                bad = (hex(o), lf, t, lt)
                break
        rep.check(bad is None, 'C09.8', 'packet Header.parse', 'tag octet decode %s' % (bad,),
                  'bit 6 selects the format; new format: tag = low six bits; old format: tag = bits 5..2, length type = bits 1..0', where=hp.where)
    except _NoFold as ex:
        raise AnalysisError('packet Header.parse expression not foldable: %s' % ex)
    ifs = [n for n in ast.walk(hp.node) if isinstance(n, ast.If) and any(ast.unparse(x) == 'self.length = packet' for x in n.body)]
    ok = len(ifs) == 1
    if ok:
        try:
            tbl = {(lf, ll): bool(fold(ifs[0].test, {'self._lenfmt': lf, 'self.llen': ll})) for lf in (0, 1) for ll in (0, 1, 2, 4)}
            ok = tbl == {(0, 0): False, (0, 1): True, (0, 2): True, (0, 4): True, (1, 0): True, (1, 1): True, (1, 2): True, (1, 4): True}
        except _NoFold:
            ok = False
        ok = ok and any(ast.unparse(x).replace(' ', '') == 'self.length=len(packet)' for x in ifs[0].orelse)
    rep.check(ok, 'C09.8', 'packet Header.parse', 'length present unless old-format type 3', 'an old-format header of length type 3 has no length field: '
              'the body runs to the end of the data; every other header carries a length', where=hp.where)
    # partial body lengths: each chunk header is removed where it sits and the chunk lengths add up
    lb = None
    for tn, f in prog.cls('pgpy.types', 'Header').props['length'].setter_order:
        if tn in ('bytes', 'bytearray'):
            lb = f
    nl = _nested(lb.node, '_new_len')
    t = ast.unparse(nl).replace(' ', '') if nl else ''
    ok = 'part_len,size,partial=_parse_len(b)' in t and 'delb[:size]' in t and 'total=part_len' in t and 'whilepartial:' in t and \
        'part_len,size,partial=_parse_len(b,total)' in t and 'delb[total:total+size]' in t and 'total+=part_len' in t and 'self._len=total' in t and \
        t.index('delb[total:total+size]') < t.index('total+=part_len')
    rep.check(ok, 'C09.8', 'Header.length_bin._new_len', 'partial-length accumulation', 'after a partial chunk the next length field sits `total` octets in; it is '
              'removed there (all its octets) and the chunk lengths add up to the body length', where=lb.where)
