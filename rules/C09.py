"""C09 - Primitive wire codecs (partial): every numeric field codec denotes the RFC 4880 function at the RFC boundary points.

The codecs are decided by *what they compute*, not by how the source spells it: the checker's own finite-point evaluator
(sa/ceval.py) walks the canonicalised AST of the codec functions over checker-side values - integers, a run-length model of
a bytearray that records what `del buf[a:b]` consumes, instances described by the class table - at the boundary values of the
RFC formulas and compares octets / values / consumed widths with the RFC's own definition computed by the checker.  Objects
are driven through their public surface (constructor, `parse`, property stores dispatched through the sdproperty table,
`__bytearray__`, `len`), so closures vs methods vs inline code, temporaries, class constants, conditional expressions vs
if-statements, guard clauses, keyword arguments and helper extraction cannot change a verdict.  No repository code runs.

  C09.1 new-format length (RFC 4880 4.2.2): encoder at every boundary (0..191 one octet, 192..8383 two, else five), decoder for
        every first octet (value and octets consumed), partial body length 1 << (o & 0x1F), declared width = emitted width
  C09.2 old-format length: 1/2/4/0 octets by length type both ways, the declared width widens exactly when the length no
        longer fits, type bits and length octets come from the same width
  C09.3 MPI: two-octet bit count + ceil(bits / 8) octets, reader consumes exactly that, writer / byte_length / len agree
  C09.4 S2K coded count (16 + (c & 15)) << ((c >> 4) + 6) for all 256 octets; setter accepts exactly 0..255 (with C12.3)
  C09.5 every datetime -> four octets site uses the UTC-correct idiom; every reader builds an aware UTC datetime
  C09.6 subpacket header: new-format length, (critical << 7) | type octet, reader splits with & 0x7f / & 0x80, len
  C09.7 int_to_bytes / bytes_to_int / int_byte_len primitives (the axioms every layout rule relies on)
  C09.8 packet tag octet, both formats, writer and reader, all tags; partial-length chains add up and every chunk header is
        removed where it sits
Not decided: exactness for every value of the domain (finite boundary points only - stated in the evidence).
"""
import ast

from sa.interp import Interp, Scenario, render
from sa.loader import AnalysisError
from sa.ceval import Evaluator, VBuf, Obj, NoEval, Raised, Diverged, GAP_ERRORS
from sa.timeidiom import time_sites

noinline = lambda f: False  # noqa: E731


def run(rep, prog, tier):
    rep.rule('C09.1', 'new-format length thresholds and formulas agree with RFC 4880 4.2.2 in encoder, decoder and width selector', floor=8)
    rep.rule('C09.2', 'length-of-length depends on the value; old-format widening exact at boundaries; type maps inverse', floor=5)
    rep.rule('C09.3', 'MPI reader/writer/length agree with RFC 4880 3.2', floor=4)
    rep.rule('C09.4', 'S2K coded count', floor=3)
    rep.rule('C09.5', 'timestamp idioms (writer UTC-correct, reader aware UTC)', floor=7)
    rep.rule('C09.6', 'subpacket header octets', floor=4)
    rep.rule('C09.7', 'integer/octet primitives', floor=3)
    rep.rule('C09.8', 'packet tag octet: writer and reader agree for every tag, format and length type; partial-length accumulation', floor=5)
    rep.assume('codec functions are evaluated by the checker\'s own finite-point evaluator (sa/ceval.py) over the canonical AST at '
               'RFC boundary values; Python integer / bytes primitives are modelled by the checker; no repo code runs')

    H = prog.cls('pgpy.types', 'Header')
    B = Bench(rep, prog)
    newformat(rep, prog, B)
    widths(rep, prog, H, B)
    mpi(rep, prog, B)
    s2k_count(rep, prog, B)
    times(rep, prog)
    subpacket_header(rep, prog, B)
    primitives(rep, prog, B)
    tagoctet(rep, prog, B)
    partial(rep, prog, B)
    for q in sorted(B.E.touched):
        rep.saw(fn=q)


# ------------------------------------------------------------------------------------------------- RFC 4880, computed by the checker
def rfc_new_length(n):
    """4.2.2: one octet below 192, two octets below 8384, else 0xFF + four octets."""
    if n < 192:
        return bytes([n])
    if n < 8384:
        return bytes([((n - 192) >> 8) + 192, (n - 192) & 0xFF])
    return b'\xff' + n.to_bytes(4, 'big')


OLD_TYPE_OF_WIDTH = {1: 0, 2: 1, 4: 2, 0: 3}        # 4.2.1
WIDTH_OF_OLD_TYPE = {0: 1, 1: 2, 2: 4, 3: 0}


def rfc_old_width(parsed, n):
    """Width of an old-format length field that was `parsed` octets wide and must now hold n."""
    w = parsed
    while 0 < w < 4 and n >= (1 << (8 * w)):
        w *= 2
    return w


def rfc_count(c):
    return (16 + (c & 15)) << ((c >> 4) + 6)         # 3.7.1.3, EXPBIAS = 6


def octets_needed(i):
    return (i.bit_length() + 7) // 8


LENGTH_POINTS = sorted(set(
    list(range(0, 8704)) +
    [8190, 8191, 8192, 8193, 8382, 8383, 8384, 8385, 8386, 8447, 8448, 8575, 8576, 16319, 16320, 16383, 16384, 65535, 65536, 65537,
     (1 << 24) - 1, 1 << 24, (1 << 31) - 1, 1 << 31, (1 << 32) - 2, (1 << 32) - 1]))


# ------------------------------------------------------------------------------------------------- bench
def snap(v):
    """Comparable snapshot of an octet string (a huge run-length buffer stays run-length)."""
    if isinstance(v, VBuf):
        return v.tobytes() if len(v) <= 4096 else ('octets',) + tuple((a, b) for a, b in v.runs)
    if isinstance(v, (bytes, bytearray)):
        return bytes(v)
    if isinstance(v, Obj) and v.ival is not None:
        return v.ival
    if isinstance(v, bool):
        return v
    return v


def show(x):
    if isinstance(x, tuple) and x and x[0] == 'ok':
        return show(x[1])
    if isinstance(x, tuple) and x and x[0] == 'raise':
        return 'raises %s' % x[1]
    if isinstance(x, tuple) and x and x[0] == 'diverged':
        return 'does not terminate'
    if isinstance(x, bytes):
        return x.hex() if len(x) <= 24 else '%s..(%d octets)' % (x[:12].hex(), len(x))
    if isinstance(x, tuple) and x and x[0] == 'octets':
        return 'octets[%s]' % ' '.join('%02x*%d' % r for r in x[1:6])
    if isinstance(x, tuple):
        return '(%s)' % ', '.join(show(e) for e in x)
    if isinstance(x, int) and not isinstance(x, bool) and x.bit_length() > 128:
        return '<integer of %d bits, low octets ..%x>' % (x.bit_length(), x & 0xFFFFFFFF)
    return repr(x)


class Bench(object):
    """Runs evaluator thunks; outcomes are ('ok', value) | ('raise', name) | ('diverged',).  Constructs the evaluator cannot
    model (or evaluator-level type / attribute errors, which are modelling gaps) end the analysis with exit 2."""
    def __init__(self, rep, prog):
        self.rep = rep
        self.prog = prog
        self.E = Evaluator(prog)

    def with_rep(self, rep):
        """The same evaluator reporting to `rep` (another property proxies these rules under its own rule id)."""
        if rep is self.rep:
            return self
        b = Bench.__new__(Bench)
        b.rep, b.prog, b.E = rep, self.prog, self.E
        return b

    def run(self, what, thunk):
        """('ok', v) | ('raise', name) | ('diverged',) | ('gap', why): evaluation left what the checker models / the state the bench set up."""
        try:
            return ('ok', thunk())
        except Raised as ex:
            if ex.name in GAP_ERRORS and not ex.sure:
                return ('gap', 'evaluation stopped with %s (%s)' % (ex.name, ex.detail))
            return ('raise', ex.name)
        except Diverged:
            return ('diverged',)
        except NoEval as ex:
            return ('gap', 'outside the checker\'s evaluator: %s' % ex)
        except RecursionError:
            return ('gap', 'recursion')

    def sweep(self, rid, construct, where, what, message, cases, rep=None):
        """cases: iterable of (label, thunk, expected outcome).  One rule instance; the first disagreeing point is reported.

        A point where evaluation cannot be completed (it reaches state outside the codec's own field, or a construct outside the
        evaluator) while other points of the same sweep evaluate is a value-dependent special case of the codec: the RFC function
        depends on the octets / the value alone, so that point is reported as a violation.  Only when NO point of the sweep can be
        evaluated is it a modelling gap (exit 2)."""
        rep = rep or self.rep
        bad, gap, n, done = None, None, 0, 0
        for label, thunk, want in cases:
            n += 1
            got = self.run('%s [%s]' % (construct, label), thunk)
            if got[0] == 'gap':
                if gap is None:
                    gap = (label, got, want)
                continue
            done += 1
            if got != want:
                bad = (label, got, want)
                break
        if bad is None and gap is not None:
            if done == 0:
                raise AnalysisError('%s [%s]: %s' % (construct, gap[0], gap[1][1]))
            label, got, want = gap
            rep.check(False, rid, construct, '%s: %s' % (what, label),
                      '%s: at %s the result depends on something other than the coded value (%s) while %d other points evaluate; RFC 4880 gives %s'
                      % (message, label, got[1], done, show(want)), where=where, expected=show(want), found=got[1], scenario=label)
            return False
        if bad is None:
            rep.check(True, rid, construct, what, message, where=where, detail='%s: %d points agree with the RFC' % (what, n))
            return True
        label, got, want = bad
        rep.check(False, rid, construct, '%s: %s' % (what, label), '%s: %s gives %s, RFC 4880 gives %s' % (message, label, show(got), show(want)),
                  where=where, expected=show(want), found=show(got), scenario=label)
        return False


def ok(v):
    return ('ok', v)


def _setter(E, ci, prop, tname):
    p = E._prop(ci, prop)
    return p[1].get(tname) if p else None


def _where(*fis):
    for f in fis:
        if f is not None:
            return f.where
    return None


# ------------------------------------------------------------------------------------------------- packet header bench
def packet_header(E, PH, octets):
    """Parse `octets` (VBuf, consumed in place) with a fresh packet Header."""
    h = E.new(PH)
    E.method(h, 'parse', octets)
    return h


def new_header_octets(tag, field, body=b''):
    buf = VBuf(bytes([0xC0 | tag]))
    buf.extend(field)
    buf.extend(body)
    return buf


# ------------------------------------------------------------------------------------------------- C09.1
def newformat(rep, prog, B=None):
    """C09.1 - new-format length encoder / decoder / declared width.  Callable with a rep proxy (C08 re-labels it): every
    outcome goes to `rep`."""
    B = (B or Bench(rep, prog)).with_rep(rep)
    E = B.E
    H = prog.cls('pgpy.types', 'Header')
    PH = prog.cls('pgpy.packet.types', 'Header')
    enc = H.find_method('encode_length')
    if enc is None:
        raise AnalysisError('Header.encode_length vanished')
    rep.saw(fn=enc)
    msg = 'lengths 0..191 take one octet, 192..8383 two octets ((n - 192) >> 8) + 192, (n - 192) & 0xFF, above that 0xFF and four octets (RFC 4880 4.2.2)'
    classes = (('one-octet lengths 0..191', lambda n: n < 192), ('two-octet lengths 192..8383', lambda n: 192 <= n < 8384),
               ('five-octet lengths 8384..2^32-1', lambda n: n >= 8384))
    for what, sel in classes:
        B.sweep('C09.1', 'Header.encode_length', enc.where, what, msg,
                (('length %d' % n, (lambda n=n: snap(E.call(enc, None, [n]))), ok(rfc_new_length(n))) for n in LENGTH_POINTS if sel(n)))
    # the default arguments select the new format (subpacket headers call encode_length(length))
    B.sweep('C09.1', 'Header.encode_length', enc.where, 'explicit new-format flag', msg,
            (('length %d, nhf=True' % n, (lambda n=n: snap(E.call(enc, None, [n, True]))), ok(rfc_new_length(n))) for n in (0, 191, 192, 8383, 8384, 1 << 24)))

    # decoder: a new-format packet header is parsed; what matters is the length it reports and the octets it leaves
    lb = _setter(E, H, 'length', 'bytearray')
    if lb is None:
        raise AnalysisError('Header.length binary setter vanished')
    rep.saw(fn=lb)
    body = b'\x5a\xa5body'

    def dec(field, extra=b''):
        def thunk():
            buf = new_header_octets(2, field, extra)
            buf.extend(body)
            h = packet_header(E, PH, buf)
            return (E.get(h, 'length'), snap(buf))
        return thunk

    def body_after(extra=b''):
        b = VBuf(extra)
        b.extend(body)
        return snap(b)
    dmsg = 'first octet < 192: one octet; 192..223: two octets ((o1 - 192) << 8) + o2 + 192; 224..254: partial body length; 255: four more octets'
    B.sweep('C09.1', 'Header.length (octets)', lb.where, 'one-octet length fields', dmsg,
            (('first octet %#04x' % o, dec(bytes([o])), ok((o, body_after()))) for o in range(0, 192)))
    B.sweep('C09.1', 'Header.length (octets)', lb.where, 'two-octet length fields', dmsg,
            (('octets %#04x %#04x' % (o1, o2), dec(bytes([o1, o2])), ok((((o1 - 192) << 8) + o2 + 192, body_after())))
             for o1 in range(192, 224) for o2 in (range(256) if o1 in (192, 207, 223) else (0, 1, 63, 64, 127, 128, 191, 192, 254, 255))))
    B.sweep('C09.1', 'Header.length (octets)', lb.where, 'five-octet length fields', dmsg,
            (('octets ff %s' % v.to_bytes(4, 'big').hex(), dec(b'\xff' + v.to_bytes(4, 'big')), ok((v, body_after())))
             for v in (0, 1, 191, 192, 8383, 8384, 65535, 65536, 0x01020304, 0x7fffffff, 0x80000000, 0xfffefdfc, 0xffffffff)))

    def partial(o):
        def thunk():
            buf = new_header_octets(2, bytes([o]))
            buf.extend(VBuf.fill(0x11, 1 << (o & 0x1F)))
            buf.extend(b'\x03abc')
            buf.extend(body)
            h = packet_header(E, PH, buf)
            return (E.get(h, 'length'), snap(buf))
        return thunk

    def partial_want(o):
        b = VBuf.fill(0x11, 1 << (o & 0x1F))
        b.extend(b'abc')
        b.extend(body)
        return ok(((1 << (o & 0x1F)) + 3, snap(b)))
    B.sweep('C09.1', 'Header.length (octets)', lb.where, 'partial body length octets', 'a partial body length octet 224..254 announces 1 << (octet & 0x1F) body octets, '
            'followed by the next length field (RFC 4880 4.2.2.4)', (('first octet %#04x' % o, partial(o), partial_want(o)) for o in range(224, 255)))

    # parse then serialise: whatever width the length arrived in (non-minimal five octets, partial chunks), what is written back is the
    # shortest encoding of the total length and len(header) is the number of octets written
    def reser(field, chunk=0):
        def thunk():
            buf = new_header_octets(2, field)
            if chunk:
                buf.extend(VBuf.fill(0x11, chunk))
                buf.extend(b'\x03abc')
            buf.extend(body)
            h = packet_header(E, PH, buf)
            out = E.method(h, '__bytearray__')
            return (E.get(h, 'length'), E.get(h, 'llen'), E.length(h), snap(out))
        return thunk

    def reser_want(n):
        f = rfc_new_length(n)
        return ok((n, len(f), 1 + len(f), b'\xc2' + f))
    cases = [('length field %s' % rfc_new_length(n).hex(), reser(rfc_new_length(n)), reser_want(n)) for n in (0, 5, 191, 192, 1723, 8383, 8384, 70000, (1 << 32) - 1)]
    cases += [('non-minimal length field ff %s' % n.to_bytes(4, 'big').hex(), reser(b'\xff' + n.to_bytes(4, 'big')), reser_want(n)) for n in (0, 5, 191, 192, 1723, 8383)]
    cases += [('partial octet %#04x then 03' % o, reser(bytes([o]), 1 << (o & 0x1F)), reser_want((1 << (o & 0x1F)) + 3)) for o in (0xE0, 0xE1, 0xE7, 0xE8, 0xED, 0xF1, 0xFE)]
    B.sweep('C09.1', 'packet Header (parse then write)', _where(PH.find_method('__bytearray__'), lb), 'parsed new-format header written back',
            'a header that was parsed is written with the shortest new-format encoding of its length - also when the length arrived as a non-minimal '
            'five-octet field or as partial body lengths - and len(header) is the number of octets written', cases)

    # declared width (llen, len) = emitted width
    g = E._prop(H, 'llen')
    g = g[0] if g else None
    if g is None:
        raise AnalysisError('Header.llen vanished')
    rep.saw(fn=g)

    def width(n):
        def thunk():
            h = packet_header(E, PH, new_header_octets(2, b'\x00'))
            E.set(h, 'length', n)
            return (E.get(h, 'llen'), E.length(h), snap(E.method(h, '__bytearray__')))
        return thunk
    B.sweep('C09.1', 'Header.llen', g.where, 'declared width of a new-format length',
            'the declared width must be the width the encoder emits (1 below 192, 2 below 8384, else 5)',
            (('length %d' % n, width(n), ok((len(rfc_new_length(n)), 1 + len(rfc_new_length(n)), b'\xc2' + rfc_new_length(n))))
             for n in (0, 1, 190, 191, 192, 193, 255, 256, 8382, 8383, 8384, 8385, 65535, 65536, 100000, 1 << 24, (1 << 32) - 1)))


    def width_seq(ns):
        def thunk():
            h = packet_header(E, PH, new_header_octets(2, b'\x00'))
            out = []
            for n in ns:
                E.set(h, 'length', n)
                out.append((E.get(h, 'llen'), E.length(h), snap(E.method(h, '__bytearray__'))))
            return tuple(out)
        return thunk
    B.sweep('C09.1', 'Header.llen', g.where, 'declared width follows successive length changes',
            'the declared width is a function of the current length (no first-value cache)',
            (('lengths %s' % (ns,), width_seq(ns), ok(tuple((len(rfc_new_length(n)), 1 + len(rfc_new_length(n)), b'\xc2' + rfc_new_length(n)) for n in ns)))
             for ns in ((100, 200, 9000, 100), (9000, 5), (191, 192, 191, 8384, 8383))))


# ------------------------------------------------------------------------------------------------- C09.2
def widths(rep, prog, H, B=None):
    """Old-format length field (also run by C08 under its own rule id through a proxy: keep the signature)."""
    B = (B or Bench(rep, prog)).with_rep(rep)
    E = B.E
    PH = prog.cls('pgpy.packet.types', 'Header')
    g = E._prop(H, 'llen')
    g = g[0] if g else None
    if g is None:
        raise AnalysisError('Header.llen vanished')
    hb = PH.find_method('__bytearray__')
    hp = PH.find_method('parse')
    enc = H.find_method('encode_length')
    if hb is None or hp is None or enc is None:
        raise AnalysisError('packet Header codec methods vanished')
    body = b'\x5a\xa5body'
    TAG = 6

    def old_octets(t, n, w):
        buf = VBuf(bytes([0x80 | (TAG << 2) | t]))
        if w:
            buf.extend(n.to_bytes(w, 'big'))
        buf.extend(body)
        return buf

    # reader: width by length type, value, consumption; type 3 has no length field and runs to the end of the data
    def rd(t, n):
        def thunk():
            buf = old_octets(t, n, WIDTH_OF_OLD_TYPE[t])
            h = packet_header(E, PH, buf)
            return (E.get(h, 'llen'), E.get(h, 'length'), snap(buf))
        return thunk
    for t in (0, 1, 2, 3):
        w = WIDTH_OF_OLD_TYPE[t]
        pts = [0, 1, 200, 255] + ([256, 0xabcd, 65535] if w >= 2 else []) + ([65536, 0x01020304, 0xffffffff] if w >= 4 else [])
        if w == 0:
            cases = [('length type 3', rd(3, 0), ok((0, len(body), snap(body))))]
        else:
            cases = [('length type %d, length %d' % (t, n), rd(t, n), ok((w, n, snap(body)))) for n in pts]
        B.sweep('C09.2', 'packet Header.parse (old format)', hp.where, 'old-format length type %d' % t,
                'old-format length-type bits: 0 -> 1 octet, 1 -> 2, 2 -> 4, 3 -> no length field (body runs to the end of the data); '
                'the length is read from, and consumes, exactly that many octets', cases, rep=rep)

    # widening: a parsed header whose body grows declares and emits the width the new length needs
    def grow(t, n):
        def thunk():
            h = packet_header(E, PH, old_octets(t, 1, WIDTH_OF_OLD_TYPE[t]))
            E.set(h, 'length', n)
            return (E.get(h, 'llen'), E.length(h), snap(E.method(h, '__bytearray__')))
        return thunk

    def grown(t, n):
        w = rfc_old_width(WIDTH_OF_OLD_TYPE[t], n)
        return ok((w, 1 + w, bytes([0x80 | (TAG << 2) | OLD_TYPE_OF_WIDTH[w]]) + (n.to_bytes(w, 'big') if w else b'')))
    for t in (0, 1, 2, 3):
        pts = (0, 1, 255, 256, 257, 65535, 65536, 65537, 1 << 24, 1 << 31, (1 << 32) - 1)
        B.sweep('C09.2', 'Header.llen', g.where, 'old-format width after the length changed (parsed type %d)' % t,
                'for old-format headers the length-of-length must follow the current length: it widens exactly when the length no longer '
                'fits (256 needs two octets, 65536 four) and the tag octet announces the width that is written',
                (('parsed width %d, length %d' % (WIDTH_OF_OLD_TYPE[t], n), grow(t, n), grown(t, n)) for n in pts), rep=rep)

    def grow_seq(t, ns):
        def thunk():
            h = packet_header(E, PH, old_octets(t, 1, WIDTH_OF_OLD_TYPE[t]))
            out = []
            for n in ns:
                E.set(h, 'length', n)
                out.append((E.get(h, 'llen'), E.length(h), snap(E.method(h, '__bytearray__'))))
            return tuple(out)
        return thunk
    B.sweep('C09.2', 'Header.llen', g.where, 'old-format width follows successive length changes',
            'the old-format width is a function of the parsed width and the current length (no first-value cache)',
            (('parsed width %d, lengths %s' % (WIDTH_OF_OLD_TYPE[t], ns), grow_seq(t, ns), ok(tuple(grown(t, n)[1] for n in ns)))
             for t, ns in ((0, (5, 300, 70000, 5)), (0, (70000, 300)), (1, (5, 70000, 256)), (3, (5, 300)))), rep=rep)

    # writer/reader type maps are inverse: what is written parses back to the same width
    def back(t, n):
        def thunk():
            h = packet_header(E, PH, old_octets(t, 1, WIDTH_OF_OLD_TYPE[t]))
            E.set(h, 'length', n)
            out = VBuf(E.method(h, '__bytearray__'))
            w = E.get(h, 'llen')
            h2 = packet_header(E, PH, out)
            return (E.get(h2, 'llen') == w, E.get(h2, 'length') if w else n, len(out))
        return thunk
    B.sweep('C09.2', 'Header length-type maps', hb.where, 'written old-format headers parse back',
            'old-format length-type bits: 0 -> 1 octet, 1 -> 2, 2 -> 4, 3 -> indeterminate, both ways',
            (('parsed type %d, length %d' % (t, n), back(t, n), ok((True, n, 0))) for t in (0, 1, 2, 3) for n in (5, 300, 70000)), rep=rep)

    # the old-format arm of the length encoder
    B.sweep('C09.2', 'Header.encode_length (old format)', enc.where, 'old-format length octets',
            'an old-format length is llen big-endian octets (none for the indeterminate type)',
            (('length %d in %d octets' % (n, w), (lambda n=n, w=w: snap(E.call(enc, None, [n, 0, w]))), ok(n.to_bytes(w, 'big') if w else b''))
             for w in (1, 2, 4, 0) for n in (0, 1, 255, 256, 65535, 65536, 0xffffffff) if w == 0 or n < (1 << (8 * w))), rep=rep)


# ------------------------------------------------------------------------------------------------- C09.3
def mpi(rep, prog, B=None):
    B = (B or Bench(rep, prog)).with_rep(rep)
    E = B.E
    M = prog.cls('pgpy.packet.types', 'MPI')
    new = M.find_method('__new__')
    wr = M.find_method('to_mpibytes')
    bl = M.find_method('byte_length')
    ln = M.find_method('__len__')
    if new is None or wr is None or bl is None or ln is None:
        raise AnalysisError('MPI codec methods vanished')
    tail = b'\xc3tail'

    def magnitude(bits):
        """An integer of exactly `bits` significant bits with a recognisable pattern."""
        if bits == 0:
            return 0
        v = (1 << (bits - 1)) | (0x5A5A5A5A5A5A5A5A5A % (1 << (bits - 1)) if bits > 1 else 0)
        return v

    def rd(bits, mag):
        def thunk():
            buf = VBuf(bits.to_bytes(2, 'big') + mag)
            buf.extend(tail)
            m = E.new(M, buf)
            return (snap(m), snap(buf))
        return thunk
    cases = []
    for bits in (0, 1, 2, 7, 8, 9, 15, 16, 17, 23, 24, 25, 255, 256, 257, 1023, 1024, 2047, 2048, 2049, 4096, 65528, 65535):
        n = (bits + 7) // 8
        mag = magnitude(bits).to_bytes(n, 'big') if n else b''
        cases.append(('bit count %d' % bits, rd(bits, mag), ok((magnitude(bits), tail))))
    # the declared count decides the width, whatever the octets hold (leading zero bits, all-ones octets)
    cases.append(('bit count 9, octets 00 ff', rd(9, b'\x00\xff'), ok((0xff, tail))))
    cases.append(('bit count 16, octets ff ff', rd(16, b'\xff\xff'), ok((0xffff, tail))))
    cases.append(('bit count 1, octet ff', rd(1, b'\xff'), ok((0xff, tail))))
    B.sweep('C09.3', 'MPI.__new__', new.where, 'MPI reader', 'an MPI is a two-octet bit count followed by ceil(bits / 8) octets, both consumed (RFC 4880 3.2)', cases)

    values = [0, 1, 2, 127, 128, 255, 256, 257, 511, 65535, 65536, (1 << 64) - 1, 1 << 64, magnitude(1023), magnitude(2048), magnitude(2049), (1 << 4096) - 1]

    def mk(v):
        return E.new(M, v)          # through MPI.__new__: whatever it stores on the new object is there
    B.sweep('C09.3', 'MPI.to_mpibytes', wr.where, 'MPI writer', 'an MPI is written as its bit length in two octets followed by the value in ceil(bits / 8) octets',
            (('value of %d bits' % v.bit_length(), (lambda v=v: snap(E.method(mk(v), 'to_mpibytes'))),
              ok(v.bit_length().to_bytes(2, 'big') + v.to_bytes(octets_needed(v), 'big'))) for v in values))
    B.sweep('C09.3', 'MPI.byte_length', bl.where, 'MPI octet length', 'MPI octet length is ceil(bits / 8)',
            (('value of %d bits' % v.bit_length(), (lambda v=v: snap(E.method(mk(v), 'byte_length'))), ok(octets_needed(v))) for v in [0] + values))
    B.sweep('C09.3', 'MPI.__len__', ln.where, 'MPI total length', 'total length adds the two count octets',
            (('value of %d bits' % v.bit_length(), (lambda v=v: E.length(mk(v))), ok(octets_needed(v) + 2)) for v in [0] + values))

    def rt(v):
        def thunk():
            out = VBuf(E.method(mk(v), 'to_mpibytes'))
            out.extend(tail)
            return (snap(E.new(M, out)), snap(out))
        return thunk
    B.sweep('C09.3', 'MPI', wr.where, 'MPI round trip', 'what the writer emits the reader takes back, octet for octet',
            (('value of %d bits' % v.bit_length(), rt(v), ok((v, tail))) for v in values))

    # parse -> write: the value decides what is written, not the width it happened to arrive in (padded / over-declared encodings)
    def reenc(bits, mag):
        def thunk():
            buf = VBuf(bits.to_bytes(2, 'big') + mag)
            buf.extend(tail)
            m = E.new(M, buf)
            out = VBuf(E.method(m, 'to_mpibytes'))
            n_out = len(out)
            again = VBuf(out)
            again.extend(tail)
            m2 = E.new(M, again)
            return (snap(out), snap(E.method(m, 'byte_length')), E.length(m), snap(m2), snap(again), n_out)
        return thunk

    def reenc_want(mag):
        v = int.from_bytes(mag, 'big')
        canon = v.bit_length().to_bytes(2, 'big') + v.to_bytes(octets_needed(v), 'big')
        return ok((canon, octets_needed(v), octets_needed(v) + 2, v, tail, len(canon)))
    pad = [(0, b''), (8, b'\x00'), (9, b'\x00\xff'), (16, b'\x00\xff'), (16, b'\x00\x01'), (8, b'\x7f'), (8, b'\x01'), (24, b'\x00\x00\xff'), (24, b'\x00\x80\x00'),
           (32, b'\x00\x00\x01\x00'), (64, b'\x00' * 7 + b'\x01'), (2048, b'\x00' * 8 + b'\x5a' * 248), (2041, b'\x00' + b'\xa5' * 255),
           (4096, b'\x00' * 256 + b'\xff' * 256), (16, b'\xff\xff'), (2048, b'\x80' + b'\x00' * 255)]
    B.sweep('C09.3', 'MPI', wr.where, 'MPI parsed then written', 'the bit count written is the bit length of the value and the magnitude takes ceil(bits / 8) octets, '
            'also for a value that arrived with leading zero octets or an over-declared bit count; byte_length / len agree with what is written',
            (('bit count %d, %d octets %s..' % (bits, len(mag), mag[:3].hex()), reenc(bits, mag), reenc_want(mag)) for bits, mag in pad))


# ------------------------------------------------------------------------------------------------- C09.4
def s2k_count(rep, prog, B=None):
    B = (B or Bench(rep, prog)).with_rep(rep)
    E = B.E
    K = prog.cls('pgpy.packet.fields', 'String2Key')
    p = E._prop(K, 'count')
    if p is None or p[0] is None or 'int' not in p[1]:
        raise AnalysisError('String2Key.count property vanished')
    g, st = p[0], p[1]['int']
    rep.saw(fn=g)
    rep.saw(fn=st)

    def fresh():
        try:
            return E.new(K)
        except (NoEval, Raised):
            return Obj(K)

    def dec(c):
        def thunk():
            o = fresh()
            E.set(o, 'count', c)
            return E.get(o, 'count')
        return thunk
    B.sweep('C09.4', 'String2Key.count', g.where, 'decoded count for every coded octet',
            'the coded count octet c denotes (16 + (c & 15)) << ((c >> 4) + 6) (RFC 4880 3.7.1.3)',
            (('c=%d' % c, dec(c), ok(rfc_count(c))) for c in range(256)))
    B.sweep('C09.4', 'String2Key.count_int', st.where, 'coded counts the setter accepts', 'the coded count setter must accept exactly 0..255 and store the octet',
            (('value %d' % v, dec(v), ok(rfc_count(v))) for v in (255, 128, 1, 0)))
    B.sweep('C09.4', 'String2Key.count_int', st.where, 'coded counts the setter rejects', 'the coded count setter must accept exactly 0..255 and store the octet',
            (('value %d' % v, dec(v), ('raise', 'ValueError')) for v in (256, -1, 1000, 257)))

    # the stored octet survives a later store (no first-value cache, no "unset" reading of 0)
    def seq(vals):
        def thunk():
            o = fresh()
            out = []
            for v in vals:
                E.set(o, 'count', v)
                out.append(E.get(o, 'count'))
            return tuple(out)
        return thunk
    B.sweep('C09.4', 'String2Key.count', g.where, 'count after successive stores', 'the decoded count is a function of the last coded octet stored',
            (('stores %s' % (vals,), seq(vals), ok(tuple(rfc_count(v) for v in vals))) for vals in ((96, 0, 255), (255, 96), (0, 1, 0))))


# ------------------------------------------------------------------------------------------------- C09.5
TIME_WRITERS = (('pgpy.packet.packets', 'PubKeyV4', 'fingerprint'), ('pgpy.packet.packets', 'PubKeyV4', '__bytearray__'),
                ('pgpy.packet.packets', 'LiteralData', '__bytearray__'), ('pgpy.packet.subpackets.signature', 'CreationTime', '__bytearray__'))


def _classify_time_call(fname, args):
    """Kind of a datetime -> epoch seconds conversion from the VALUE that reaches the call (interpreter text)."""
    last = fname.split('.')[-1]
    if last == 'mktime':
        return 'local'
    if last == 'timegm' and args:
        a = args[0]
        if a.endswith('.utctimetuple()'):
            return 'utc'
        if a.endswith('.timetuple()'):
            return 'drops-offset'
        return 'unknown'
    if last == 'timestamp' and not args:
        return 'local-for-naive'
    return 'unknown'


def times(rep, prog):
    # writers: every conversion of a datetime to epoch seconds, classified by the value that reaches it on the interpreter's paths
    # (so a named temporary or an extracted helper does not matter); the AST classification is the fallback
    seen_fns = {}
    for fn, node, kind, text in time_sites(prog):
        rep.saw(fn=fn)
        kinds = set()
        try:
            for s in Interp(prog, Scenario(inline=noinline)).run(fn):
                for c in s.calls:
                    if c[4] is node:
                        kinds.add(_classify_time_call(c[0], c[1]))
        except AnalysisError:
            kinds = set()
        if kinds and 'unknown' not in kinds:
            kind = sorted(kinds, key=lambda k: k == 'utc')[0]     # any non-UTC path decides
        elif kind == 'unknown':
            raise AnalysisError('%s: datetime conversion %s has a shape the time-idiom rule does not model' % (fn.qualname, text))
        seen_fns.setdefault(fn.qualname, []).append(kind)
        rep.check(kind == 'utc', 'C09.5', fn.qualname, text,
                  'a datetime is converted to epoch seconds with an idiom that ignores its UTC offset (%s)' % kind,
                  where='%s:%d' % (fn.module.relpath, node.lineno), expected='calendar.timegm(x.utctimetuple())', found=text)
    # each known four-octet time writer emits INT(4; <conversion>) - a conversion that left the recognised family is not silently dropped
    for mod, cls, meth in TIME_WRITERS:
        f = prog.method(mod, cls, meth)
        if '%s.%s' % (cls, meth) not in seen_fns:
            raise AnalysisError('%s.%s: no recognised datetime -> epoch seconds conversion left (time field writer)' % (cls, meth))
    # readers: int -> aware UTC datetime ; bytes -> int
    sites = [('pgpy.packet.packets', 'PubKeyV4', 'created'), ('pgpy.packet.packets', 'LiteralData', 'mtime'),
             ('pgpy.packet.subpackets.signature', 'CreationTime', 'created')]
    for mod, cls, prop in sites:
        c = prog.cls(mod, cls)
        p = c.props.get(prop)
        if p is None:
            raise AnalysisError('%s.%s sdproperty vanished' % (cls, prop))
        si = p.setters.get('int')
        sb = p.setters.get('bytearray') or p.setters.get('bytes')
        if si is None or sb is None:
            raise AnalysisError('%s.%s int/bytes setters vanished' % (cls, prop))
        rep.saw(fn=si)
        rep.saw(fn=sb)
        pv = si.params[1]
        # datetime setter: the value kept is the instant that was given (an aware datetime is converted, never relabelled)
        sd = p.setters.get('datetime')
        if sd is not None:
            rep.saw(fn=sd)
            _datetime_setter(rep, prog, cls, prop, sd)
        for f_ in (si, sb):
            # the codec is a function of the four octets: no clock on the parse path
            for s in Interp(prog, Scenario(inline=noinline)).run(f_):
                clock = [c[0] for c in s.calls if c[0].split('.')[-1] in CLOCK_READS and (c[0].split('.')[-1] != 'time' or c[0] in ('time.time', 'time'))]
                rep.check(not clock, 'C09.5', '%s.%s (%s)' % (cls, prop, 'int' if f_ is si else 'bytes'), 'clock read %s' % clock,
                          'the time read from a packet must be a function of its four octets: this path reads the clock (%s)' % ', '.join(clock),
                          where=f_.where, expected='no datetime.now() / time.time() while decoding', found=clock)
        for s in Interp(prog, Scenario(inline=noinline)).run(si):
            v = [val for pth, val, l, _ in s.stores if pth.startswith(si.params[0] + '.')]     # the property or its backing attribute
            if any(c[0].split('.')[-1] in CLOCK_READS for c in s.calls) and len(v) == 1 and not v[0].startswith(('datetime.fromtimestamp', 'datetime.utcfromtimestamp')):
                continue          # reported above as a clock read
            verdict = _aware_utc_from_seconds(s, v, pv)
            if verdict is None:
                raise AnalysisError('%s.%s (int): value %s is not a conversion the time-reader rule models' % (cls, prop, v))
            rep.check(verdict, 'C09.5', '%s.%s (int)' % (cls, prop), '%s' % v,
                      'four-octet times are seconds since 1970 UTC and must become aware UTC datetimes', where=si.where,
                      expected='datetime.fromtimestamp(<seconds>, timezone.utc)', found=v)
        bv = sb.params[1]
        for s in Interp(prog, Scenario(inline=noinline)).run(sb):
            v = [val for pth, val, l, _ in s.stores if pth.startswith(sb.params[0] + '.')]
            good = ('%s.bytes_to_int(%s)' % (sb.params[0], bv), "int.from_bytes(%s, 'big')" % bv, "int.from_bytes(%s, byteorder='big')" % bv)
            rep.check(len(v) == 1 and v[0] in good, 'C09.5', '%s.%s (bytes)' % (cls, prop), '%s' % v, 'the four octets are one big-endian number', where=sb.where)
    ex = prog.cls('pgpy.packet.subpackets.signature', 'SignatureExpirationTime')
    f = ex.methods.get('__bytearray__')
    if f is None:
        raise AnalysisError('SignatureExpirationTime.__bytearray__ vanished')
    for s in Interp(prog, Scenario()).run(f):
        rep.check(render(s.ret).endswith('INT(4;int(self.expires.total_seconds()))'), 'C09.5', 'SignatureExpirationTime.__bytearray__', render(s.ret)[-60:],
                  'expiration times are written as whole seconds in four octets', where=f.where)


CLOCK_READS = ('now', 'utcnow', 'today', 'time', 'time_ns', 'monotonic', 'gmtime', 'localtime')


def _datetime_setter(rep, prog, cls, prop, sd):
    """The datetime overload of a four-octet time property.  The octets later written are the POSIX timestamp of the value kept, so
    an aware datetime must be kept as given or converted with astimezone(); replace(tzinfo=...) on a value that may already be aware
    moves the instant by the zone's offset (only on a path that established `tzinfo is None` does it merely label a naive value)."""
    pv = sd.params[1]
    for s in Interp(prog, Scenario(inline=noinline)).run(sd):
        stored = [val for pth, val, l, _ in s.stores if pth.startswith(sd.params[0] + '.')]
        naive_path = any(b is True and t.replace(' ', '') in ('(%s.tzinfoisNone)' % pv, '(%s.utcoffset()isNone)' % pv) for t, b, _ in s.facts) or \
            any(b is False and t.replace(' ', '') in ('(%s.tzinfoisnotNone)' % pv,) for t, b, _ in s.facts)
        for v in stored:
            if v == pv:
                verdict = True
            elif not v.startswith(pv + '.'):
                verdict = None
            else:
                verdict = True
                rest = v[len(pv):]
                calls = [m for m in rest.split(').') if m]
                for m in calls:
                    m = m.lstrip('.')
                    if m.startswith('replace('):
                        if 'tzinfo=' in m and not naive_path:
                            verdict = False
                    elif m.startswith('astimezone('):
                        pass
                    else:
                        verdict = None if verdict else verdict
            if verdict is None:
                raise AnalysisError('%s.%s (datetime): value %s is not a shape the time rule models' % (cls, prop, v))
            rep.check(verdict, 'C09.5', '%s.%s (datetime)' % (cls, prop), v,
                      'an aware datetime is relabelled with replace(tzinfo=...) instead of converted with astimezone(): the four octets written '
                      'are off by the zone offset (12:00-04:00 is written as 12:00Z)', where=sd.where,
                      expected='%s or %s.astimezone(timezone.utc)' % (pv, pv), found=v)


def _aware_utc_from_seconds(s, stored, pv):
    """True: the stored value is an aware UTC datetime built from the seconds parameter; False: it is naive, local wall-clock time
    (possibly relabelled as UTC), in another zone, or built from something else; None: not modelled.

    Decided from the conversion call that the stored value starts with and from what is applied to its result afterwards:
      fromtimestamp(x, <utc>)                       aware UTC                                  -> True
      fromtimestamp(x, <other zone>)                aware, wrong zone                          -> False
      fromtimestamp(x)                              naive LOCAL wall-clock time                -> False, also with .replace(tzinfo=..) (relabelled)
      utcfromtimestamp(x)                           naive UTC wall-clock time                  -> False unless .replace(tzinfo=<utc>) follows
    """
    if len(stored) != 1:
        return None
    utc = ('timezone.utc', 'datetime.timezone.utc', 'utc', 'UTC', 'pytz.utc', 'pytz.UTC')
    seconds = (pv, 'int(%s)' % pv)
    best = None
    for c in s.calls:
        fname, args, kw = c[0], c[1], c[2]
        if fname.split('.')[-1] not in ('fromtimestamp', 'utcfromtimestamp'):
            continue
        recorded = '%s(%s)' % (fname, ', '.join(list(args) + ['%s=%s' % kv for kv in kw.items()]))
        if stored[0].startswith(recorded) and (best is None or len(recorded) > len(best[0])):
            best = (recorded, fname.split('.')[-1], args, kw)
    if best is None:
        return None
    recorded, kind, args, kw = best
    rest = stored[0][len(recorded):]
    x = args[0] if args else kw.get('timestamp', kw.get('t'))
    if x not in seconds:
        return False
    relabel = [('.replace(tzinfo=%s)' % z) for z in utc]
    if kind == 'fromtimestamp':
        tz = args[1] if len(args) > 1 else kw.get('tz')
        if tz is None or tz == 'None':
            if rest == '' or rest.startswith('.replace(tzinfo='):
                return False                    # naive local time, or local wall-clock time relabelled
            return None
        if tz not in utc:
            return False
        if rest == '' or rest in relabel or rest in ['.astimezone(%s)' % z for z in utc]:
            return True
        return None
    # utcfromtimestamp: naive unless the UTC zone is attached to the UTC wall-clock time
    if rest == '':
        return False
    if rest in relabel:
        return True
    if rest.startswith('.replace(tzinfo=') or rest.startswith('.astimezone('):
        return False                            # other zone attached / naive value read as local time
    return None


# ------------------------------------------------------------------------------------------------- C09.6
def subpacket_header(rep, prog, B=None):
    B = (B or Bench(rep, prog)).with_rep(rep)
    E = B.E
    SH = prog.cls('pgpy.packet.subpackets.types', 'Header')
    wr = SH.find_method('__bytearray__')
    ps = SH.find_method('parse')
    ln = SH.find_method('__len__')
    ti = _setter(E, SH, 'typeid', 'int')
    tb = _setter(E, SH, 'typeid', 'bytearray')
    if wr is None or ps is None or ln is None or ti is None or tb is None:
        raise AnalysisError('subpacket Header codec methods vanished')
    body = b'\x5a\xa5body'
    lens = (0, 1, 191, 192, 193, 8383, 8384, 70000)

    def write(crit, t, n):
        def thunk():
            h = E.new(SH)
            E.set(h, 'length', n)
            E.set(h, 'typeid', t)
            E.set(h, 'critical', crit)
            return (snap(E.method(h, '__bytearray__')), E.length(h))
        return thunk
    B.sweep('C09.6', 'subpacket Header.__bytearray__', wr.where, 'subpacket header writer',
            'a subpacket header is its new-format length followed by the type octet with the critical bit in bit 7; its length is the length field plus one',
            (('critical=%s type=%d length=%d' % (crit, t, n), write(crit, t, n),
              ok((rfc_new_length(n) + bytes([(0x80 if crit else 0) | t]), len(rfc_new_length(n)) + 1)))
             for crit in (False, True) for t in range(128) for n in (lens if t in (0, 2, 127) else (5,))))

    def masked(v):
        def thunk():
            h = E.new(SH)
            E.set(h, 'typeid', v)
            return E.get(h, 'typeid')
        return thunk
    B.sweep('C09.6', 'subpacket Header.typeid_int', ti.where, 'type from an integer', 'the type is the low seven bits',
            (('value %#04x' % v, masked(v), ok(v & 0x7F)) for v in range(256)))

    def read(o, n):
        def thunk():
            buf = VBuf(rfc_new_length(n) + bytes([o]) + body)
            h = E.new(SH)
            E.method(h, 'parse', buf)
            return (E.get(h, 'length'), E.get(h, 'typeid'), E.get(h, 'critical'), snap(buf), E.length(h))
        return thunk
    B.sweep('C09.6', 'subpacket Header.parse', ps.where, 'subpacket header reader',
            'the reader takes the new-format length, then one type octet: type = low seven bits, critical = bit 7; both are consumed',
            (('type octet %#04x length %d' % (o, n), read(o, n), ok((n, o & 0x7F, bool(o & 0x80), body, len(rfc_new_length(n)) + 1)))
             for o in range(256) for n in (lens if o in (0x02, 0x82, 0xff) else (5,))))

    def reuse(steps):
        """One header object through several stores / parses: what it reports follows the last one."""
        def thunk():
            h = E.new(SH)
            out = []
            for kind, a in steps:
                if kind == 'set':
                    n, t, crit = a
                    E.set(h, 'length', n)
                    E.set(h, 'typeid', t)
                    E.set(h, 'critical', crit)
                else:
                    E.method(h, 'parse', VBuf(a))
                out.append((snap(E.method(h, '__bytearray__')), E.get(h, 'typeid'), E.get(h, 'critical'), E.length(h)))
            return tuple(out)
        return thunk

    def reuse_want(steps):
        out = []
        for kind, a in steps:
            if kind == 'set':
                n, t, crit = a
            else:
                if a[0] == 0xFF:
                    n, t, crit = int.from_bytes(a[1:5], 'big'), a[5] & 0x7F, bool(a[5] & 0x80)
                else:
                    n, t, crit = a[0], a[1] & 0x7F, bool(a[1] & 0x80)      # otherwise one-octet lengths only
            out.append((rfc_new_length(n) + bytes([(0x80 if crit else 0) | t]), t, crit, len(rfc_new_length(n)) + 1))
        return ok(tuple(out))
    seqs = ((('parse', b'\xff\x00\x00\x00\x05\x82'),), (('parse', b'\xff\x00\x00\x00\xc0\x02'), ('set', (5, 2, False))),
            (('set', (5, 2, True)), ('set', (300, 2, False)), ('set', (5, 27, True))),
            (('parse', b'\x05\x82'), ('parse', b'\x05\x02'), ('set', (9000, 2, False))),
            (('set', (9000, 33, False)), ('parse', b'\x07\xa1'), ('parse', b'\x00\x21')))
    B.sweep('C09.6', 'subpacket Header', wr.where, 'subpacket header reused', 'length, type and critical flag follow the last store / parse (nothing sticks)',
            (('steps %s' % (st,), reuse(st), reuse_want(st)) for st in seqs))

    def rt(crit, t, n):
        def thunk():
            h = E.new(SH)
            E.set(h, 'length', n)
            E.set(h, 'typeid', t)
            E.set(h, 'critical', crit)
            out = VBuf(E.method(h, '__bytearray__'))
            h2 = E.new(SH)
            E.method(h2, 'parse', out)
            return (E.get(h2, 'length'), E.get(h2, 'typeid'), E.get(h2, 'critical'), len(out))
        return thunk
    B.sweep('C09.6', 'subpacket Header', ln.where, 'subpacket header round trip', 'what the writer emits the reader takes back',
            (('critical=%s type=%d length=%d' % (crit, t, n), rt(crit, t, n), ok((n, t, crit, 0))) for crit in (False, True) for t in (0, 2, 33, 127) for n in lens))


# ------------------------------------------------------------------------------------------------- C09.7
def primitives(rep, prog, B=None):
    B = (B or Bench(rep, prog)).with_rep(rep)
    E = B.E
    P = prog.cls('pgpy.types', 'PGPObject')
    ibl = P.find_method('int_byte_len')
    i2b = P.find_method('int_to_bytes')
    b2i = P.find_method('bytes_to_int')
    if ibl is None or i2b is None or b2i is None:
        raise AnalysisError('PGPObject integer primitives vanished')
    ints = [0, 1, 2, 127, 128, 255, 256, 257, 32767, 32768, 65535, 65536, (1 << 24) - 1, 1 << 24, (1 << 32) - 1, 1 << 32, (1 << 63), (1 << 64) - 1,
            (1 << 2048) - 1]
    B.sweep('C09.7', 'PGPObject.int_byte_len', ibl.where, 'octets needed', 'octets needed = ceil(bits / 8)',
            (('i=%#x' % i if i < (1 << 70) else 'i of %d bits' % i.bit_length(), (lambda i=i: E.call(ibl, None, [i])), ok(octets_needed(i))) for i in ints))

    def want(i, n):
        return ok(i.to_bytes(max(n, octets_needed(i), 1), 'big'))
    cases = []
    for i in ints:
        lab = 'i=%#x' % i if i < (1 << 70) else 'i of %d bits' % i.bit_length()
        cases.append(('%s, default width' % lab, (lambda i=i: snap(E.call(i2b, None, [i]))), want(i, 1)))
        for n in (0, 1, 2, 3, 4, 8, 20):
            cases.append(('%s, width %d' % (lab, n), (lambda i=i, n=n: snap(E.call(i2b, None, [i, n]))), want(i, n)))
    B.sweep('C09.7', 'PGPObject.int_to_bytes', i2b.where, 'integer to octets',
            'int_to_bytes(i, n) emits max(n, octets needed, 1) big-endian octets (the axiom all layout rules use); default width 1', cases)
    octs = [b'', b'\x00', b'\x01', b'\xff', b'\x01\x00', b'\x00\x01', b'\x80\x00', b'\x12\x34\x56', b'\x00\x00\x00\x01', b'\xff\xff\xff\xff',
            b'\x01\x02\x03\x04\x05\x06\x07\x08\x09']
    cases = []
    for o in octs:
        cases.append(('octets %s (bytes)' % (o.hex() or 'none'), (lambda o=o: E.call(b2i, None, [o])), ok(int.from_bytes(o, 'big'))))
        cases.append(('octets %s (bytearray)' % (o.hex() or 'none'), (lambda o=o: E.call(b2i, None, [VBuf(o)])), ok(int.from_bytes(o, 'big'))))
    B.sweep('C09.7', 'PGPObject.bytes_to_int', b2i.where, 'octets to integer', 'big-endian octets to integer', cases)


# ------------------------------------------------------------------------------------------------- C09.8
def tagoctet(rep, prog, B=None):
    """C09.8 - packet tag octet, both formats, writer and reader.  Callable with a rep proxy."""
    B = (B or Bench(rep, prog)).with_rep(rep)
    E = B.E
    PH = prog.cls('pgpy.packet.types', 'Header')
    H = prog.cls('pgpy.types', 'Header')
    hb = PH.find_method('__bytearray__')
    hp = PH.find_method('parse')
    tg = _setter(E, PH, 'tag', 'int')
    if hb is None or hp is None or tg is None:
        raise AnalysisError('packet Header tag codec vanished')
    body = b'\x5a\xa5body'

    # writer, fresh header (new format is the default for packets PGPy creates)
    def fresh(tag, n):
        def thunk():
            h = E.new(PH)
            E.set(h, 'tag', tag)
            E.set(h, 'length', n)
            return (snap(E.method(h, '__bytearray__')), E.length(h))
        return thunk
    B.sweep('C09.8', 'packet Header.__bytearray__', hb.where, 'new-format tag octet of a header built in memory',
            'a new-format tag octet is 0xC0 | tag followed by the new-format length (RFC 4880 4.2)',
            (('tag %d length %d' % (t, n), fresh(t, n), ok((bytes([0xC0 | t]) + rfc_new_length(n), 1 + len(rfc_new_length(n)))))
             for t in range(64) for n in ((0, 191, 192, 8384) if t in (2, 63) else (7,))))

    # reader + writer, every tag octet with bit 7 set
    def through(o, field):
        def thunk():
            buf = VBuf(bytes([o]) + field + body)
            h = packet_header(E, PH, buf)
            return (E.get(h, 'tag'), E.get(h, 'length'), snap(buf), snap(E.method(h, '__bytearray__')))
        return thunk
    B.sweep('C09.8', 'packet Header.parse', hp.where, 'new-format tag octets', 'bit 6 selects the format; new format: tag = low six bits',
            (('octet %#04x' % o, through(o, b'\xc5\xfb'), ok((o & 0x3F, 1723, body, bytes([o]) + b'\xc5\xfb'))) for o in range(0xC0, 0x100)))

    def old_cases():
        for o in range(0x80, 0xC0):
            w = WIDTH_OF_OLD_TYPE[o & 3]
            n = {1: 200, 2: 0x1234, 4: 0x01020304, 0: len(body)}[w]
            field = n.to_bytes(w, 'big') if w else b''
            yield ('octet %#04x' % o, through(o, field), ok(((o >> 2) & 0x0F, n, body, bytes([o]) + field)))
    B.sweep('C09.8', 'packet Header.parse', hp.where, 'old-format tag octets',
            'old format: tag = bits 5..2, length type = bits 1..0; an old-format tag octet is 0x80 | tag << 2 | length-type; a header of length '
            'type 3 has no length field: the body runs to the end of the data; every other header carries a length', old_cases())

    # tag setter applied to a tag octet / small tag
    def settag(lenfmt_octet, v):
        def thunk():
            h = packet_header(E, PH, VBuf(bytes([lenfmt_octet, 0])))
            E.set(h, 'tag', v)
            return E.get(h, 'tag')
        return thunk
    B.sweep('C09.8', 'packet Header.tag (int)', tg.where, 'tag from an integer', 'new format keeps the low six bits, old format takes bits 5..2 of the tag octet',
            [('new format, value %#04x' % v, settag(0xC2, v), ok(v & 0x3F)) for v in range(0, 256, 1)] +
            [('old format, value %#04x' % v, settag(0x88, v), ok((v & 0x3C) >> 2)) for v in range(0, 256, 1)])



def partial(rep, prog, B=None):
    """C09.8 - partial body lengths: each chunk header is removed where it sits and the chunk lengths add up.  Callable with a
    rep proxy."""
    B = (B or Bench(rep, prog)).with_rep(rep)
    E = B.E
    PH = prog.cls('pgpy.packet.types', 'Header')
    H = prog.cls('pgpy.types', 'Header')
    hp = PH.find_method('parse')
    if hp is None:
        raise AnalysisError('packet Header.parse vanished')
    lb = _setter(E, H, 'length', 'bytearray')

    def chain(chunks, final_field, final_len):
        """chunks: exponents of the partial chunks; then one final (non-partial) length field and its body."""
        def build():
            buf = VBuf(b'\xc2')
            want = VBuf()
            total = 0
            for k, e in enumerate(chunks):
                buf.extend(bytes([0xE0 | e]))
                seg = VBuf.fill(0x10 + k, 1 << e)
                buf.extend(seg)
                want.extend(seg)
                total += 1 << e
            buf.extend(final_field)
            seg = VBuf.fill(0x77, final_len)
            buf.extend(seg)
            want.extend(seg)
            buf.extend(b'next')
            want.extend(b'next')
            return buf, want, total + final_len

        def thunk():
            buf, _, _ = build()
            h = packet_header(E, PH, buf)
            return (E.get(h, 'length'), snap(buf), E.length(h), snap(E.method(h, '__bytearray__')))
        _, want, total = build()
        return thunk, ok((total, snap(want), 1 + len(rfc_new_length(total)), b'\xc2' + rfc_new_length(total)))
    cases = []
    for chunks, n in (((0,), 0), ((1,), 1), ((9,), 191), ((9,), 192), ((9,), 1723), ((9,), 8383), ((9,), 8384), ((3,), 70000), ((1, 9), 5),
                      ((9, 1), 300), ((2, 3, 4), 0), ((0, 0, 0, 0), 200), ((13, 13), 8384), ((30,), 3), ((16, 30, 1), 256)):
        t, w = chain(chunks, rfc_new_length(n), n)
        cases.append(('partial chunks 2^%s then a %d-octet length field (%d)' % (list(chunks), len(rfc_new_length(n)), n), t, w))
    # a final chunk may use a non-minimal five-octet field
    t, w = chain((4,), b'\xff\x00\x00\x00\x05', 5)
    cases.append(('partial chunk 2^4 then ff 00 00 00 05', t, w))
    B.sweep('C09.8', 'Header.length (octets)', _where(lb, hp), 'partial-length accumulation',
            'after a partial chunk the next length field sits `total` octets in; it is removed there (all its octets) and the chunk lengths add up to '
            'the body length, leaving the contiguous body; written back, the header carries the shortest encoding of the total and len(header) agrees', cases)
