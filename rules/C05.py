"""C05 - The hashed subpacket area is verified verbatim, exactly as received.

Decided by provenance (DESIGN 5/C05, form after the repair that keeps the received octets).  Every clause is decided on
interpreter values (what a path returns / stores / calls, with locals resolved), never on the spelling of a statement:
  C05.1 SubPackets.parse captures buffer[:2 + hl] (hl = the two-octet count at offset 0) before any consumption and stores it
        after the last hashed __setitem__ of the function
  C05.2 __hashbytearray__ returns a copy of the captured octets on EVERY path when they are present, and never when absent
        (scenario "present" / "absent": the condition may be spelled in any way, it only may not depend on anything else)
  C05.3 every other store to the capture is None (invalidation in __setitem__ on a hashed key, initial state) or a copy of the
        same attribute of another instance (__copy__); the copy chain SubPackets/SignatureV4/PGPSignature carries it
  C05.4 hashdata and canonical_bytes obtain the hashed area only through __hashbytearray__
  C05.5 the four header octets (version, type, pk algorithm, hash algorithm) pass only through injective stores and are read
        back from the attributes those stores write
"""
import ast
import re

from sa.interp import Interp, Scenario, Sym, Const, Bytes, Enum, render, render_items, merge_consts, sl, lin_norm
from sa.loader import AnalysisError, dotted
from sa import sigdata
from sa.templates import b2i_forms, unmodelled

noinline = lambda f: False  # noqa: E731


def at(fi, **by_index):
    """Scenario arguments by parameter position (p1 = first parameter after self)."""
    p = fi.params
    out = {}
    for k, v in by_index.items():
        i = int(k[1:])
        if i >= len(p):
            raise AnalysisError('%s: parameter %d vanished' % (fi.qualname, i))
        out[p[i]] = v
    return out


def _balanced(t):
    d = 0
    for ch in t:
        d += ch in '([{'
        d -= ch in ')]}'
        if d < 0:
            return False
    return d == 0


def uncopy(v):
    """(text of the object, True) when the value is a fresh octet-exact copy of that object - bytearray(x), bytes(x), x[:],
    copy.copy(x), copy.deepcopy(x) - and (text, False) when it is the object itself (an alias)."""
    if v is None:
        return None, False
    if isinstance(v, Bytes):
        its = merge_consts(v.items)
        if len(its) == 1 and its[0][0] == 'SYM':
            return uncopy(Sym(its[0][1]))[0], True
        if len(its) == 1 and its[0][0] == 'SLICE' and its[0][2] == '' and its[0][3] == '' and isinstance(its[0][1], str):
            return its[0][1], True
        return render(v), True
    t = render(v)
    m = re.match(r'^(?:copy\.copy|copy\.deepcopy|bytes|bytearray)\((.*)\)$', t)
    if m and _balanced(m.group(1)):
        return uncopy(Sym(m.group(1)))[0], True
    return t, False


def raw_attribute(prog):
    """Name of the attribute that holds the received hashed area: the instance attribute whose value (or a copy of it) some path
    of SubPackets.__hashbytearray__ returns.  None when every path re-serialises parsed objects."""
    ci = prog.cls('pgpy.packet.fields', 'SubPackets')
    f = ci.methods.get('__hashbytearray__')
    if f is None:
        raise AnalysisError('SubPackets.__hashbytearray__ vanished')
    cands = set()
    for s in Interp(prog, Scenario(inline=noinline)).run(f):
        t, _ = uncopy(s.ret)
        m = re.match(r'^%s\.(\w+)$' % re.escape(f.params[0]), t or '')
        if m and ci.find_method(m.group(1)) is None and ci.find_prop(m.group(1)) is None and ci.find_plain_prop(m.group(1)) is None:
            cands.add(m.group(1))
    if len(cands) > 1:
        # several attributes are replayed (e.g. a cache next to the capture): the capture is the one SubPackets.parse fills from its
        # buffer; returning any other attribute while the capture is present is then a C05.2 finding, not an analysis gap
        pf = ci.methods.get('parse')
        fed = set()
        if pf is not None and len(pf.params) > 1:
            for s in Interp(prog, Scenario(args={pf.params[1]: Sym('packet')}, inline=noinline)).run(pf):
                for pth, v, l, _ in s.stores:
                    m = re.match(r'^%s\.(\w+)$' % re.escape(pf.params[0]), pth)
                    if m and m.group(1) in cands and re.search(r'\bpacket\b', v):
                        fed.add(m.group(1))
        cands = fed or cands
    return sorted(cands)[0] if cands else None


def _attr_store_sites(prog, attr):
    """Functions that write an attribute of this name on any object (assignment, augmented assignment, setattr with a literal)."""
    out = []
    for fn in prog.all_functions():
        hit = False
        for n in ast.walk(fn.node):
            if isinstance(n, ast.Attribute) and n.attr == attr and isinstance(n.ctx, (ast.Store, ast.Del)):
                hit = True
            elif isinstance(n, ast.Call) and dotted(n.func) == 'setattr' and len(n.args) >= 2 and isinstance(n.args[1], ast.Constant) and \
                    n.args[1].value == attr:
                hit = True
            elif isinstance(n, ast.Call) and dotted(n.func) == 'setattr' and len(n.args) >= 2 and not isinstance(n.args[1], ast.Constant) and \
                    fn.cls is not None and fn.cls.name == 'SubPackets' and isinstance(n.args[0], ast.Name) and fn.params and \
                    n.args[0].id == fn.params[0]:
                raise AnalysisError('%s: setattr on self with a computed attribute name' % fn.qualname)
        if hit:
            out.append(fn)
    return out


def _stores_to(s, attr):
    """(path, value text, line, Val) of the stores on this path whose target is `<object>.<attr>` (setattr with a literal name included)."""
    out = [(p, v, l, val) for p, v, l, val in s.stores if p.endswith('.' + attr)]
    for c in s.calls:
        if c[0] == 'setattr' and len(c[1]) == 3 and c[1][1] == repr(attr):
            out.append(('%s.%s' % (c[1][0], attr), c[1][2], c[3], None))
    return out


def run(rep, prog, tier):
    rep.rule('C05.1', 'parse captures the received hashed area (2 + hl octets from offset 0) before consuming and stores it after the hashed subpackets are filed', floor=3)
    rep.rule('C05.2', '__hashbytearray__ returns the captured octets whenever present; re-serialisation only when absent', floor=2)
    rep.rule('C05.3', 'all other stores to the capture are None or a copy from another instance; copies carry it', floor=5)
    rep.rule('C05.4', 'hashdata / canonical_bytes take the hashed area from __hashbytearray__', floor=2)
    rep.rule('C05.5', 'header octets pass through injective stores only and are read back from them', floor=6)
    rep.assume('Enum(v) raises on an unknown value, i.e. the packet is rejected (allowed by the statement) rather than normalised')
    rep.assume('bytearray slices and copy.copy(bytearray) are octet-exact copies')

    ci = prog.cls('pgpy.packet.fields', 'SubPackets')
    hb = ci.methods.get('__hashbytearray__')
    raw = raw_attribute(prog)
    if raw is None:
        # the hashed area is re-serialised from parsed objects: the property then depends on every subpacket codec being lossless
        rep.violation('C05.2', 'SubPackets.__hashbytearray__', 're-serialises parsed subpackets',
                      'the octets hashed for the hashed area are produced by re-encoding parsed subpacket objects, not the received octets '
                      '(flag masks, text transcoding and length canonicalisation change them)', where=hb.where,
                      expected='return a copy of the octets SubPackets.parse received', found=ast.unparse(hb.node)[:200])
        return
    R = '%s.%s' % (hb.params[0], raw)
    rep.saw(fn=hb)

    check_capture(rep, prog, ci, raw)
    check_no_normalisation_on_load(rep, prog, ci, raw)
    check_replay(rep, prog, ci, hb, raw, R)
    check_other_stores(rep, prog, ci, raw)
    check_consumers(rep, prog)
    check_verdict_has_own_hash(rep, prog)
    check_header_octets(rep, prog)


# ------------------------------------------------------------------------------------------------ C05.1
def check_capture(rep, prog, ci, raw):
    pf = ci.methods.get('parse')
    if pf is None:
        raise AnalysisError('SubPackets.parse vanished')
    rep.saw(fn=pf)
    S = pf.params[0]
    R = '%s.%s' % (S, raw)
    outs = Interp(prog, Scenario(args=at(pf, p1=Sym('packet')), inline=noinline)).run(pf)
    rep.analysed['paths'] += len(outs)
    good = [sl('packet', ('', '2 + %s' % HL)) for HL in b2i_forms(S, sl('packet', ('', 2)))]
    pure = ('len', 'bytes', 'bytearray', 'memoryview', 'id', 'type', 'isinstance')
    # "any legal length encoding": parse may not reject (raise) on a condition that depends on the RE-ENCODED size of a received
    # subpacket (len(sp) / sp.__bytearray__() use the canonical length-field size, the wire may use a longer legal one)
    reenc = re.compile(r'len\(\$[\d._]+\)|%s\.(%s|%s)\b|\.__bytearray__\(\)|\.__len__\(\)' % (re.escape(S), HASHED_COLL, UNHASHED_COLL))
    for s in outs:
        if s.raised is not None:
            bad = [f[0] for f in s.facts if reenc.search(f[0])]
            rep.check(not bad, 'C05.1', 'SubPackets.parse', 'rejects on re-encoded size: %s' % [b[:80] for b in bad],
                      'a received signature is rejected on a condition computed from the re-encoded size of its subpackets: a legal '
                      'non-minimal length encoding (e.g. a five-octet subpacket length) makes a valid signature unreadable', where=pf.where,
                      expected='reject only on conditions over the received octets', found=bad)
    outs = [s for s in outs if s.raised is None] or outs
    for s in outs:
        stores = [(i, e) for i, e in enumerate(s.events) if e[0] == 'store' and e[1] == R]
        if len(stores) != 1:
            rep.violation('C05.1', 'SubPackets.parse', '%d stores to %s' % (len(stores), R),
                          'parse must store the received hashed area exactly once', where=pf.where, found=[e[2] for _, e in stores])
            continue
        si, se = stores[0]
        rep.check(se[2] in good, 'C05.1', 'SubPackets.parse', '%s = %s' % (R, se[2]),
                  'the capture must be the first 2 + hl octets of the buffer as it was received (length field included), '
                  'taken before anything was consumed', where='%s:%d' % (pf.module.relpath, se[3]),
                  expected='packet[:2 + hl] with hl = bytes_to_int(packet[:2])', found=se[2])
        # taken before any consumption: the value is first computed (bound to a local or stored) before the first `del` on the
        # buffer and before the first call that receives the buffer itself (a sub-parser consumes from it)
        first_consume = next((i for i, e in enumerate(s.events) if (e[0] == 'del' and re.match(r'^(SLICE\()?packet\b', e[1])) or
                              (e[0] == 'call' and e[1] not in pure and 'packet' in e[2])), None)
        cap = next((i for i, e in enumerate(s.events) if e[0] in ('assign', 'store') and e[2] == se[2]), None)
        rep.check(cap is not None and first_consume is not None and cap < first_consume, 'C05.1', 'SubPackets.parse',
                  'capture at event %s, first consumption at %s' % (cap, first_consume),
                  'the octets must be copied out before the parser consumes or sub-parsers mutate the buffer', where=pf.where)
        # stored after the last hashed __setitem__ (which invalidates): a subscript store on self whose key carries the 'h_' prefix
        def hashed_file(e):
            return e[0] == 'store' and e[1].startswith(S + '[') and 'h_' in e[1]
        hashed_sets = [i for i, e in enumerate(s.events) if hashed_file(e)]
        rep.check(bool(hashed_sets) and si > max(hashed_sets), 'C05.1', 'SubPackets.parse', 'store index %d vs hashed files %s' % (si, hashed_sets),
                  'filing a hashed subpacket invalidates the capture, so it must be stored after the hashed subpackets were filed',
                  where=pf.where)
        later = [e for e in s.events[si + 1:] if (e[0] == 'store' and e[1] == R) or hashed_file(e)]
        rep.check(not later, 'C05.1', 'SubPackets.parse', 'later hashed stores %s' % [e[1] for e in later],
                  'nothing after the capture may touch the hashed area', where=pf.where)


LOAD_NAMES = ('parse', '__or__', '__ior__', '__ror__', 'from_blob', 'from_file', 'load', '__new__')


def _load_path_functions(prog):
    """Functions that run while an object is being read: every `parse`, the composition operators the readers use to assemble
    what they parsed, the from_* constructors - and whatever program function those call by name (self.m(...), helper(...)),
    two levels deep.  New private helpers were already inlined by the canonicaliser."""
    tops = list(prog.all_functions())
    by_name = {}
    for f in tops:
        by_name.setdefault(f.name, []).append(f)
    seen, work = {}, [(f, 0) for f in tops if f.name in LOAD_NAMES or f.name.startswith('_parse')]
    while work:
        f, d = work.pop()
        if id(f) in seen:
            continue
        seen[id(f)] = f
        if d >= 2:
            continue
        for n in ast.walk(f.node):
            if isinstance(n, ast.Call):
                nm = n.func.attr if isinstance(n.func, ast.Attribute) else n.func.id if isinstance(n.func, ast.Name) else None
                # only private helpers are followed by name: public API names (sign, bind, addnew ...) are not part of loading
                if nm and nm.startswith('_') and not nm.startswith('__') and nm in by_name:
                    work.extend((g, d + 1) for g in by_name[nm])
    return list(seen.values())


HEADER_FIELDS = ('sigtype', '_sigtype', 'pubalg', '_pubalg', 'halg', '_halg')


def _is_fresh_local(fn, name):
    """A local bound (only) to a freshly constructed object in this function (`x = K()`): setting fields of an object that is being
    built (make_onepass, a new packet) is construction, not normalisation of something received."""
    vals = [n.value for n in ast.walk(fn.node) if isinstance(n, ast.Assign) and any(isinstance(t, ast.Name) and t.id == name for t in n.targets)]
    return bool(vals) and name not in fn.params and all(isinstance(v, ast.Call) and isinstance(v.func, ast.Name) and v.func.id[:1].isupper() and
                                                        not v.args and not v.keywords for v in vals)


def check_no_normalisation_on_load(rep, prog, ci, raw):
    """"Received" means no normalisation step between parse and verify: on the load path nothing may be filed into the hashed
    area of a signature (addnew with hashed other than the literal False, a store through the mapping interface of a
    `.subpackets` object under a key that is not a literal unhashed name, update / setdefault on it) and nothing but
    SubPackets.parse may write the capture.  The capture is invalidated only by the public mutation API reached from outside."""
    n = 0
    for fn in _load_path_functions(prog):
        if (fn.cls is ci and fn.name == 'parse') or _only_inlined_helper(prog, fn):
            continue                    # C05.1 decides the one function that files received subpackets (new helpers of it are inlined there)
        for node in ast.walk(fn.node):
            w = '%s:%d' % (fn.module.relpath, getattr(node, 'lineno', 0))
            if isinstance(node, ast.Call) and isinstance(node.func, ast.Attribute) and node.func.attr == 'addnew':
                n += 1
                hashed = node.args[1] if len(node.args) > 1 else next((k.value for k in node.keywords if k.arg == 'hashed'), None)
                spread = any(k.arg is None for k in node.keywords)
                unhashed = (hashed is None and not spread) or (isinstance(hashed, ast.Constant) and hashed.value is False)
                rep.check(unhashed, 'C05.1', fn.qualname, 'addnew while loading: %s' % ast.unparse(node)[:100],
                          'a subpacket is filed into the hashed area while the object is being read: the received hashed-area octets are '
                          'dropped and the signature is afterwards hashed (and written back) with octets that were never on the wire',
                          where=w, expected='no hashed subpacket is added between parse and verify', found=ast.unparse(node)[:160])
            tgt = None
            if isinstance(node, (ast.Assign, ast.AugAssign, ast.AnnAssign)):
                tgts = node.targets if isinstance(node, ast.Assign) else [node.target]
                for t in tgts:
                    for x in ([t] + list(t.elts) if isinstance(t, (ast.Tuple, ast.List)) else [t]):
                        if isinstance(x, ast.Subscript) and isinstance(x.value, ast.Attribute) and x.value.attr == 'subpackets':
                            tgt = x
                        if isinstance(x, ast.Attribute) and x.attr == raw:
                            n += 1
                            rep.violation('C05.1', fn.qualname, 'writes %s while loading' % raw,
                                          'only SubPackets.parse may write the received hashed-area octets while an object is being read',
                                          where=w, found=ast.unparse(node)[:160])
            # the header octets that are hashed (type, algorithms, version): a reader writes its OWN fields from its buffer (C05.5
            # decides that for SignatureV4.parse); rewriting them on another object while loading is a normalisation
            hdr = []
            if isinstance(node, (ast.Assign, ast.AugAssign, ast.AnnAssign)):
                tg = node.targets if isinstance(node, ast.Assign) else [node.target]
                for t in tg:
                    for x in (list(t.elts) if isinstance(t, (ast.Tuple, ast.List)) else [t]):
                        if isinstance(x, ast.Attribute) and x.attr in HEADER_FIELDS:
                            hdr.append(x.value)
                        if isinstance(x, ast.Attribute) and x.attr == 'version' and isinstance(x.value, ast.Attribute) and x.value.attr == 'header':
                            hdr.append(x.value.value)
            if isinstance(node, ast.Call) and dotted(node.func) == 'setattr' and len(node.args) >= 2 and isinstance(node.args[1], ast.Constant) and \
                    node.args[1].value in HEADER_FIELDS:
                hdr.append(node.args[0])
            for base in hdr:
                own = isinstance(base, ast.Name) and fn.params and base.id == fn.params[0] and fn.name in ('parse', '__init__')
                fresh = isinstance(base, ast.Name) and _is_fresh_local(fn, base.id)
                if own or fresh:
                    continue
                n += 1
                rep.violation('C05.1', fn.qualname, 'rewrites a header field of a loaded signature: %s' % ast.unparse(node)[:100],
                              'the type / algorithm / version octet of a signature is rewritten while it is being read, so the octet hashed '
                              'on verification is not the one received', where=w, expected='header fields are written only by the packet\'s own parse',
                              found=ast.unparse(node)[:160])
            if isinstance(node, ast.Call) and isinstance(node.func, ast.Attribute) and isinstance(node.func.value, ast.Attribute) and \
                    node.func.value.attr == 'subpackets' and node.func.attr in ('__setitem__', 'update', 'setdefault'):
                tgt = node
            if isinstance(node, ast.Call) and dotted(node.func) == 'setattr' and len(node.args) >= 2 and isinstance(node.args[1], ast.Constant) and \
                    node.args[1].value == raw:
                n += 1
                rep.violation('C05.1', fn.qualname, 'setattr %s while loading' % raw,
                              'only SubPackets.parse may write the received hashed-area octets while an object is being read', where=w,
                              found=ast.unparse(node)[:160])
            if tgt is not None:
                n += 1
                key = tgt.slice if isinstance(tgt, ast.Subscript) else (tgt.args[0] if tgt.args else None)
                lit_unhashed = isinstance(key, ast.Constant) and isinstance(key.value, str) and not key.value.startswith('h_') and \
                    (isinstance(tgt, ast.Subscript) or tgt.func.attr == '__setitem__')
                rep.check(lit_unhashed, 'C05.1', fn.qualname, 'files a subpacket while loading: %s' % ast.unparse(tgt)[:100],
                          'a store through the mapping interface of a subpacket set while the object is being read may file a hashed '
                          'subpacket, which drops the received hashed-area octets', where=w,
                          expected='no store under an h_ key between parse and verify', found=ast.unparse(node)[:160])
    rep.ok('C05.1', 'load path', 'no hashed filing / capture write outside SubPackets.parse on %d load-path sites' % n)


# ------------------------------------------------------------------------------------------------ C05.2
def check_replay(rep, prog, ci, hb, raw, R):
    # present: every path returns a copy of the received octets (no other condition can divert a path to re-serialisation)
    present = Interp(prog, Scenario(bind={R: Sym(R, nonnull=True)}, inline=noinline)).run(hb)
    rep.analysed['paths'] += len(present)
    if not present:
        raise AnalysisError('SubPackets.__hashbytearray__: no path')
    for s in present:
        t, copied = uncopy(s.ret)
        cond = [(f[0], f[1]) for f in s.facts]
        rep.check(s.raised is None and t == R, 'C05.2', 'SubPackets.__hashbytearray__', 'received octets present, decisions %s -> %s' % (cond, (t or '')[:80]),
                  'the received octets must be returned whenever they are present - presence must be the only condition', where=hb.where,
                  expected='if %s is not None: return bytearray(%s)' % (R, R), found='under %s returns %s' % (cond, (t or '')[:120]),
                  scenario='received octets present')
        if t == R:
            # it must be a copy, not the stored object itself (callers append to it)
            rep.check(copied, 'C05.2', 'SubPackets.__hashbytearray__', 'returns a copy',
                      'callers extend the returned buffer; the stored octets must not be aliased', where=hb.where,
                      expected='bytearray(%s)' % R, found=render(s.ret), scenario='received octets present')
    # absent: nothing of the capture is returned; the re-serialised layout itself is C02.5
    absent = Interp(prog, Scenario(bind={R: Const(None)}, inline=noinline)).run(hb)
    rets = [s for s in absent if s.raised is None]
    if not rets:
        raise AnalysisError('SubPackets.__hashbytearray__: no returning path without received octets')
    for s in rets:
        r = render(s.ret)
        rep.check(isinstance(s.ret, Bytes) and r not in ('None', 'C()'), 'C05.2', 'SubPackets.__hashbytearray__', 'no received octets -> %s' % r[:80],
                  're-serialisation of parsed subpackets happens exactly when no received octets exist (a signature being built)',
                  where=hb.where, found=r, scenario='no received octets')


# ------------------------------------------------------------------------------------------------ C05.3
HASHED_COLL = '_hashed_sp'       # the collection of parsed hashed subpackets (the same name C02.5 reads the built area from)


UNHASHED_COLL = '_unhashed_sp'


def distinct_areas(prog, ci, me):
    """Axioms "the hashed and the unhashed collection are two different objects" for receiver text `me` - a class invariant read
    off __init__ (each is bound there to its own freshly constructed object and no function binds one to the other), so a test
    such as `area is self._hashed_sp` on the unhashed collection is decided."""
    ini = ci.methods.get('__init__')
    fresh = {}
    if ini is not None:
        for s in Interp(prog, Scenario(inline=noinline)).run(ini):
            for p, v, l, val in s.stores:
                for a in (HASHED_COLL, UNHASHED_COLL):
                    if p == '%s.%s' % (ini.params[0], a):
                        fresh[a] = bool(re.match(r'^[\w.]+\(\)$', v))
    if not (fresh.get(HASHED_COLL) and fresh.get(UNHASHED_COLL)):
        return {}
    for fn in prog.all_functions():
        for n in ast.walk(fn.node):
            if isinstance(n, ast.Assign) and isinstance(n.value, ast.Attribute) and n.value.attr in (HASHED_COLL, UNHASHED_COLL):
                for t in n.targets:
                    if isinstance(t, ast.Attribute) and t.attr in (HASHED_COLL, UNHASHED_COLL) and t.attr != n.value.attr:
                        return {}
    a, b = '%s.%s' % (me, HASHED_COLL), '%s.%s' % (me, UNHASHED_COLL)
    return {'(%s is %s)' % (a, b): False, '(%s is %s)' % (b, a): False, '(%s is not %s)' % (a, b): True, '(%s is not %s)' % (b, a): True,
            '(%s == %s)' % (a, a): True, '(%s is %s)' % (a, a): True, '(%s is %s)' % (b, b): True,
            '(%s is not %s)' % (a, a): False, '(%s is not %s)' % (b, b): False}


def _touches_hashed(s, obj):
    """Does this path change the hashed subpacket collection of `obj` (item store, rebinding, mutating call, delete)?"""
    coll = '%s.%s' % (obj, HASHED_COLL)
    for e in s.events:
        if e[0] == 'store' and (e[1] == coll or e[1].startswith(coll + '[')):
            return True
        if e[0] == 'del' and e[1].startswith(coll):
            return True
        if e[0] == 'call' and e[1].startswith(coll + '.') and e[1].split('.')[-1] in (
                'pop', 'popitem', 'clear', 'update', 'setdefault', 'move_to_end', '__setitem__', '__delitem__'):
            return True
    return False


def _only_inlined_helper(prog, fn):
    """A new private helper whose every call site was inlined by the canonicaliser: its body is judged where it was inlined."""
    inl = set(c for c, host in (getattr(prog, 'canon_inlined', None) or []))
    if fn.name not in inl:
        return False
    for g in prog.all_functions():
        for n in ast.walk(g.node):
            if isinstance(n, ast.Call) and ((isinstance(n.func, ast.Attribute) and n.func.attr == fn.name) or
                                            (isinstance(n.func, ast.Name) and n.func.id == fn.name)):
                return False
            if isinstance(n, ast.Attribute) and n.attr == fn.name and not isinstance(getattr(n, 'ctx', None), ast.Store) and g is not fn:
                return False
    return True


def check_other_stores(rep, prog, ci, raw):
    sites = _attr_store_sites(prog, raw)
    cp = ci.methods.get('__copy__')
    for fn in sites:
        if fn.cls is ci and fn.name == 'parse':
            continue        # C05.1
        if fn is cp or _only_inlined_helper(prog, fn):
            continue
        n = 0
        ax = distinct_areas(prog, ci, fn.params[0]) if fn.cls is ci and fn.params else {}
        for s in Interp(prog, Scenario(inline=noinline, join_unknown=False, axioms=ax)).run(fn):
            sts = _stores_to(s, raw)
            for p, v, l, _ in sts:
                n += 1
                rep.check(v == 'None', 'C05.3', fn.qualname, '%s = %s' % (p, v),
                          'outside parse and __copy__ the capture may only be reset to None', where='%s:%d' % (fn.module.relpath, l), found='%s = %s' % (p, v))
            # a reset loses the received octets for good: it is legitimate only where the hashed subpackets themselves change on
            # the same path (and in the initial state); anywhere else a received signature would silently fall back to re-encoding
            if sts and fn.name != '__init__' and s.raised is None:
                objs = sorted(set(p[:-len(raw) - 1] for p, v, l, _ in sts))
                bad = [o for o in objs if not _touches_hashed(s, o)]
                rep.check(not bad, 'C05.3', fn.qualname, 'resets the capture of %s, hashed subpackets unchanged' % bad,
                          'the received octets are dropped on a path that does not change the hashed subpackets: a received '
                          'signature passing through here is afterwards hashed from a re-encoding', where=fn.where,
                          expected='reset only together with a change of %s' % HASHED_COLL, found='decisions %s' % [(f[0], f[1]) for f in s.facts])
        if n == 0:
            raise AnalysisError('%s writes %s in a way the interpreter does not see' % (fn.qualname, raw))
    # __copy__ carries a copy of the octets
    if cp is None:
        rep.violation('C05.3', 'SubPackets.__copy__', 'no __copy__', 'a copied signature must verify over the same received octets', where=ci.where)
    else:
        R = '%s.%s' % (cp.params[0], raw)
        for present in (True, False):
            bind = {R: Sym(R, nonnull=True) if present else Const(None)}
            for s in Interp(prog, Scenario(bind=bind, inline=noinline)).run(cp):
                if s.raised is not None:
                    continue
                tgt = '%s.%s' % (render(s.ret), raw)
                vals = [(v, val) for p, v, l, val in _stores_to(s, raw) if p == tgt]
                if present:
                    ok = len(vals) >= 1 and uncopy(vals[-1][1] if vals[-1][1] is not None else Sym(vals[-1][0])) == (R, True)
                    # filing a hashed subpacket through the mapping interface of the copy resets its capture: none after the store
                    last = max([i for i, e in enumerate(s.events) if e[0] == 'store' and e[1] == tgt] + [-1])
                    refiled = [e[1] for e in s.events[last + 1:] if e[0] == 'store' and e[1].startswith(render(s.ret) + '[') and
                               ('h_' in e[1] or not re.search(r"\['\w+'\]$", e[1]))]
                    refiled += [e[1] for e in s.events[last + 1:] if e[0] == 'call' and e[1] in (render(s.ret) + '.addnew', render(s.ret) + '.__setitem__')]
                    ok = ok and not refiled
                    rep.check(ok, 'C05.3', 'SubPackets.__copy__', 'carries %s: %s' % (raw, [v for v, _ in vals]),
                              'a copied signature (e.g. in a derived public key) must verify over the same received octets: '
                              'a copy of a signature must carry the received octets (as a copy)', where=cp.where,
                              expected='%s = copy.copy(%s)' % (tgt, R), found=[v for v, _ in vals], scenario='received octets present')
                else:
                    ok = all(v in ('None', 'copy.copy(None)', 'copy.deepcopy(None)') for v, _ in vals)
                    rep.check(ok, 'C05.3', 'SubPackets.__copy__', 'without received octets: %s' % [v for v, _ in vals],
                              'a copy of a built signature has no received octets either', where=cp.where, found=[v for v, _ in vals],
                              scenario='no received octets')
    # invalidation on a hashed key only: concrete keys, so the test on the key may be spelled in any way
    si = ci.methods.get('__setitem__')
    if si is None:
        raise AnalysisError('SubPackets.__setitem__ vanished')
    RS = '%s.%s' % (si.params[0], raw)
    for hashed, key in ((True, 'h_Issuer'), (False, 'Issuer'), (True, 'h_NotationData'), (False, 'NotationData')):
        outs = Interp(prog, Scenario(inline=noinline, args=at(si, p1=Const(key)), axioms=distinct_areas(prog, ci, si.params[0]))).run(si)
        outs = [s for s in outs if s.raised is None]
        if not outs:
            raise AnalysisError('SubPackets.__setitem__: no returning path for key %r' % key)
        for s in outs:
            resets = [v for p, v, l, _ in s.stores if p == RS]
            rep.check((resets == ['None'] or (hashed and resets and set(resets) == {'None'})) == hashed and (hashed or not resets), 'C05.3',
                      'SubPackets.__setitem__', 'key %r -> resets %s' % (key, resets),
                      'adding a hashed subpacket must invalidate the received octets; adding an unhashed one must not', where=si.where,
                      scenario='hashed=%s' % hashed)
    ini = ci.methods.get('__init__')
    if ini is None:
        raise AnalysisError('SubPackets.__init__ vanished')
    for s in Interp(prog, Scenario(inline=noinline)).run(ini):
        if s.raised is not None:
            continue
        init_vals = [v for p, v, l, _ in s.stores if p == '%s.%s' % (ini.params[0], raw)]
        rep.check(bool(init_vals) and init_vals[-1] == 'None', 'C05.3', 'SubPackets.__init__', '%s initial %s' % (raw, init_vals),
                  'a new (unparsed) subpacket set has no received octets', where=ini.where)
    # copy chain: the packet copies its subpacket set, the PGPSignature copies its packet
    sv = prog.method('pgpy.packet.packets', 'SignatureV4', '__copy__')
    X = sv.params[0]
    copies = lambda a: ('copy.copy(%s)' % a, 'copy.deepcopy(%s)' % a, '%s.__copy__()' % a)  # noqa: E731
    for s in Interp(prog, Scenario(inline=noinline)).run(sv):
        if s.raised is not None:
            continue
        got = [v for p, v, l, _ in s.stores if p == '%s.subpackets' % render(s.ret)]
        rep.check(bool(got) and got[-1] in copies('%s.subpackets' % X), 'C05.3', 'SignatureV4.__copy__', 'subpackets copied: %s' % got,
                  'copying a signature packet must copy its subpacket set (and with it the received octets)', where=sv.where,
                  expected=copies('%s.subpackets' % X)[0], found=got)
    ps = prog.method('pgpy.pgp', 'PGPSignature', '__copy__')
    X = ps.params[0]
    for s in Interp(prog, Scenario(inline=noinline)).run(ps):
        if s.raised is not None:
            continue
        ret = render(s.ret)
        flows = [ret] + [e[2] for e in s.events if e[0] == 'ior'] + [v for p, v, l, _ in s.stores if p.endswith('._signature')]
        rep.check(any(c in t for t in flows for c in copies('%s._signature' % X)), 'C05.3', 'PGPSignature.__copy__', 'packet copied',
                  'copying a PGPSignature must copy its packet', where=ps.where, expected=copies('%s._signature' % X)[0], found=flows)


# ------------------------------------------------------------------------------------------------ C05.4
def check_consumers(rep, prog):
    # hashdata: the HASHED term of the trailer is matched against the template (role HASHED = subpackets.__hashbytearray__()) for one
    # scenario of each subject family; the trailer code is shared by all types and all of them are matched under C01.1 / C02.1
    sigdata.check_hashdata(rep, prog, 'C05.4', only_types={'BinaryDocument', 'Positive_Cert', 'Subkey_Binding'})
    cb = prog.method('pgpy.packet.packets', 'SignatureV4', 'canonical_bytes')
    X = cb.params[0]
    for s in Interp(prog, Scenario(inline=noinline)).run(cb):
        if s.raised is not None:
            continue
        its = merge_consts(s.ret.items) if isinstance(s.ret, Bytes) else []
        area = [render_items([i]) for i in its if 'subpackets' in render_items([i]) and i[0] != 'INT']
        want = '%s.subpackets.__hashbytearray__()' % X
        if area != [want] and unmodelled(render(s.ret)) is not None:
            raise AnalysisError('SignatureV4.canonical_bytes: %r is outside what the byte-term interpreter models' % unmodelled(render(s.ret)))
        rep.check(area == [want], 'C05.4', 'SignatureV4.canonical_bytes', 'hashed area term %s' % area,
                  'an attested signature is hashed with its hashed area as received', where=cb.where, expected=want, found=area)


def check_verdict_has_own_hash(rep, prog):
    """Every signature PGPKey.verify takes from its (signature, subject) pairs gets a verdict only after ITS OWN hashdata was
    computed and checked on that path - or a failing verdict from the key / primitive checks.  A verdict reused from another
    packet (a cache keyed by signer and signature value) lets a packet whose hashed region was altered inherit OK."""
    from sa.looppaths import observe
    vf = prog.method('pgpy.pgp', 'PGPKey', 'verify')
    outs, recs = observe(prog, vf)
    n = 0
    seen = set()
    for r in recs:
        for status, facts, events, ys in r.paths:
            calls = [e for e in events if e[0] == 'call']
            for i, e in enumerate(calls):
                if not e[1].endswith('.add_sigsubj') or len(e[2]) < 4:
                    continue
                sig, subj, verdict = e[2][0], e[2][2], e[2][3]
                hashed = any(c[1] == '%s.hashdata' % sig and c[2][:1] == [subj] for c in calls[:i])
                hd = '%s.hashdata(%s)' % (sig, subj)
                # the verdict is computed from, or chosen by a decision over, the result of checking this signature's own hash
                own = hashed and (hd in verdict or any(hd in t for t, v, sk in facts))
                forced = []
                for t, v, sk in facts:
                    sigdata.implied_atoms(sk, v, forced)
                failing = any(v is True and a[0] == 'expr' and a[1] == verdict + '.causes_signature_verify_to_fail' for a, v in forced)
                key = (sig, subj, verdict, own, failing)
                if key in seen:
                    continue
                seen.add(key)
                n += 1
                rep.check(own or failing, 'C05.4', 'PGPKey.verify', 'verdict %s for %s' % (verdict[:80], sig),
                          'a signature gets a verdict that does not come from hashing that signature (its own hashdata on this path): a '
                          'packet with the same signature value but an altered hashed region inherits the verdict of another', where=vf.where,
                          expected='add_sigsubj(sig, ..., verdict of verify(sig.hashdata(subj), ...)) or a failing key/primitive verdict',
                          found='decisions %s' % [(t[:60], v) for t, v, sk in facts][-3:])
    if not n:
        raise AnalysisError('PGPKey.verify: no verdict record found in its signature loop')


# ------------------------------------------------------------------------------------------------ C05.5
def _octet_offset(t):
    """Offset (from where the packet body starts) of a single received octet: packet[k] after the preceding `del`s."""
    m = re.match(r'^packet\[(\d+)\]$', t)
    if m:
        return int(m.group(1))
    m = re.match(r'^SLICE\(packet;(\d+);\)\[(\d+)\]$', t)
    if m:
        return int(m.group(1)) + int(m.group(2))
    return None


def check_header_octets(rep, prog):
    sv4 = prog.cls('pgpy.packet.packets', 'SignatureV4')
    for prop, attr, enum in (('sigtype', '_sigtype', 'SignatureType'), ('pubalg', '_pubalg', 'PubKeyAlgorithm'), ('halg', '_halg', 'HashAlgorithm')):
        p = sv4.props.get(prop)
        if p is None or 'int' not in p.setters or p.getter is None:
            raise AnalysisError('SignatureV4.%s sdproperty vanished' % prop)
        st = p.setters['int']
        rep.saw(fn=st)
        vals = set()
        X = st.params[0]
        for s in Interp(prog, Scenario(args=at(st, p1=Sym('val')), inline=noinline)).run(st):
            for pth, v, l, _ in s.stores:
                if pth == '%s.%s' % (X, attr):
                    vals.add(v)
        allowed = {'%s(val)' % enum, 'val'}
        rep.check(bool(vals) and vals <= allowed and '%s(val)' % enum in vals, 'C05.5', 'SignatureV4.%s_int' % prop, '%s <- %s' % (attr, sorted(vals)),
                  'the received %s octet must be stored unchanged (enum lookup or raw value), never mapped to another value' % prop,
                  where=st.where, expected='self.%s = %s(val)' % (attr, enum), found=sorted(vals))
        for s in Interp(prog, Scenario(inline=noinline)).run(p.getter):
            rep.check(render(s.ret) == '%s.%s' % (p.getter.params[0], attr), 'C05.5', 'SignatureV4.%s' % prop, 'getter returns %s' % render(s.ret),
                      'the value hashed must be the stored one', where=p.getter.where)
    # PGPSignature properties read those
    for name, field in (('type', 'sigtype'), ('key_algorithm', 'pubalg'), ('hash_algorithm', 'halg')):
        g = prog.method('pgpy.pgp', 'PGPSignature', name)
        exp = '%s._signature.%s' % (g.params[0], field)
        for s in Interp(prog, Scenario(inline=noinline)).run(g):
            rep.check(render(s.ret) == exp, 'C05.5', 'PGPSignature.%s' % name, 'returns %s' % render(s.ret),
                      'the trailer octet must come from the parsed packet field', where=g.where, expected=exp, found=render(s.ret))
    # SignatureV4.parse feeds the three octets in RFC order: each property receives the octet at its offset in the received body
    sp = sv4.methods['parse']
    X = sp.params[0]
    n = 0
    for s in Interp(prog, Scenario(args=at(sp, p1=Sym('packet')), inline=noinline, forward_stores=False)).run(sp):
        if s.raised is not None:
            continue
        n += 1
        got = {}
        for pth, v, l, _ in s.stores:
            for k, name in enumerate(('sigtype', 'pubalg', 'halg')):
                if pth == '%s.%s' % (X, name):
                    got.setdefault(name, []).append(_octet_offset(v))
        rep.check(got == {'sigtype': [0], 'pubalg': [1], 'halg': [2]}, 'C05.5', 'SignatureV4.parse', 'octet offsets %s' % got,
                  'type, public-key algorithm and hash algorithm are read in RFC 4880 5.2.3 order', where=sp.where,
                  expected={'sigtype': [0], 'pubalg': [1], 'halg': [2]}, found=got)
    if not n:
        raise AnalysisError('SignatureV4.parse: no returning path')
