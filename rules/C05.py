"""C05 - The hashed subpacket area is verified verbatim, exactly as received.

Decided by provenance (DESIGN 5/C05, form after the repair that keeps the received octets):
  C05.1 SubPackets.parse captures packet[:2 + hl] (hl = the two-octet count at offset 0) before any consumption and stores it
        after the last hashed __setitem__ of the function
  C05.2 __hashbytearray__ returns a copy of the captured octets whenever they are present - that test is the only condition -
        and the re-serialising code is reachable only when they are absent
  C05.3 every other store to the capture is None (invalidation in __setitem__ on a hashed key, initial state) or a copy of the
        same attribute of another instance (__copy__); the copy chain SubPackets/SignatureV4/PGPSignature carries it
  C05.4 hashdata and canonical_bytes obtain the hashed area only through __hashbytearray__
  C05.5 the four header octets (version, type, pk algorithm, hash algorithm) pass only through injective stores and are read
        back from the attributes those stores write
"""
import ast
import re

from sa.interp import Interp, Scenario, Sym, Const, Bytes, Enum, render, render_items, merge_consts
from sa.loader import AnalysisError, dotted
from sa import sigdata

noinline = lambda f: False  # noqa: E731
RAW = '_hashed_raw'


def find_raw_attr(prog):
    """The attribute that holds the received hashed area: the one __hashbytearray__ returns on its first arm."""
    ci = prog.cls('pgpy.packet.fields', 'SubPackets')
    f = ci.methods.get('__hashbytearray__')
    if f is None:
        raise AnalysisError('SubPackets.__hashbytearray__ vanished')
    cands = set()
    for n in ast.walk(f.node):
        if isinstance(n, ast.Compare) and isinstance(n.left, ast.Attribute) and isinstance(n.left.value, ast.Name) and \
                n.left.value.id == f.params[0] and len(n.ops) == 1 and isinstance(n.ops[0], (ast.Is, ast.IsNot)) and \
                isinstance(n.comparators[0], ast.Constant) and n.comparators[0].value is None:
            cands.add(n.left.attr)
    return ci, f, cands


def run(rep, prog, tier):
    rep.rule('C05.1', 'parse captures the received hashed area (2 + hl octets from offset 0) before consuming and stores it after the hashed subpackets are filed', floor=3)
    rep.rule('C05.2', '__hashbytearray__ returns the captured octets whenever present; re-serialisation only when absent', floor=2)
    rep.rule('C05.3', 'all other stores to the capture are None or a copy from another instance; copies carry it', floor=5)
    rep.rule('C05.4', 'hashdata / canonical_bytes take the hashed area from __hashbytearray__', floor=2)
    rep.rule('C05.5', 'header octets pass through injective stores only and are read back from them', floor=6)
    rep.assume('Enum(v) raises on an unknown value, i.e. the packet is rejected (allowed by the statement) rather than normalised')
    rep.assume('bytearray slices and copy.copy(bytearray) are octet-exact copies')

    ci, hb, cands = find_raw_attr(prog)
    if not cands:
        # the hashed area is re-serialised from parsed objects: the property then depends on every subpacket codec being lossless
        rep.violation('C05.2', 'SubPackets.__hashbytearray__', 're-serialises parsed subpackets',
                      'the octets hashed for the hashed area are produced by re-encoding parsed subpacket objects, not the received octets '
                      '(flag masks, text transcoding and length canonicalisation change them)', where=hb.where,
                      expected='return a copy of the octets SubPackets.parse received', found=ast.unparse(hb.node)[:200])
        return
    raw = sorted(cands)[0]
    R = 'self.%s' % raw
    rep.saw(fn=hb)

    # ---- C05.1 capture in parse
    pf = ci.methods.get('parse')
    rep.saw(fn=pf)
    outs = Interp(prog, Scenario(inline=noinline)).run(pf)
    rep.analysed['paths'] += len(outs)
    HL = 'self.bytes_to_int(SLICE(packet;;2))'
    good_vals = {'SLICE(packet;;(2 + %s))' % HL, 'SLICE(packet;;(%s + 2))' % HL}
    for s in outs:
        stores = [(i, e) for i, e in enumerate(s.events) if e[0] == 'store' and e[1] == R]
        if len(stores) != 1:
            rep.violation('C05.1', 'SubPackets.parse', '%d stores to %s' % (len(stores), R),
                          'parse must store the received hashed area exactly once', where=pf.where, found=[e[2] for _, e in stores])
            continue
        si, se = stores[0]
        rep.check(se[2] in good_vals, 'C05.1', 'SubPackets.parse', '%s = %s' % (R, se[2]),
                  'the capture must be the first 2 + hl octets of the buffer as it was received (length field included), '
                  'taken before anything was consumed', where='%s:%d' % (pf.module.relpath, se[3]),
                  expected='packet[:2 + hl] with hl = bytes_to_int(packet[:2])', found=se[2])
        # taken before any consumption: the local that feeds the store is assigned before the first del / sub-parser call
        first_consume = next((i for i, e in enumerate(s.events) if e[0] == 'del' or (e[0] == 'call' and e[1] == 'SignatureSP')), None)
        cap = next((i for i, e in enumerate(s.events) if e[0] in ('assign', 'store') and e[2] == se[2]), None)
        rep.check(cap is not None and first_consume is not None and cap < first_consume, 'C05.1', 'SubPackets.parse',
                  'capture at event %s, first consumption at %s' % (cap, first_consume),
                  'the octets must be copied out before the parser consumes or sub-parsers mutate the buffer', where=pf.where)
        # stored after the last hashed __setitem__ (which invalidates)
        hashed_sets = [i for i, e in enumerate(s.events) if e[0] == 'store' and e[1].startswith("self[('h_'")]
        rep.check(bool(hashed_sets) and si > max(hashed_sets), 'C05.1', 'SubPackets.parse', 'store index %d vs hashed files %s' % (si, hashed_sets),
                  'filing a hashed subpacket invalidates the capture, so it must be stored after the hashed subpackets were filed',
                  where=pf.where)
        # and before the unhashed ones are filed is not required; but nothing after may reset it
        later = [e for e in s.events[si + 1:] if e[0] == 'store' and (e[1] == R or e[1].startswith("self[('h_'"))]
        rep.check(not later, 'C05.1', 'SubPackets.parse', 'later hashed stores %s' % [e[1] for e in later],
                  'nothing after the capture may touch the hashed area', where=pf.where)

    # ---- C05.2 __hashbytearray__
    outs = Interp(prog, Scenario(inline=noinline)).run(hb)
    arms = {}
    for s in outs:
        key = tuple((f[0], f[1]) for f in s.facts)
        arms[key] = render(s.ret)
    present = [(k, v) for k, v in arms.items() if v == R]
    rep.check(len(present) == 1 and present[0][0] in ((('(%s is not None)' % R, True),), (('(%s is None)' % R, False),)), 'C05.2',
              'SubPackets.__hashbytearray__', 'arms %s' % {str(k): v[:60] for k, v in arms.items()},
              'the received octets must be returned whenever they are present - presence must be the only condition', where=hb.where,
              expected='if %s is not None: return bytearray(%s)' % (R, R), found={str(k): v[:80] for k, v in arms.items()})
    for k, v in arms.items():
        if v != R:
            ok = any((t, val) in ((('(%s is not None)' % R), False), (('(%s is None)' % R), True)) for t, val in k)
            rep.check(ok and len(k) == 1, 'C05.2', 'SubPackets.__hashbytearray__', 're-serialising arm under %s' % (k,),
                      're-serialisation of parsed subpackets may only happen when no received octets exist (a signature being built)',
                      where=hb.where, found=str(k))
    # it must be a copy, not the stored object itself (callers append to it)
    src = ast.unparse(hb.node)
    rep.check(re.search(r'return\s+(bytearray|bytes)\(self\.%s\)|return\s+self\.%s\[:\]|copy\.copy\(self\.%s\)' % (raw, raw, raw), src) is not None,
              'C05.2', 'SubPackets.__hashbytearray__', 'returns a copy', 'callers extend the returned buffer; the stored octets must not be aliased',
              where=hb.where)

    # ---- C05.3 other stores
    n_other = 0
    for fn in prog.all_functions():
        for node in ast.walk(fn.node):
            if isinstance(node, ast.Assign):
                for t in node.targets:
                    if isinstance(t, ast.Attribute) and t.attr == raw:
                        if fn.qualname == 'SubPackets.parse':
                            continue
                        n_other += 1
                        v = node.value
                        vt = ast.unparse(v)
                        w = '%s:%d' % (fn.module.relpath, node.lineno)
                        if fn.qualname == 'SubPackets.__copy__':
                            ok = vt in ('copy.copy(self.%s)' % raw, 'bytearray(self.%s)' % raw, 'self.%s[:]' % raw) or \
                                re.match(r'^(None if self\.%s is None else )?(bytearray\(self\.%s\)|self\.%s\[:\])$' % (raw, raw, raw), vt) is not None
                            rep.check(ok, 'C05.3', fn.qualname, ast.unparse(node), 'a copy of a signature must carry the received octets (as a copy)',
                                      where=w, expected='sp.%s = copy.copy(self.%s)' % (raw, raw), found=ast.unparse(node))
                        else:
                            rep.check(isinstance(v, ast.Constant) and v.value is None, 'C05.3', fn.qualname, ast.unparse(node),
                                      'outside parse and __copy__ the capture may only be reset to None', where=w, found=ast.unparse(node))
    cp = ci.methods.get('__copy__')
    has_copy = cp is not None and any(isinstance(t, ast.Attribute) and t.attr == raw for n in ast.walk(cp.node) if isinstance(n, ast.Assign)
                                      for t in n.targets)
    rep.check(has_copy, 'C05.3', 'SubPackets.__copy__', 'carries %s' % raw,
              'a copied signature (e.g. in a derived public key) must verify over the same received octets', where=cp.where if cp else ci.where,
              expected='sp.%s = copy.copy(self.%s)' % (raw, raw))
    # invalidation on a hashed key only
    si = ci.methods.get('__setitem__')
    for hashed in (True, False):
        sc = Scenario(inline=noinline, args={'key': Sym('key', types={'str'}, nonnull=True)}, axioms={"key.startswith('h_')": hashed})
        for s in Interp(prog, sc).run(si):
            resets = [v for p, v, l, _ in s.stores if p == R]
            rep.check((resets == ['None']) == hashed and (hashed or not resets), 'C05.3', 'SubPackets.__setitem__',
                      'hashed key=%s -> resets %s' % (hashed, resets),
                      'adding a hashed subpacket must invalidate the received octets; adding an unhashed one must not', where=si.where,
                      scenario='hashed=%s' % hashed)
    ini = ci.methods.get('__init__')
    init_vals = [ast.unparse(n.value) for n in ast.walk(ini.node) if isinstance(n, ast.Assign) and
                 any(isinstance(t, ast.Attribute) and t.attr == raw for t in n.targets)]
    rep.check(init_vals == ['None'], 'C05.3', 'SubPackets.__init__', '%s initial %s' % (raw, init_vals),
              'a new (unparsed) subpacket set has no received octets', where=ini.where)
    # copy chain
    sv = prog.method('pgpy.packet.packets', 'SignatureV4', '__copy__')
    rep.check('spkt.subpackets = copy.copy(self.subpackets)' in ast.unparse(sv.node), 'C05.3', 'SignatureV4.__copy__', 'subpackets copied',
              'copying a signature packet must copy its subpacket set (and with it the received octets)', where=sv.where)
    ps = prog.method('pgpy.pgp', 'PGPSignature', '__copy__')
    rep.check('copy.copy(self._signature)' in ast.unparse(ps.node), 'C05.3', 'PGPSignature.__copy__', 'packet copied',
              'copying a PGPSignature must copy its packet', where=ps.where)

    # ---- C05.4 consumers
    hd = prog.method('pgpy.pgp', 'PGPSignature', 'hashdata')
    uses = [n for n in ast.walk(hd.node) if isinstance(n, ast.Attribute) and n.attr in ('_hashed_sp', raw, '__bytearray__') and
            'subpackets' in ast.unparse(n)]
    calls = [n for n in ast.walk(hd.node) if isinstance(n, ast.Call) and isinstance(n.func, ast.Attribute) and n.func.attr == '__hashbytearray__']
    rep.check(len(calls) == 1 and not uses, 'C05.4', 'PGPSignature.hashdata', '__hashbytearray__ calls %d, direct uses %d' % (len(calls), len(uses)),
              'the trailer must take the hashed area from __hashbytearray__ (the one place that knows the received octets)', where=hd.where)
    cb = prog.method('pgpy.packet.packets', 'SignatureV4', 'canonical_bytes')
    calls = [n for n in ast.walk(cb.node) if isinstance(n, ast.Call) and isinstance(n.func, ast.Attribute) and n.func.attr == '__hashbytearray__']
    rep.check(len(calls) == 1, 'C05.4', 'SignatureV4.canonical_bytes', '__hashbytearray__ calls %d' % len(calls),
              'an attested signature is hashed with its hashed area as received', where=cb.where)
    # the hashed term of every scenario was already matched against the template under C01/C02; here one scenario pins HASHED
    sigdata.check_hashdata(rep, prog, 'C05.4', only_types={'BinaryDocument'})

    # ---- C05.5 header octets
    sv4 = prog.cls('pgpy.packet.packets', 'SignatureV4')
    for prop, attr, enum in (('sigtype', '_sigtype', 'SignatureType'), ('pubalg', '_pubalg', 'PubKeyAlgorithm'), ('halg', '_halg', 'HashAlgorithm')):
        p = sv4.props.get(prop)
        if p is None or 'int' not in p.setters or p.getter is None:
            raise AnalysisError('SignatureV4.%s sdproperty vanished' % prop)
        st = p.setters['int']
        rep.saw(fn=st)
        vals = set()
        for s in Interp(prog, Scenario(inline=noinline)).run(st):
            for pth, v, l, _ in s.stores:
                if pth == 'self.%s' % attr:
                    vals.add(v)
        allowed = {'%s(val)' % enum, 'val'}
        rep.check(bool(vals) and vals <= allowed and '%s(val)' % enum in vals, 'C05.5', 'SignatureV4.%s_int' % prop, '%s <- %s' % (attr, sorted(vals)),
                  'the received %s octet must be stored unchanged (enum lookup or raw value), never mapped to another value' % prop,
                  where=st.where, expected='self.%s = %s(val)' % (attr, enum), found=sorted(vals))
        for s in Interp(prog, Scenario(inline=noinline)).run(p.getter):
            rep.check(render(s.ret) == 'self.%s' % attr, 'C05.5', 'SignatureV4.%s' % prop, 'getter returns %s' % render(s.ret),
                      'the value hashed must be the stored one', where=p.getter.where)
    # PGPSignature properties read those
    for name, exp in (('type', 'self._signature.sigtype'), ('key_algorithm', 'self._signature.pubalg'), ('hash_algorithm', 'self._signature.halg')):
        g = prog.method('pgpy.pgp', 'PGPSignature', name)
        for s in Interp(prog, Scenario(inline=noinline)).run(g):
            rep.check(render(s.ret) == exp, 'C05.5', 'PGPSignature.%s' % name, 'returns %s' % render(s.ret),
                      'the trailer octet must come from the parsed packet field', where=g.where, expected=exp, found=render(s.ret))
    # SignatureV4.parse feeds the three octets in order
    sp = sv4.methods['parse']
    order = [ast.unparse(n.targets[0]) for n in sp.node.body if isinstance(n, ast.Assign)]
    rep.check(order[:3] == ['self.sigtype', 'self.pubalg', 'self.halg'], 'C05.5', 'SignatureV4.parse', 'field order %s' % order[:3],
              'type, public-key algorithm and hash algorithm are read in RFC 4880 5.2.3 order', where=sp.where)
