"""One module per property: rules/Cxx.py exposes run(rep, prog, tier)."""
