"""C07 - Public export never carries or exercises secret material.

  C07.1 PrivKeyV4.pubkey builds a public packet class from copies of public terms only (shared family)
  C07.2 PGPKey.pubkey: the twin's key packet comes from _key.pubkey(); everything attached is a subkey's public twin or a copy of
        a user id / signature; a key object accepts only children of its own kind; the twin returned reflects the current state
  C07.3 PGPKey.hashdata uses the public packet also for private keys (with C01.1b)
  C07.4 (public?, algorithm) -> class table: public entries are not private classes; private entries extend their public sibling
  C07.5 private operations carry is_public=False and the precondition check runs before the action
  C07.6 the export emits only the key packet, signatures, user id/attribute packets and subkeys; block label follows the class
  C07.7 what is attached to the public twin are faithful copies: complete (shared copy rules of C14.4 under this id), made through
        the class of the thing copied (a container copied through another class is framed differently), not re-encoded

Rules read interpreter values, path decisions as truth tables and finite scenarios (kind x algorithm for the key-material class,
one symbolic element per attaching loop); nothing compares source text, local names or statement shapes.
"""
import ast
import re

from sa.interp import expand_bound, Interp, Scenario, Sym, Const, Bytes, Obj, Enum, render
from sa.loader import AnalysisError, dotted
from sa import families, keyaction

noinline = lambda f: False  # noqa: E731


def run(rep, prog, tier):
    rep.rule('C07.1', 'PrivKeyV4.pubkey: public class, copies of public terms only', floor=20)
    rep.rule('C07.2', 'PGPKey.pubkey wiring; children of own kind only; twin reflects current state', floor=8)
    rep.rule('C07.3', 'PGPKey.hashdata hashes the public packet', floor=2)
    rep.rule('C07.4', 'key-material class table: public/private pairing per algorithm', floor=9)
    rep.rule('C07.5', 'private operations require is_public=False; check precedes the action', floor=8)
    rep.rule('C07.6', 'export emits only key, signature, user id and subkey packets; label by class', floor=3)
    rep.rule('C07.7', 'what is attached to the public twin are faithful copies: complete, same class, not re-encoded', floor=12)
    rep.assume('copy.copy of a PGPUID / PGPSignature copies public data only (they hold no key material)')

    families.check_pubkey_derivation(rep, prog, 'C07.1')
    check_key_pubkey(rep, prog)
    from sa import sigdata
    sigdata.check_subject_hashdata(rep, prog, 'C07.3')
    check_table(rep, prog)
    keyaction.check_private_ops(rep, prog, 'C07.5')
    keyaction.check_call_order(rep, prog, 'C07.5')
    check_export(rep, prog)
    check_copy_fidelity(rep, prog)


def _fresh_key_objects(s):
    """names bound on this path to a newly constructed PGPKey() (by what is constructed, not by what it is called)"""
    return [e[1] for e in s.events if e[0] == 'assign' and e[1] == e[2] and 'PGPKey' in e[4]]


def check_key_pubkey(rep, prog):
    ci = prog.cls('pgpy.pgp', 'PGPKey')
    pp = ci.plain_props.get('pubkey', {})
    g = pp.get('get')
    if g is None:
        raise AnalysisError('PGPKey.pubkey getter vanished')
    rep.saw(fn=g)
    me = g.params[0]
    sib = '%s._sibling' % me

    def twin_key_stores(s):
        return [(p[:-len('._key')], v) for p, v, l, _ in s.stores if p.endswith('._key') and p != '%s._key' % me]
    # (a) construction arm
    sc = Scenario(bind={'%s.is_public' % me: Const(False), sib: Const(None)}, inline=noinline)
    outs = Interp(prog, sc).run(g)
    built = False
    colls = {}            # collection a loop ranges over -> (expanded) value it attaches per element
    for s in outs:
        tk = twin_key_stores(s)
        if not tk:
            continue
        built = True
        names = sorted(set(n for n, v in tk))
        if len(names) != 1 or names[0] not in _fresh_key_objects(s):
            raise AnalysisError('PGPKey.pubkey: the object receiving the public packet (%s) is not a key object built here' % names)
        twin = names[0]
        k = [v for n, v in tk]
        rep.check(k == ['%s._key.pubkey()' % me], 'C07.2', 'PGPKey.pubkey', 'pub._key = %s' % k,
                  'the twin\'s key packet must be the public half derived from the private packet', where=g.where,
                  expected='%s._key.pubkey()' % me, found=k)
        # everything or-ed into the twin, in order; `cur` is the text of the twin after the attachments so far
        cur, attached = twin, []
        for e in s.events:
            if e[0] == 'ior' and e[1] == cur:
                attached.append(e[2])
                cur = '(%s | %s)' % (cur, e[2])
            elif e[0] == 'call' and e[1] == '%s.__or__' % cur and len(e[2]) == 1:
                attached.append(e[2][0])          # twin.__or__(x) (result dropped): the in-place attachment, the twin itself stays
        if not attached and render(s.env.get(twin, Sym(twin))) != twin:
            raise AnalysisError('PGPKey.pubkey: how the twin is filled is not understood (%s)' % render(s.env.get(twin))[:120])
        vals = sorted(set(expand_bound(s, v) for v in attached))
        for v in attached:
            for b in re.findall(r'\$[\d.]*\d', v):
                if b in s.bound:
                    colls[s.bound[b]] = (expand_bound(s, v), s.filters.get(b, '').replace(b, 'EV'))
        SUBKEY_TWINS = tuple(t.replace('%s', me) for t in (
            '%s.subkeys.items()[*]_1.pubkey', '%s.subkeys.values()[*].pubkey', '%s._children.items()[*]_1.pubkey', '%s._children.values()[*].pubkey',
            '%s.subkeys[%s.subkeys[*]].pubkey', '%s.subkeys[%s.subkeys.keys()[*]].pubkey', '%s._children[%s._children[*]].pubkey',
            '%s._children[%s._children.keys()[*]].pubkey', '%s.subkeys[%s.subkeys.items()[*]_0].pubkey'))
        vals = ['<subkey>.pubkey' if v in SUBKEY_TWINS else v for v in vals]
        allowed = {'<subkey>.pubkey', 'copy.copy(%s._uids[*])' % me, 'copy.copy(%s._signatures[*])' % me}
        rep.check(bool(vals) and set(vals) <= allowed, 'C07.2', 'PGPKey.pubkey', 'attached: %s' % vals,
                  'only public twins of subkeys and copies of user ids / signatures may be attached to the public twin', where=g.where,
                  expected=sorted(allowed), found=vals)
        rep.check(set(vals) == allowed, 'C07.2', 'PGPKey.pubkey', 'attached kinds %s' % vals,
                  'the twin must carry the subkeys, identities and signatures of the private key', where=g.where, expected=sorted(allowed), found=vals)
        r = render(s.ret)
        linked = [v for p, v, l, _ in s.stores if p == sib]
        ok = r in (cur, 'weakref.ref(%s)()' % cur) or (r == '%s()' % sib and linked[-1:] == ['weakref.ref(%s)' % cur])
        rep.check(ok, 'C07.2', 'PGPKey.pubkey', 'returns %s' % (r if len(r) < 60 else r[:57] + '...'),
                  'the object returned must be the twin that was just built', where=g.where, found=r)
    if not built:
        rep.violation('C07.2', 'PGPKey.pubkey', 'no construction arm', 'a private key with no twin yet does not build one', where=g.where)
    _check_attach_conditions(rep, prog, g, me, sib, colls, twin_key_stores)
    # public keys return themselves
    for s in Interp(prog, Scenario(bind={'%s.is_public' % me: Const(True)}, inline=noinline)).run(g):
        rep.check(render(s.ret) == me, 'C07.2', 'PGPKey.pubkey', 'public key returns %s' % render(s.ret), 'a public key is its own public twin',
                  where=g.where)
    # (b) is the rebuild unconditional when a twin already exists?  (_sibling is None or a weakref.ref - class invariant from __init__/pubkey)
    sc = Scenario(bind={'%s.is_public' % me: Const(False), sib: Sym(sib, types={'ref'}, nonnull=True)}, inline=noinline)
    outs = Interp(prog, sc).run(g)
    stale_paths = [s for s in outs if s.raised is None and not twin_key_stores(s)]
    if stale_paths:
        # a live twin may be returned without rebuilding: then every mutation of the certificate state must go through __or__ (which mirrors)
        bypass = _state_changes_outside_or(ci)
        rep.check(not bypass, 'C07.2', 'PGPKey.pubkey', 'cached twin returned while state changes bypass __or__: %s' % bypass,
                  'an existing public twin is returned without being rebuilt, yet %d operations change the key without mirroring '
                  'them to the twin: the twin can lack later subkeys / keep removed identities' % len(bypass), where=g.where,
                  expected='rebuild on every access, or mirror every mutation', found=bypass)
    else:
        rep.ok('C07.2', 'PGPKey.pubkey', 'the twin is rebuilt on every access of a private key')
    check_or(rep, prog, ci)


def _check_attach_conditions(rep, prog, g, me, sib, colls, twin_key_stores):
    """Every subkey and every identity is attached unconditionally; a key-level signature exactly when it has no parent (the ones
    that belong to an identity travel with it).  Decisions inside a summarised loop are not kept by the interpreter, so each
    loop is run once for a single symbolic element and the truth table of its decisions is read."""
    from sa.keyaction import assignments, consistent, _show
    from sa.interp import ListV
    for coll, (what, filt) in sorted(colls.items()):
        is_sig = what.endswith('._signatures[*])') and 'copy.copy(' in what
        kind = 'signature' if is_sig else ('identity' if '_uids' in what else 'subkey')
        if filt:
            # the iteration itself is filtered (for x in (y for y in C if f)): the filter is the attach condition
            f = filt.strip()
            while f.startswith('(') and f.endswith(')'):
                f = f[1:-1].strip()
            ok = is_sig and f in ('EV._parent is None', 'None is EV._parent', 'not EV.embedded', 'EV._parent == None')
            rep.check(ok, 'C07.2', 'PGPKey.pubkey', 'every %s of %s is carried over (filter %s)' % (kind, coll, f),
                      'the twin must carry the subkeys, identities and signatures of the private key (key-level signatures: exactly those without a parent)',
                      where=g.where, expected='no filter' if not is_sig else 'only signatures without a parent', found=f)
            continue
        pair = coll.endswith('.items()')
        elem = ListV([Sym('EK', nonnull=True), Sym('EV', nonnull=True)], 'tuple') if pair else Sym('EV', nonnull=True)
        sc = Scenario(bind={'%s.is_public' % me: Const(False), sib: Const(None)}, unroll={coll: [elem]}, inline=noinline)
        outs = [s for s in Interp(prog, sc).run(g) if s.raised is None and twin_key_stores(s)]
        if not outs:
            raise AnalysisError('PGPKey.pubkey: construction path lost when %s is a single element' % coll)
        bad = None
        for assign in assignments(outs):
            for s in [x for x in outs if consistent(x, assign)]:
                att = any((e[0] == 'ior' and re.search(r'\bE[KV]\b', e[2])) or
                          (e[0] == 'call' and e[1].endswith('.__or__') and any(re.search(r'\bE[KV]\b', a) for a in e[2])) for e in s.events)
                if is_sig:
                    orphan = assign.get(('eq', frozenset(('EV._parent', 'None'))))
                    emb = assign.get(('expr', 'EV.embedded'))
                    want = orphan if orphan is not None else (None if emb is None else not emb)
                    if want is None or att != want:
                        bad = bad or (assign, att)
                elif not att:
                    bad = bad or (assign, att)
        rep.check(bad is None, 'C07.2', 'PGPKey.pubkey', 'every %s of %s is carried over' % (kind, coll),
                  'the twin must carry the subkeys, identities and signatures of the private key' if not is_sig else
                  'the twin must carry the subkeys, identities and signatures of the private key (key-level signatures: exactly those without a parent)',
                  where=g.where, expected='attached unconditionally' if not is_sig else 'attached iff the signature has no parent',
                  found=None if bad is None else 'under [%s] the %s is %s' % (_show(bad[0]), kind, 'attached' if bad[1] else 'left out'))


STATE = ('_children', '_uids', '_signatures')


def _state_changes_outside_or(ci):
    """Methods of PGPKey (other than __or__ and the constructors) that add to / remove from the certificate state directly."""
    bypass = []
    for name, defs in ci.all_defs.items():
        if name in ('__or__', '__init__', '__copy__', 'parse'):
            continue
        for f in defs:
            if not f.params:
                continue
            me = f.params[0]
            names = {}                       # local aliases of the state collections
            for n in ast.walk(f.node):
                if isinstance(n, ast.Assign) and len(n.targets) == 1 and isinstance(n.targets[0], ast.Name) and \
                        dotted(n.value) in ['%s.%s' % (me, a) for a in STATE]:
                    names[n.targets[0].id] = dotted(n.value)

            def coll(x):
                d = dotted(x)
                d = names.get(d, d)
                return d if d in ['%s.%s' % (me, a) for a in STATE] else None
            for n in ast.walk(f.node):
                t = None
                if isinstance(n, (ast.Assign, ast.AugAssign, ast.Delete)):
                    tgs = n.targets if not isinstance(n, ast.AugAssign) else [n.target]
                    for tg in tgs:
                        if isinstance(tg, ast.Subscript) and coll(tg.value):
                            t = ast.unparse(n)
                elif isinstance(n, ast.Call) and isinstance(n.func, ast.Attribute) and \
                        n.func.attr in ('remove', 'insort', 'append', 'appendleft', 'pop', 'popleft', 'clear', 'extend', 'update', 'setdefault', 'insert') and \
                        coll(n.func.value):
                    t = ast.unparse(n)
                if t:
                    bypass.append('%s: %s' % (f.qualname, t))
    return bypass


def check_add_uid(rep, prog, ci):
    """A new identity is attached through the key's own `|` (which hands a copy to a live public sibling), not filed directly."""
    f = ci.methods.get('add_uid')
    if f is None or len(f.params) < 2:
        raise AnalysisError('PGPKey.add_uid vanished')
    me, uid = f.params[0], f.params[1]
    outs = [s for s in Interp(prog, Scenario(inline=noinline)).run(f) if s.raised is None]
    if not outs:
        raise AnalysisError('PGPKey.add_uid never returns')
    for s in outs:
        via_or = any(e[0] == 'ior' and e[1] == me and (e[2] == uid or e[2].startswith('(%s | ' % uid)) for e in s.events) or \
            any(c[0] == '%s.__or__' % me and c[1][:1] and (c[1][0] == uid or c[1][0].startswith('(%s | ' % uid)) for c in s.calls)
        direct = [c[0] for c in s.calls if c[0].startswith('%s._uids.' % me) and c[0].split('.')[-1] in ('insort', 'append', 'appendleft', 'insert', 'extend')]
        rep.check(via_or and not direct, 'C07.2', 'PGPKey.add_uid', 'identity attached %s' % ('through |' if via_or else 'directly: %s' % direct),
                  'a new identity must reach a public twin derived earlier: add_uid attaches it with the key\'s own | (which mirrors to the live sibling)',
                  where=f.where, expected='%s |= %s' % (me, uid), found=direct or None)


def check_or(rep, prog, ci):
    """(c) a key accepts only children of its own kind, unconditionally: on every path of __or__ that files `other` under the
    subkeys, the decisions taken imply  isinstance(other, PGPKey), not other.is_primary, other.is_public == self.is_public."""
    from sa.keyaction import assignments, consistent, _show
    orf = ci.methods.get('__or__')
    if orf is None or len(orf.params) < 2:
        raise AnalysisError('PGPKey.__or__ vanished')
    me, other = orf.params[0], orf.params[1]
    outs = Interp(prog, Scenario(inline=noinline)).run(orf)
    attach = [s for s in outs if any(p.startswith('%s._children[' % me) and v == other for p, v, l, _ in s.stores)]
    if not attach:
        raise AnalysisError('PGPKey.__or__: subkey attachment arm not found')
    is_key = ('call', 'isinstance', (other, 'PGPKey'))
    primary = ('expr', '%s.is_primary' % other)
    same = ('eq', frozenset(('%s.is_public' % other, '%s.is_public' % me)))
    bad = None
    for assign in assignments(attach):
        if not any(consistent(s, assign) for s in attach):
            continue
        if assign.get(is_key) is not True or assign.get(primary) is not False or assign.get(same) is not True:
            bad = assign
            break
    line = min(l for s in attach for p, v, l, _ in s.stores if p.startswith('%s._children[' % me))
    rep.check(bad is None, 'C07.2', 'PGPKey.__or__', 'subkey arm%s' % ('' if bad is None else ': taken under [%s]' % _show(bad)),
              'a key object must only ever accept subkeys of its own kind (public into public, private into private), '
              'also when the addition is mirrored from its sibling', where='%s:%d' % (orf.module.relpath, line),
              expected='isinstance(other, PGPKey) and not other.is_primary and other.is_public == self.is_public',
              found=None if bad is None else _show(bad))
    # (d) whatever __or__ files into the key is handed on to a live public sibling: a path that files `other` and does not
    # establish that there is no live sibling / that the call came from the sibling must make the mirror call
    from rules.C16 import path_relations
    sibref = ('call', 'isinstance', ('%s._sibling' % me, 'weakref.ref'))
    fromsib = ('expr', orf.params[2]) if len(orf.params) > 2 else None
    dead = ('eq', frozenset(('%s._sibling()' % me, 'None')))
    filed_paths = 0
    for s in outs:
        if s.raised is not None:
            continue
        filed = [p for p, v, l, _ in s.stores if v == other and (p.startswith('%s._children[' % me) or p == '%s._key' % me)] + \
                [c[0] for c in s.calls if c[0] in ('%s._signatures.insort' % me, '%s._uids.insort' % me) and c[1][:1] == [other]]
        if not filed:
            continue
        filed_paths += 1
        rel = path_relations(s)
        # is there any way to be on this path WITH a live sibling and a call that did not come from it?
        live_possible = False
        for assign in assignments([s]):
            if assign.get(sibref, True) is True and (fromsib is None or assign.get(fromsib, False) is False) and assign.get(dead, False) is False and \
                    not any(k[0] == 'eq' and '%s._sibling' % me in k[1] and 'None' in k[1] and v is True for k, v in assign.items()) and \
                    consistent(s, assign):
                live_possible = True
                break
        no_live = not live_possible
        mirrored = any(c[0].endswith('.__or__') and c[1][:1] == ['copy.copy(%s)' % other] for c in s.calls)
        rep.check(no_live or mirrored, 'C07.2', 'PGPKey.__or__', 'filed %s under [%s]: %s' % (
            filed[0], ', '.join('%s=%s' % (str(k)[:50], v) for k, v in list(rel.items())[-3:]), 'handed to the sibling' if mirrored else 'no live sibling' if no_live else 'NOT handed on'),
                  'everything added to a private key must reach a public twin derived earlier (the live sibling): a path that files the '
                  'operand returns without handing a copy to the sibling', where='%s:%d' % (orf.module.relpath, orf.node.lineno),
                  expected='sib.__or__(copy.copy(other), True) on every filing path with a live sibling', found=filed)
    if not filed_paths:
        raise AnalysisError('PGPKey.__or__: no path files its operand')
    check_add_uid(rep, prog, ci)
    # the mirror passes a copy and marks it so that it is not mirrored back
    seen = []
    flag = orf.params[2] if len(orf.params) > 2 else None
    for s in outs:
        for c in s.calls:
            if c[0].endswith('.__or__') and (c[0], c[3]) not in seen:
                seen.append((c[0], c[3]))
                a = list(c[1]) + ([c[2][flag]] if flag in c[2] else [])
                rep.check(a == ['copy.copy(%s)' % other, 'True'], 'C07.2', 'PGPKey.__or__', 'mirror call %s' % a,
                          'the sibling receives a copy, marked as coming from the sibling', where='%s:%d' % (orf.module.relpath, c[3]))


def selected_material(prog, f, public, alg):
    """Class of the key material PubKeyV4.pkalg_int installs in a packet of the given kind for the given algorithm: the setter
    is interpreted with the kind and the algorithm as scenario facts, table lookups with constant keys are decided by the
    interpreter - whatever holds the table (a dict in the function, a class / module constant, two tables, an if-chain)."""
    me = f.params[0]
    bind = {'%s.public' % me: Const(public), '%s.pkalg' % me: alg, '%s._pkalg' % me: alg}
    args = {p: alg for p in f.params[1:]}
    out = set()
    for s in Interp(prog, Scenario(bind=bind, args=args, inline=noinline, extended=True)).run(f):
        if s.raised is not None:
            continue
        vals = [v for p, t, l, v in s.stores if p == '%s.keymaterial' % me]
        if not vals:
            raise AnalysisError('PubKeyV4.pkalg_int: a path stores no key material')
        v = vals[-1]
        if not isinstance(v, Obj) or v.cls is None:
            raise AnalysisError('PubKeyV4.pkalg_int: key material for (%s, %s) is not a decided class: %s' % (public, render(alg), render(v)[-80:]))
        out.add(v.cls)
    if len(out) != 1:
        raise AnalysisError('PubKeyV4.pkalg_int: %d candidate classes for (%s, %s)' % (len(out), public, render(alg)))
    return out.pop()


def check_table(rep, prog):
    ci = prog.cls('pgpy.packet.packets', 'PubKeyV4')
    f = ci.methods.get('pkalg_int')
    if f is None:
        raise AnalysisError('PubKeyV4.pkalg_int vanished')
    fields = prog.module('pgpy.packet.fields')
    privbase = fields.classes.get('PrivKey')
    if privbase is None:
        raise AnalysisError('fields.PrivKey vanished')
    members = prog.cls('pgpy.constants', 'PubKeyAlgorithm').enum_members()
    if len(members) < 9:
        raise AnalysisError('PubKeyAlgorithm has only %d members' % len(members))
    opaque = lambda c: c.name.startswith('Opaque')  # noqa: E731
    n_real = 0
    for a, val in sorted(members.items(), key=lambda kv: kv[1]):
        alg = Const(Enum('PubKeyAlgorithm', a, val))
        pub = selected_material(prog, f, True, alg)
        priv = selected_material(prog, f, False, alg)
        if opaque(pub) and opaque(priv):
            # not implemented: opaque material of the packet's own kind
            ok = privbase not in pub.mro() and privbase in priv.mro()
            rep.check(ok, 'C07.4', 'PubKeyV4.pkalg_int', 'fallback %s: public=%s private=%s' % (a, pub.name, priv.name),
                      'unknown algorithms get opaque material of the packet\'s own kind', where=f.where,
                      expected='OpaquePubKey / OpaquePrivKey', found=[pub.name, priv.name], scenario=a)
            continue
        n_real += 1
        if opaque(pub) or opaque(priv):
            rep.violation('C07.4', 'PubKeyV4.pkalg_int', 'row %s: %s / %s' % (a, pub.name, priv.name),
                          'algorithm %s lacks a public or a private key-material class' % a, where=f.where, scenario=a)
            continue
        ok = privbase not in pub.mro() and privbase in priv.mro() and pub in priv.mro()
        rep.check(ok, 'C07.4', 'PubKeyV4.pkalg_int', '%s: public=%s private=%s' % (a, pub.name, priv.name),
                  'a public key packet must be given public-only key material, and the private class must extend exactly that public class',
                  where=f.where, expected='public class not a PrivKey; private class a PrivKey subclass of the public one',
                  found='public %s (mro %s), private %s' % (pub.name, [c.name for c in pub.mro()][:4], priv.name), scenario=a)
        rep.check(not pub.find_attr('__privfields__') or ast.literal_eval(pub.find_attr('__privfields__')) == (), 'C07.4', pub.name,
                  '%s has no private fields' % pub.name, 'public key material declares no secret fields', where=pub.where, scenario=a)
    rep.check(n_real >= 9, 'C07.4', 'PubKeyV4.pkalg_int', '%d algorithms with their own key-material classes' % n_real,
              'the implemented algorithms keep their public / private key-material classes', where=f.where, expected='at least 9', found=n_real)
    pub = prog.method('pgpy.packet.packets', 'PubKeyV4', 'public')
    _public_predicate(rep, prog, pub, 'PubKeyV4.public', 'self', 'PubKey', 'PrivKey', 'C07.4')
    # packet class hierarchy: secret packet classes carry the Private marker, public ones do not
    pk = prog.module('pgpy.packet.packets')
    for name, private in (('PubKeyV4', False), ('PubSubKeyV4', False), ('PrivKeyV4', True), ('PrivSubKeyV4', True)):
        c = pk.classes.get(name)
        if c is None:
            raise AnalysisError('packet class %s vanished' % name)
        has = any(x.name == 'Private' for x in c.mro())
        rep.check(has == private, 'C07.4', name, 'Private marker %s' % has, 'secret-key packet classes, and only they, are marked Private', where=c.where)


def check_export(rep, prog):
    f = prog.method('pgpy.pgp', 'PGPKey', '__bytearray__')
    rep.saw(fn=f)
    for s in Interp(prog, Scenario(inline=noinline)).run(f):
        its = s.ret.items if isinstance(s.ret, Bytes) else []
        from rules import C14
        its = C14.expand_generated(prog, f, s, its)       # an export loop over a generator of the program: the sequence it yields
        flat = []

        def walk(items):
            for it in items:
                if it[0] == 'EACH':
                    walk(it[3])
                elif it[0] == 'ALT':
                    for a in it[1]:
                        walk(a)
                else:
                    flat.append(it)
        walk(its)
        srcs = sorted(set(expand_bound(s, it[1]) for it in flat if it[0] == 'SYM'))
        if not isinstance(s.ret, Bytes) or any(it[0] != 'SYM' for it in flat) or \
                any(not re.match(r'^[\w.$\[\]*()]+\.__bytearray__\(\)$', x) for x in srcs) or \
                any('(' in re.sub(r'\.(values|items|keys)\(\)', '', x[:-len('.__bytearray__()')]) for x in srcs):      # elements of an opaque call
            raise AnalysisError('PGPKey.__bytearray__: export not understood as a sequence of serialised packets: %s' % render(s.ret)[:160])
        allowed = {t.replace('self', f.params[0], 1) for t in (
            'self._key.__bytearray__()', 'self._signatures[*].__bytearray__()', 'self._uids[*]._uid.__bytearray__()',
            'self._uids[*]._signatures[*].__bytearray__()', 'self._children.values()[*].__bytearray__()',
            'self.subkeys.values()[*].__bytearray__()')}
        rep.check(set(srcs) <= allowed and all(it[0] == 'SYM' for it in flat), 'C07.6', 'PGPKey.__bytearray__', 'emits %s' % srcs,
                  'a key export consists of the key packet, signatures, user id/attribute packets and subkeys only', where=f.where,
                  expected=sorted(allowed), found=srcs)
    m = prog.method('pgpy.pgp', 'PGPKey', 'magic')
    want = {(True, False): 'PUBLIC', (True, True): 'PRIVATE', (False, True): 'PRIVATE', (False, False): ''}
    for (a, b), label in want.items():
        def oracle(t, _a=a, _b=b):
            t = t.replace(' ', '')
            if t == 'isinstance(%s._key,Public)' % m.params[0]:
                return _a
            if t == 'isinstance(%s._key,Private)' % m.params[0]:
                return _b
            return None
        for s_ in Interp(prog, Scenario(inline=noinline, oracle=oracle, inline_props={'is_public'}, extended=True)).run(m):
            r = render(s_.ret)
            folded = fold_str(r)
            if folded is None:
                raise AnalysisError('PGPKey.magic: label %s is not a closed string expression' % r)
            rep.check(folded == ('%s KEY BLOCK' % label), 'C07.6', 'PGPKey.magic', 'Public=%s Private=%s -> %s' % (a, b, folded),
                      'the block is labelled PUBLIC exactly for public-only key packets and PRIVATE for secret ones', where=m.where,
                      expected='%s KEY BLOCK' % label, found=r, scenario='Public=%s, Private=%s' % (a, b))
    ip = prog.method('pgpy.pgp', 'PGPKey', 'is_public')
    _public_predicate(rep, prog, ip, 'PGPKey.is_public', 'self._key', 'Public', 'Private', 'C07.6')


def fold_str(text):
    """Value of a closed string expression (constants joined by +, %, str.format, str.join; nothing else), or None.
    Checker-side constant folding of the rendered return value: the label is compared as a string, not as source text."""
    try:
        tree = ast.parse(text, mode='eval').body
    except SyntaxError:
        return None

    def ev(n):
        if isinstance(n, ast.Constant) and isinstance(n.value, (str, int)):
            return n.value
        if isinstance(n, (ast.Tuple, ast.List)):
            xs = [ev(e) for e in n.elts]
            return None if any(x is None for x in xs) else tuple(xs)
        if isinstance(n, ast.BinOp) and isinstance(n.op, (ast.Add, ast.Mod)):
            l, r = ev(n.left), ev(n.right)
            if not isinstance(l, str) or r is None:
                return None
            try:
                return l + r if isinstance(n.op, ast.Add) else l % r
            except (TypeError, ValueError):
                return None
        if isinstance(n, ast.Call) and isinstance(n.func, ast.Attribute) and n.func.attr in ('format', 'join', 'strip', 'lstrip', 'upper'):
            base = ev(n.func.value)
            args = [ev(a) for a in n.args]
            kw = {k.arg: ev(k.value) for k in n.keywords}
            if not isinstance(base, str) or any(a is None for a in args) or None in kw or any(v is None for v in kw.values()):
                return None
            try:
                if n.func.attr == 'format':
                    return base.format(*args, **kw)
                if n.func.attr == 'join' and len(args) == 1 and isinstance(args[0], tuple):
                    return base.join(args[0])
                if n.func.attr in ('strip', 'lstrip', 'upper') and not args:
                    return getattr(base, n.func.attr)()
            except (TypeError, ValueError, IndexError, KeyError):
                return None
        return None
    v = ev(tree)
    return v if isinstance(v, str) else None


def _public_predicate(rep, prog, fn, construct, obj, pubname, privname, rid):
    """The predicate must be true exactly for (is-a public packet, not a secret packet).  The two isinstance atoms are scenario
    facts; the receiver is left untyped so that the class table cannot answer them, and a returned expression that still
    contains the atoms (`return isinstance(x, A)`) is evaluated under the same facts."""
    if obj.split('.')[0] == 'self':
        obj = fn.params[0] + obj[4:]
    atom_pub = 'isinstance(%s,%s)' % (obj, pubname)
    atom_priv = 'isinstance(%s,%s)' % (obj, privname)

    def evaluate(text, a, b):
        try:
            tree = ast.parse(text, mode='eval').body
        except SyntaxError:
            return None

        def ev(n):
            if isinstance(n, ast.Constant) and isinstance(n.value, bool):
                return n.value
            if isinstance(n, ast.UnaryOp) and isinstance(n.op, ast.Not):
                v = ev(n.operand)
                return None if v is None else not v
            if isinstance(n, ast.BoolOp):
                vs = [ev(x) for x in n.values]
                if any(v is None for v in vs):
                    return None
                return all(vs) if isinstance(n.op, ast.And) else any(vs)
            if isinstance(n, ast.IfExp):
                t = ev(n.test)
                return None if t is None else ev(n.body if t else n.orelse)
            if isinstance(n, ast.Call) and dotted(n.func) in ('all', 'any') and len(n.args) == 1 and isinstance(n.args[0], (ast.Tuple, ast.List)):
                vs = [ev(x) for x in n.args[0].elts]
                if any(v is None for v in vs):
                    return None
                return all(vs) if dotted(n.func) == 'all' else any(vs)
            if isinstance(n, ast.Call):
                t = ast.unparse(n).replace(' ', '')
                if t == atom_pub:
                    return a
                if t == atom_priv:
                    return b
                if t.startswith('bool(') and len(n.args) == 1:
                    return ev(n.args[0])
            return None
        return ev(tree)
    for a in (True, False):
        for b in (True, False):
            def oracle(t, _a=a, _b=b):
                t = t.replace(' ', '')
                if t == atom_pub:
                    return _a
                if t == atom_priv:
                    return _b
                return None
            me = Sym(fn.params[0], nonnull=True)
            outs = Interp(prog, Scenario(inline=noinline, oracle=oracle)).run(fn, self_val=me)
            vals = set()
            for s in outs:
                r = render(s.ret)
                v = evaluate(r, a, b)
                vals.add(repr(v) if v is not None else r)
            want = repr(a and not b)
            rep.check(vals == {want}, rid, construct, '%s=%s %s=%s -> %s' % (pubname, a, privname, b, sorted(vals)),
                      'an object is public iff it is a public-key object and not a secret-key object', where=fn.where, expected=want,
                      found=sorted(vals), scenario='%s=%s, %s=%s' % (pubname, a, privname, b))


# ------------------------------------------------------------------------------------------------ C07.7
class _Renamed(object):
    """A reporter that files everything a shared rule family reports under this property's rule id."""
    def __init__(self, rep, mapping):
        self._rep, self._map = rep, mapping

    def _rid(self, rid):
        return self._map.get(rid, rid)

    def check(self, cond, rid, *a, **kw):
        return self._rep.check(cond, self._rid(rid), *a, **kw)

    def ok(self, rid, *a, **kw):
        return self._rep.ok(self._rid(rid), *a, **kw)

    def violation(self, rid, *a, **kw):
        return self._rep.violation(self._rid(rid), *a, **kw)

    def error(self, rid, *a, **kw):
        return self._rep.error(self._rid(rid), *a, **kw)

    def __getattr__(self, name):
        return getattr(self._rep, name)


PACKETS_COPIED = ('PubKeyV4', 'PrivKeyV4', 'PubSubKeyV4', 'PrivSubKeyV4', 'UserID', 'UserAttribute', 'SignatureV4')


def field_classes(prog, ci):
    """attribute -> class of the object a fresh instance of ci holds there (read from the constructors, base classes included)"""
    ini = ci.find_method('__init__')
    if ini is None:
        return {}
    out = {}
    sc = Scenario(inline=lambda f: f.name == '__init__', self_cls=ci, max_depth=5)
    for s in Interp(prog, sc).run(ini):
        for pth, t, l, v in s.stores:
            m = re.match(r'^%s\.(\w+)$' % re.escape(ini.params[0]), pth)
            if m and isinstance(v, Obj) and v.cls is not None:
                out[m.group(1)] = v.cls
    return out


def _with_evaluated_table(prog, call):
    """Run a shared rule that enumerates the key-material classes through sa.tables.keymaterial_table (which reads ONE dict
    literal inside pkalg_int) with the table this module evaluates per (kind, algorithm) scenario instead - so that the shared
    rule sees the same classes when the table is a class constant, two tables, an if-chain ..."""
    from sa import tables
    ci = prog.cls('pgpy.packet.packets', 'PubKeyV4')
    f = ci.methods.get('pkalg_int')
    if f is None:
        raise AnalysisError('PubKeyV4.pkalg_int vanished')
    tbl = {}
    for a, val in prog.cls('pgpy.constants', 'PubKeyAlgorithm').enum_members().items():
        for public in (True, False):
            c = selected_material(prog, f, public, Const(Enum('PubKeyAlgorithm', a, val)))
            if not c.name.startswith('Opaque'):
                tbl[(public, a)] = c.name
    orig = tables.keymaterial_table
    tables.keymaterial_table = lambda _prog: (f, tbl)
    try:
        return call()
    finally:
        tables.keymaterial_table = orig


def check_copy_fidelity(rep, prog):
    """The public twin is assembled from copy.copy(uid) / copy.copy(sig) / packet copies.  (1) those copies are complete and keep
    the received octets (the shared copy rules of C14.4, filed here under C07.7: a copy that re-encodes or drops a field changes
    what the public export says); (2) every copy is made through the class of the thing copied: a __copy__ constructs the
    receiver's own class, and a field copied with copy.copy() whose class has a __copy__ gets an object of that same class."""
    from rules import C14
    C14.copies(_Renamed(rep, {'C14.4': 'C07.7'}), prog)
    # (3) the key material copied into the public packet (and every field object it holds, e.g. EC points) carries each attribute
    # its serialiser reads - a width recomputed from the value changes the octets, hence the fingerprint of the public twin
    _with_evaluated_table(prog, lambda: families.check_copy_carries_serialised(rep, prog, 'C07.7'))
    pk = prog.module('pgpy.packet.packets')
    seen = set()

    def own_class(ci, via, depth=0):
        """does copying an instance of ci give an instance of ci?  (recursively for the fields it copies with copy.copy)"""
        if (ci.key, via) in seen or depth > 3:
            return
        seen.add((ci.key, via))
        cpm = ci.find_method('__copy__')
        if cpm is None:
            rep.ok('C07.7', '%s.__copy__' % ci.name, 'generic copy (same class, fields shared)')
            return
        me = cpm.params[0]
        fields = None
        for s in Interp(prog, Scenario(inline=noinline, self_cls=ci)).run(cpm):
            if s.raised is not None or s.ret is None:
                continue
            r = render(s.ret)
            made = s.ret.cls if isinstance(s.ret, Obj) else None
            fresh = [e[2] for e in s.events if e[0] == 'assign' and e[1] == r]
            same = made is ci or (made is None and any(t in ('%s.__class__()' % me, 'type(%s)()' % me) for t in fresh + [r]))
            if made is None and not same and not fresh:
                raise AnalysisError('%s.__copy__: cannot tell what it returns (%s)' % (ci.name, r))
            rep.check(same, 'C07.7', '%s.__copy__' % ci.name, '%s copied as %s%s' % (ci.name, made.name if made is not None else (fresh or [r])[0], via),
                      'a copy must be an object of the class of the thing copied (a container copied through another class is serialised '
                      'with the other class\'s framing)', where=cpm.where, expected='%s (self.__class__())' % ci.name,
                      found=made.name if made is not None else (fresh or [r])[0])
            for pth, t, l, v in s.stores:
                m = re.match(r'^copy\.(?:copy|deepcopy)\(%s\.(\w+)\)$' % re.escape(me), t)
                if m and pth.startswith(r + '.'):
                    if fields is None:
                        fields = field_classes(prog, ci)
                    fc = fields.get(m.group(1)) or fields.get(m.group(1).lstrip('_')) or fields.get('_' + m.group(1))
                    if fc is not None and fc.find_method('__copy__') is not None:
                        own_class(fc, ' (field %s of %s)' % (m.group(1), ci.name), depth + 1)
    for name in PACKETS_COPIED:
        c = pk.classes.get(name)
        if c is None:
            raise AnalysisError('packet class %s vanished' % name)
        own_class(c, '')
