"""C12 - String-to-key derivation has the structure RFC 4880 3.7.1 defines (partial: structure, not digest equality).

  C12.1 per specifier, the value derive_key returns is
           SLICE( EACH(i in range(CTX); HASH(halg; REP(00; i) STREAM)) ;; key_size // 8 )
        with STREAM = first COUNT octets of the repetition of UNIT, UNIT = salt||passphrase (salt only for salted forms, salt first),
        COUNT = self.count on the arm `self.count > len(UNIT)` of the iterated form and len(UNIT) otherwise (>= one full copy)
  C12.2 CTX = ceil(key_size / (digest_size * 8))
  C12.3 coded count formula (16 + (c & 15)) << ((c >> 4) + 6) and 0..255 setter bounds (shared with C09.4)
  C12.4 parse / __bytearray__ agree on which fields each specifier carries
"""
import ast
import re

from sa.interp import Interp, Scenario, Sym, Const, Bytes, render, render_items, merge_consts, render_item
from sa import families
from sa.loader import AnalysisError, dotted
from sa.sigdata import enum_const
from sa import s2kshape, guards, vocab


def strip(t):
    return t.replace(' ', '')


def run(rep, prog, tier):
    rep.rule('C12.1', 'derive_key: contexts preloaded with i zero octets over the salt||passphrase stream of COUNT octets, joined in order, truncated', floor=8)
    rep.rule('C12.2', 'number of contexts = ceil(key bits / digest bits)', floor=1)
    rep.rule('C12.3', 'coded count decode formula and setter bounds', floor=3)
    rep.rule('C12.4', 'S2K parse and __bytearray__ carry the same fields per specifier', floor=4)
    rep.assume('hashlib hashers are sequential: h.update(a); h.update(b) == h.update(a + b)')

    check_derive_key(rep, prog)
    families.check_algorithm_ids(rep, prog, 'C12.2')
    s2kshape.check_digest_sizes(rep, prog, 'C12.2')
    # C12.3
    s2kshape.check_count(rep, prog, 'C12.3')
    # C12.4
    s2kshape.check_s2k_codec(rep, prog, 'C12.4')


R1, R2 = 'C12.1', 'C12.2'


def inline_new(f):
    """Interpreter inlining policy: helpers that are not part of the reference vocabulary are new code introduced by an edit
    and are followed (the canonicaliser already inlines them wherever a statement can be hoisted; this covers the rest)."""
    return f.name not in vocab.FUNCTIONS


_ENC = r"(?:\.encode\((?:(?:encoding=)?'(?:utf-8|utf8|UTF-8|UTF8|utf_8)')?\)|\.encode\((?:encoding=)?'(?:utf-8|utf8|UTF-8|UTF8|utf_8)', (?:errors=)?'strict'\))"


def norm_pass(text, pname):
    """Spellings of "the UTF-8 octets of the str passphrase" -> passphrase.encode('utf-8')."""
    text = re.sub(r'(?<![\w.])%s%s' % (re.escape(pname), _ENC), "%s.encode('utf-8')" % pname, text)
    text = re.sub(r"(?<![\w.])(?:bytes|bytearray)\(%s, (?:encoding=)?'(?:utf-8|utf8|UTF-8|UTF8|utf_8)'\)" % re.escape(pname),
                  "%s.encode('utf-8')" % pname, text)
    return text


# sample worlds for the by-value comparisons: (octet lengths of the unit's parts, decoded count)
COUNTS = (1, 5, 13, 19, 20, 26, 27, 40, 1024, 1025, 65536, 65011712)
SALT_LENS = (8,)
PASS_LENS = (1, 5, 11, 12, 19, 32, 1500, 65536)


def derive_key_call_sites(prog, fi):
    """Call sites `<recv>.derive_key(...)` that fit String2Key.derive_key and pass more than the passphrase:
    [(caller FunctionInfo, ast.Call, {parameter: argument expression})]."""
    a = fi.node.args
    pos = fi.params[1:]
    kwonly = [x.arg for x in a.kwonlyargs]
    out = []
    for f in prog.all_functions():
        for n in ast.walk(f.node):
            if not (isinstance(n, ast.Call) and isinstance(n.func, ast.Attribute) and n.func.attr == fi.name):
                continue
            if any(isinstance(x, ast.Starred) for x in n.args) or any(k.arg is None for k in n.keywords):
                continue
            if len(n.args) > len(pos) or any(k.arg not in pos + kwonly for k in n.keywords):
                continue        # another derive_key (ECKDF): does not fit this signature
            given = dict(zip(pos, n.args))
            given.update({k.arg: k.value for k in n.keywords})
            extra = {k: v for k, v in given.items() if k != pos[0]}
            if extra:
                out.append((f, n, extra))
    return out


def derive_key_bindings(prog, fi):
    """Values of the parameters of derive_key other than the passphrase (new parameters introduced by an edit), one binding per
    way the function is entered: the defaults, and each call site that passes them - the argument is read in the callee's terms
    (the call's receiver expression is the callee's `self`).  -> [(label, {parameter: Val})]; an argument that cannot be
    expressed over the callee's own state is an AnalysisError (exit 2), never a verdict."""
    a = fi.node.args
    me = fi.params[0]
    extras = fi.params[2:] + [x.arg for x in a.kwonlyargs]
    if not extras:
        return [('', {})]
    defaults = dict(zip(fi.params[len(fi.params) - len(a.defaults):], a.defaults)) if a.defaults else {}
    for x, d in zip(a.kwonlyargs, a.kw_defaults):
        if d is not None:
            defaults[x.arg] = d

    def val(e):
        try:
            return Const(ast.literal_eval(e))
        except Exception:
            return Sym(ast.unparse(e))
    out, seen = [], set()
    if all(p in defaults for p in extras):
        for p in extras:
            try:
                ast.literal_eval(defaults[p])
            except Exception:
                raise AnalysisError('String2Key.derive_key: default of %s is not a literal' % p)
        out.append((' [defaults]', {p: val(defaults[p]) for p in extras}))
        seen.add(tuple(sorted((p, ast.unparse(defaults[p])) for p in extras)))
    for f, call, given in derive_key_call_sites(prog, fi):
        recv = ast.dump(call.func.value)

        class ToCallee(ast.NodeTransformer):
            def visit(self, node):
                if isinstance(node, ast.expr) and ast.dump(node) == recv:
                    return ast.Name(id=me, ctx=ast.Load())
                return self.generic_visit(node)
        bind = {}
        for p in extras:
            if p in given:
                e = ToCallee().visit(ast.parse(ast.unparse(given[p]), mode='eval').body)
                free = {n.id for n in ast.walk(e) if isinstance(n, ast.Name)} - {me, 'None', 'True', 'False'}
                if free:
                    raise AnalysisError('String2Key.derive_key: call in %s passes %s=%s, which is not a function of the specifier itself '
                                        '(%s)' % (f.qualname, p, ast.unparse(given[p]), ', '.join(sorted(free))))
                bind[p] = (p, e)
            elif p in defaults:
                bind[p] = (p, defaults[p])
            else:
                raise AnalysisError('String2Key.derive_key: call in %s does not pass %s' % (f.qualname, p))
        key = tuple(sorted((p, ast.unparse(e)) for p, e in bind.values()))
        if key in seen:
            continue
        seen.add(key)
        out.append((' [as called from %s: %s]' % (f.qualname, ', '.join('%s=%s' % kv for kv in key)), {p: val(e) for p, e in bind.values()}))
    if not out:
        raise AnalysisError('String2Key.derive_key: parameters %s have neither defaults nor a resolvable call site' % extras)
    return out


def check_derive_key(rep, prog, r1='C12.1', r2='C12.2'):
    global R1, R2
    R1, R2 = r1, r2
    fi = prog.method('pgpy.packet.fields', 'String2Key', 'derive_key')
    rep.saw(fn=fi)
    me, pname = fi.params[0], fi.params[1]
    ci = fi.cls
    # a wrapper around derive_key decides what the caller gets: a memoising one returns the key of an earlier salt / count
    for d in fi.node.decorator_list:
        dn = (dotted(d.func if isinstance(d, ast.Call) else d) or ast.unparse(d))
        if re.search(r'cache|memo', dn.split('.')[-1], re.I):
            rep.violation(R1, 'String2Key.derive_key', 'memoised: @%s' % dn, 'derive_key is wrapped in a cache keyed on its arguments: after the salt, '
                          'count or hash of the specifier changes the key of the old parameters is returned', where=fi.where, found=ast.unparse(d))
        else:
            raise AnalysisError('String2Key.derive_key is decorated with @%s: the rule cannot see what the wrapper returns' % dn)
    for label, extra in derive_key_bindings(prog, fi):
      for spec, salted in (('Simple', False), ('Salted', True), ('Iterated', True)):
        for ptype in ('bytes', 'str'):
            args = {pname: Sym(pname, types={ptype}, nonnull=True)}
            args.update(extra)
            sc = Scenario(bind={'%s.specifier' % me: enum_const(prog, 'String2KeyType', spec)}, args=args, inline=inline_new)
            outs = Interp(prog, sc).run(fi)
            rep.analysed['paths'] += len(outs)
            PASS = pname if ptype == 'bytes' else "%s.encode('utf-8')" % pname
            SALT = '%s.salt' % me
            unit_items = ([('SYM', SALT)] if salted else []) + [('SYM', PASS)]
            scen = '%s x %s passphrase%s' % (spec, ptype, label)
            world = World(me, pname, SALT if salted else None, PASS, spec == 'Iterated', ci)
            rets = [s for s in outs if s.raised is None]
            if not rets:
                rep.violation(R1, 'String2Key.derive_key', '%s: no returning path' % scen, 'derive_key never returns a key for %s' % scen,
                              where=fi.where, scenario=scen)
            for s in rets:
                try:
                    arm = world.restrict(s.facts)
                except AnalysisError as ex:
                    rep.error(R1, '%s (%s)' % (ex, scen))       # this path is not decided; the others and the other rules still are
                    continue
                check_shape(rep, fi, s, scen + ('' if len(rets) == 1 else ' (%s)' % arm), world)


class World(object):
    """Sample valuations of the free quantities of derive_key (lengths of salt and passphrase octets, decoded count, key and
    digest sizes) under which the rule compares *values* of the index / length expressions the code uses, never their spelling."""
    def __init__(self, me, pname, salt, pas, iterated, ci):
        self.me, self.pname, self.salt, self.pas, self.iterated = me, pname, salt, pas, iterated
        self.unit = ' '.join(x for x in (salt, pas) if x)
        halg = ['%s.%s' % (me, n) for n in set(('halg', s2kshape._plain_getter_field(ci, me, 'halg') or 'halg'))]
        encalg = ['%s.%s' % (me, n) for n in set(('encalg', s2kshape._plain_getter_field(ci, me, 'encalg') or 'encalg'))]
        self.halg_texts = halg
        self.samples = []
        for sl_ in (SALT_LENS if salt else (0,)):
            for pl in PASS_LENS:
                for c in COUNTS:
                    env = {'__L__': sl_ + pl, '__lp__': pl, '__ls__': sl_}
                    for nm in ('count',):
                        env['%s.%s' % (me, nm)] = c
                    self.samples.append(env)
        self.sizes = []
        for k in (40, 64, 128, 192, 256):
            for d in (16, 20, 28, 32, 48, 64):
                env = {}
                for h in halg:
                    env['%s.digest_size' % h] = d
                for e in encalg:
                    env['%s.key_size' % e] = k
                self.sizes.append((k, d, env))
        self.live = list(self.samples)

    def subst(self, text):
        """Rendered value text -> parseable expression over the sample names."""
        t = norm_pass(text, self.pname)
        t = t.replace('len(%s)' % self.unit, '__L__')
        t = t.replace('len(%s)' % self.pas, '__lp__')
        if self.salt:
            t = t.replace('len(%s)' % self.salt, '__ls__')
        return t

    def value(self, text, env):
        return s2kshape.num_text(self.subst(text), env)

    def restrict(self, facts):
        """Keep the samples that agree with every decision of this path that is a comparison of known quantities."""
        live = []
        for env in self.samples:
            def atom(a, _env=env):
                if a[0] != 'cmp':
                    return None
                try:
                    l, r = self.value(a[2], _env), self.value(a[3], _env)
                except (s2kshape._NoFold, SyntaxError):
                    return None
                return {'==': l == r, '!=': l != r, '<': l < r, '<=': l <= r, '>': l > r, '>=': l >= r}.get(a[1])
            if all(guards.eval_skel(sk, atom) in (None, v) for (_t, v, sk) in facts if sk is not None):
                live.append(env)
        self.live = live
        if not live:
            raise AnalysisError('String2Key.derive_key: a path whose decisions no sample satisfies: %s' % [f[0] for f in facts])
        n_gt = sum(1 for e in live if e['%s.count' % self.me] > e['__L__'])
        return 'count arm' if n_gt == len(live) else ('floor arm' if n_gt == 0 else 'both arms')

    def sizes_for(self, facts):
        """The key / digest size samples that agree with every decision of the path that compares known size quantities."""
        live = []
        for k, d, env in self.sizes:
            def atom(a, _env=env):
                if a[0] != 'cmp':
                    return None
                try:
                    l, r = self.value(a[2], _env), self.value(a[3], _env)
                except (s2kshape._NoFold, SyntaxError):
                    return None
                return {'==': l == r, '!=': l != r, '<': l < r, '<=': l <= r, '>': l > r, '>=': l >= r}.get(a[1])
            if all(guards.eval_skel(sk, atom) in (None, v) for (_t, v, sk) in facts if sk is not None):
                live.append((k, d, env))
        return live

    def want_count(self, env):
        c, L = env['%s.count' % self.me], env['__L__']
        return max(c, L) if self.iterated else L


def check_shape(rep, fi, s, scen, world):
    c = 'String2Key.derive_key'
    ret = s.ret
    found = render(ret) if ret is not None else '<none>'
    UNIT = world.unit

    def bad(msg, exp=None):
        rep.violation(R1, c, '%s: %s' % (scen, msg), 'S2K structure differs from RFC 4880 3.7.1: %s' % msg, where=fi.where,
                      expected=exp, found=found, scenario=scen)
    if not isinstance(ret, Bytes):
        return bad('result is not a byte string')
    its = merge_consts(ret.items)
    if len(its) != 1 or its[0][0] != 'SLICE' or isinstance(its[0][1], str):
        return bad('result is not a truncation of the joined digests')
    sl = its[0]
    # truncation [:key_size // 8] by value
    ok_tr = sl[2] in ('', '0')
    try:
        for k, d, env in world.sizes:
            if world.value(sl[3], env) != k // 8:
                ok_tr = False
    except (s2kshape._NoFold, SyntaxError):
        ok_tr = False
    if not ok_tr:
        bad('truncation is [%s:%s], expected [:key_size // 8]' % (sl[2], sl[3]), '[:self.encalg.key_size // 8]')
    else:
        rep.ok(R1, c, 'truncated to key_size // 8', scenario=scen)
    inner = sl[1]
    single = False
    if len(inner) == 1 and inner[0][0] == 'HASH':
        # one digest, no loop: this is the loop's value exactly when one context is needed.  It is accepted on a path whose own
        # decisions (e.g. `ctx == 1`) admit only key / digest sizes with ceil(key bits / digest bits) == 1 - evaluated, not matched
        live = world.sizes_for(s.facts)
        single = bool(live) and len(live) < len(world.sizes) and all(-((-k) // (d * 8)) == 1 for k, d, _e in live)
    if single:
        rep.ok(R2, c, 'single context on a path that admits only sizes needing one context', scenario=scen)
        var, coll, body = None, None, inner
    elif len(inner) != 1 or inner[0][0] != 'EACH':
        return bad('digests are not produced by one loop over the contexts')
    else:
        each = inner[0]
        var, coll, body = each[1], each[2], each[3]
    if not single:
        ok_ctx = _check_ctx(rep, fi, scen, world, coll, bad)
    if len(body) != 1 or body[0][0] != 'HASH':
        return bad('loop body is not one digest per context (joined in context order)')
    h = body[0]
    rep.check(h[1] in world.halg_texts, R1, c, '%s: hash algorithm %s' % (scen, h[1]), 'contexts use the specifier\'s hash algorithm',
              where=fi.where, expected='self.halg', found=h[1], scenario=scen)
    hi = merge_consts(h[2])
    if single:
        hi = [('REP', [('C', b'\x00')], None)] + hi        # context 0 is preloaded with no octets
    return _check_stream(rep, fi, s, scen, world, var, hi, bad, found)


def _check_ctx(rep, fi, scen, world, coll, bad):
    c = 'String2Key.derive_key'
    # C12.2 context count: range(N) / range(0, N) with N == ceil(key bits / digest bits) by value
    ok_ctx = False
    mrev = re.match(r'^reversed\((.*)\)$', coll)
    if mrev:
        bad('the digests are joined in reverse context order', 'first context leftmost')
        coll = mrev.group(1)
    m = re.match(r'^range\((?:0, )?(.*)\)$', coll)
    if m and ', ' not in _top(m.group(1)):
        ok_ctx = True
        try:
            for k, d, env in world.sizes:
                if world.value(m.group(1), env) != -((-k) // (d * 8)):
                    ok_ctx = False
        except (s2kshape._NoFold, SyntaxError):
            ok_ctx = False
    rep.check(ok_ctx, R2, c, '%s: contexts %s' % (scen, coll),
              'the number of hash contexts must be ceil(key bits / digest bits), numbered from 0', where=fi.where,
              expected='range(0, ceil(key_size / (digest_size * 8)))', found=coll, scenario=scen)
    return ok_ctx


def _check_stream(rep, fi, s, scen, world, var, hi, bad, found):
    c = 'String2Key.derive_key'
    UNIT = world.unit
    # preload: REP(00; i)
    if not hi or hi[0][0] != 'REP' or render_items(hi[0][1]) != 'C(00)' or hi[0][2] != var:
        return bad('context %s is not preloaded with %s zero octets: %s' % (var, var, render_items(hi[:1])), 'REP(C(00);%s)' % var)
    rep.ok(R1, c, 'context i preloaded with i zero octets', scenario=scen)
    stream = hi[1:]
    # STREAM = whole copies of UNIT (REP(UNIT; q) or UNIT itself), then at most one leading part SLICE(UNIT;;r), r <= len(UNIT);
    # its length q * len(UNIT) + r is compared with COUNT by value over the sample worlds this path admits
    nunit = len(world.unit.split(' '))

    def parse_pieces(seq, allow_part=True):
        """-> [('copies', qtext) | ('part', rtext, [copies...])] or None.  A part is the first r octets of whole copies."""
        out, i = [], 0
        while i < len(seq):
            it = seq[i]
            if it[0] == 'REP' and norm_pass(render_items(it[1]), world.pname) == UNIT:
                out.append(('copies', it[2]))
                i += 1
            elif it[0] == 'REP' and parse_pieces(merge_consts(it[1]), False) is not None:
                # (unit * a) * b
                inner = parse_pieces(merge_consts(it[1]), False)
                out.append(('copies', '(%s) * (%s)' % (' + '.join('(%s)' % t for _k, t in inner), it[2])))
                i += 1
            elif it[0] == 'SLICE' and allow_part and it[2] in ('', '0'):
                base = it[1]
                if isinstance(base, str):
                    inner = [('copies', '1')] if norm_pass(base, world.pname) == UNIT else None
                else:
                    inner = parse_pieces(merge_consts(base), False)
                if inner is None:
                    return None
                out.append(('part', it[3], inner))
                i += 1
            elif norm_pass(render_items(seq[i:i + nunit]), world.pname) == UNIT:
                out.append(('copies', '1'))
                i += nunit
            else:
                return None
        return out
    pieces = parse_pieces(stream)
    if pieces is None:
        return bad('hashed stream is not made of copies of %s and a leading part of them: %s' % (UNIT, render_items(stream)),
                   'REP(%s;q) SLICE(%s;;r)' % (UNIT, UNIT))
    if any(p[0] == 'part' for p in pieces[:-1]):
        return bad('a partial copy of the unit is followed by more data: %s' % render_items(stream))
    rep.ok(R1, c, 'stream unit = %s' % UNIT, scenario=scen)
    wrong = None
    try:
        for env in world.live:
            L = env['__L__']
            total = 0
            for p in pieces:
                v = world.value(p[1], env)
                if p[0] == 'part':
                    have = sum(world.value(t, env) for _k, t in p[2]) * L
                    if not (0 <= v <= have):
                        wrong = (env, 'the first %s octets of %d' % (v, have))
                    total += v
                else:
                    if v < 0:
                        wrong = (env, '%s copies' % v)
                    total += v * L
            if wrong is None and total != world.want_count(env):
                wrong = (env, '%d octets hashed, RFC 4880 says %d' % (total, world.want_count(env)))
            if wrong:
                break
    except (s2kshape._NoFold,) as ex:
        wrong = ({}, 'the stream length depends on %s, which is neither the octet count nor the length of salt+passphrase' % ex)
    except SyntaxError as ex:
        raise AnalysisError('String2Key.derive_key: stream length is not an arithmetic expression: %s' % [p[1] for p in pieces])
    COUNT = ('max(count, len(unit))' if world.iterated else 'len(unit)')
    desc = ' + '.join(('%s copies' % p[1]) if p[0] == 'copies' else ('first %s octets' % p[1]) for p in pieces)
    rep.check(wrong is None, R1, c, '%s: stream length %s' % (scen, desc),
              'the stream must be exactly COUNT = %s octets: full copies = COUNT // len(unit), remainder = COUNT %% len(unit)%s'
              % (COUNT, '' if wrong is None else ' (%s when count=%s, len(unit)=%s)' % (wrong[1], wrong[0].get('%s.count' % world.me), wrong[0].get('__L__'))),
              where=fi.where, expected='q = COUNT // len(unit), r = COUNT - q * len(unit), COUNT = %s' % COUNT,
              found=desc, scenario=scen)


def _top(t):
    out, d = [], 0
    for ch in t:
        if ch in '([{':
            d += 1
        elif ch in ')]}':
            d -= 1
        out.append(ch if d == 0 else '_')
    return ''.join(out)
