"""C12 - String-to-key derivation has the structure RFC 4880 3.7.1 defines (partial: structure, not digest equality).

  C12.1 per specifier, the value derive_key returns is
           SLICE( EACH(i in range(CTX); HASH(halg; REP(00; i) STREAM)) ;; key_size // 8 )
        with STREAM = first COUNT octets of the repetition of UNIT, UNIT = salt||passphrase (salt only for salted forms, salt first),
        COUNT = self.count on the arm `self.count > len(UNIT)` of the iterated form and len(UNIT) otherwise (>= one full copy)
  C12.2 CTX = ceil(key_size / (digest_size * 8))
  C12.3 coded count formula (16 + (c & 15)) << ((c >> 4) + 6) and 0..255 setter bounds (shared with C09.4)
  C12.4 parse / __bytearray__ agree on which fields each specifier carries
"""
import ast
import re

from sa.interp import Interp, Scenario, Sym, Const, Bytes, render, render_items, merge_consts, render_item
from sa import families
from sa.loader import AnalysisError
from sa.sigdata import enum_const
from sa import s2kshape


def strip(t):
    return t.replace(' ', '')


def run(rep, prog, tier):
    rep.rule('C12.1', 'derive_key: contexts preloaded with i zero octets over the salt||passphrase stream of COUNT octets, joined in order, truncated', floor=8)
    rep.rule('C12.2', 'number of contexts = ceil(key bits / digest bits)', floor=1)
    rep.rule('C12.3', 'coded count decode formula and setter bounds', floor=3)
    rep.rule('C12.4', 'S2K parse and __bytearray__ carry the same fields per specifier', floor=4)
    rep.assume('hashlib hashers are sequential: h.update(a); h.update(b) == h.update(a + b)')

    check_derive_key(rep, prog)
    families.check_algorithm_ids(rep, prog, 'C12.2')
    # C12.3
    s2kshape.check_count(rep, prog, 'C12.3')
    # C12.4
    s2kshape.check_s2k_codec(rep, prog, 'C12.4')


R1, R2 = 'C12.1', 'C12.2'


def check_derive_key(rep, prog, r1='C12.1', r2='C12.2'):
    global R1, R2
    R1, R2 = r1, r2
    fi = prog.method('pgpy.packet.fields', 'String2Key', 'derive_key')
    rep.saw(fn=fi)
    for spec, salted in (('Simple', False), ('Salted', True), ('Iterated', True)):
        for ptype in ('bytes', 'str'):
            sc = Scenario(bind={'self.specifier': enum_const(prog, 'String2KeyType', spec)},
                          args={'passphrase': Sym('passphrase', types={ptype}, nonnull=True)}, inline=lambda f: False)
            outs = Interp(prog, sc).run(fi)
            rep.analysed['paths'] += len(outs)
            PASS = 'passphrase' if ptype == 'bytes' else "passphrase.encode('utf-8')"
            unit_items = ([('SYM', 'self.salt')] if salted else []) + [('SYM', PASS)]
            UNIT = render_items(unit_items)
            want_paths = 2 if spec == 'Iterated' else 1
            scen = '%s x %s passphrase' % (spec, ptype)
            if len(outs) != want_paths:
                rep.violation(R1, 'String2Key.derive_key', '%s: %d paths' % (scen, len(outs)),
                              'expected %d path(s) for %s (the iterated form forks on count > len(salt+passphrase))' % (want_paths, scen),
                              where=fi.where, scenario=scen, found=[s.facts for s in outs])
                continue
            for s in outs:
                big = None
                for t, v, _sk in s.facts:
                    if 'self.count' in t:
                        tt = strip(t)
                        okc = tt in (strip('((String2KeyType.Iterated == String2KeyType.Iterated) and (self.count > len(%s)))' % UNIT),
                                     strip('(self.count > len(%s))' % UNIT),
                                     strip('((String2KeyType.Iterated == String2KeyType.Iterated) and (self.count >= len(%s)))' % UNIT))
                        rep.check(okc, R1, 'String2Key.derive_key', '%s: branch %s' % (scen, t),
                                  'the iterated count applies exactly when it exceeds one full copy of salt+passphrase', where=fi.where,
                                  expected='self.count > len(%s)' % UNIT, found=t, scenario=scen)
                        big = v
                COUNT = 'self.count' if big else 'len(%s)' % UNIT
                check_shape(rep, fi, s, scen + (' (count arm)' if big else ''), unit_items, UNIT, COUNT)


def check_shape(rep, fi, s, scen, unit_items, UNIT, COUNT):
    c = 'String2Key.derive_key'
    ret = s.ret
    found = render(ret) if ret is not None else '<none>'

    def bad(msg, exp=None):
        rep.violation(R1, c, '%s: %s' % (scen, msg), 'S2K structure differs from RFC 4880 3.7.1: %s' % msg, where=fi.where,
                      expected=exp, found=found, scenario=scen)
    if not isinstance(ret, Bytes):
        return bad('result is not a byte string')
    its = merge_consts(ret.items)
    if len(its) != 1 or its[0][0] != 'SLICE' or isinstance(its[0][1], str):
        return bad('result is not a truncation of the joined digests')
    sl = its[0]
    if sl[2] not in ('', '0') or strip(sl[3]) not in ('(self.encalg.key_size//8)', '(keylen//8)'):
        bad('truncation is [%s:%s], expected [:key_size // 8]' % (sl[2], sl[3]), '[:self.encalg.key_size // 8]')
    else:
        rep.ok(R1, c, 'truncated to key_size // 8', scenario=scen)
    inner = sl[1]
    if len(inner) != 1 or inner[0][0] != 'EACH':
        return bad('digests are not produced by one loop over the contexts')
    each = inner[0]
    var, coll, body = each[1], each[2], each[3]
    # C12.2 context count
    ctx = strip(coll)
    ok_ctx = ctx in (strip('range(0, int(math.ceil((self.encalg.key_size / (self.halg.digest_size * 8)))))'),
                     strip('range(int(math.ceil((self.encalg.key_size / (self.halg.digest_size * 8)))))'),
                     strip('range(0, math.ceil((self.encalg.key_size / (self.halg.digest_size * 8))))'),
                     strip('range(math.ceil((self.encalg.key_size / (self.halg.digest_size * 8))))'),
                     strip('range(0, -((-self.encalg.key_size) // (self.halg.digest_size * 8)))'))
    rep.check(ok_ctx, R2, c, '%s: contexts %s' % (scen, coll),
              'the number of hash contexts must be ceil(key bits / digest bits), numbered from 0', where=fi.where,
              expected='range(0, ceil(key_size / (digest_size * 8)))', found=coll, scenario=scen)
    if len(body) != 1 or body[0][0] != 'HASH':
        return bad('loop body is not one digest per context (joined in context order)')
    h = body[0]
    rep.check(h[1] == 'self.halg', R1, c, '%s: hash algorithm %s' % (scen, h[1]), 'contexts use the specifier\'s hash algorithm',
              where=fi.where, expected='self.halg', found=h[1], scenario=scen)
    hi = merge_consts(h[2])
    # preload: REP(00; i)
    if not hi or hi[0][0] != 'REP' or render_items(hi[0][1]) != 'C(00)' or hi[0][2] != var:
        return bad('context %s is not preloaded with %s zero octets: %s' % (var, var, render_items(hi[:1])), 'REP(C(00);%s)' % var)
    rep.ok(R1, c, 'context i preloaded with i zero octets', scenario=scen)
    stream = hi[1:]
    # STREAM = REP(UNIT; q) SLICE(UNIT;;r)
    if len(stream) != 2 or stream[0][0] != 'REP' or stream[1][0] != 'SLICE':
        return bad('hashed stream is not (unit * q) + unit[:r]: %s' % render_items(stream), 'REP(%s;q) SLICE(%s;;r)' % (UNIT, UNIT))
    rep_unit, q = render_items(stream[0][1]), strip(stream[0][2])
    sl_unit = stream[1][1] if isinstance(stream[1][1], str) else render_items(stream[1][1])
    r_lo, r = stream[1][2], strip(stream[1][3])
    if rep_unit != UNIT or sl_unit != UNIT:
        return bad('stream unit is %s / %s' % (rep_unit, sl_unit), UNIT)
    rep.ok(R1, c, 'stream unit = %s' % UNIT, scenario=scen)
    L = strip('len(%s)' % UNIT)
    Cn = strip(COUNT)
    q_ok = q in ('(%s//%s)' % (Cn, L), 'divmod(%s,%s)[0]' % (Cn, L))
    r_ok = r in ('(%s-((%s//%s)*%s))' % (Cn, Cn, L, L), '(%s%%%s)' % (Cn, L), 'divmod(%s,%s)[1]' % (Cn, L),
                 '(%s-(%s*(%s//%s)))' % (Cn, L, Cn, L)) and r_lo in ('', '0')
    rep.check(q_ok and r_ok, R1, c, '%s: stream length q=%s r=%s' % (scen, stream[0][2], stream[1][3]),
              'the stream must be exactly COUNT = %s octets: full copies = COUNT // len(unit), remainder = COUNT %% len(unit)' % COUNT,
              where=fi.where, expected='q = %s // len(unit), r = %s - q * len(unit)' % (COUNT, COUNT),
              found='q = %s, r = %s' % (stream[0][2], stream[1][3]), scenario=scen)
