"""C10 - ASCII armor is a faithful, checksummed, correctly labelled envelope (partial: constants, labels, widths, guards).

  C10.1 crc24: init 0xB704CE, generator 0x1864CFB, per octet (<< 16), 8 rounds of (<< 1, test bit 0x1000000), result mask 0xFFFFFF
  C10.2 __str__: payload and CRC derive from the same binary export; CRC written as exactly three octets; '=' prefix; same label in
        BEGIN and END; the reader's CRC group is exactly four base64 characters
  C10.3 writer line width (64) <= 76 and <= the reader's per-line bound
  C10.4 block labels by object kind (RFC 4880 6.2)
  C10.5 kind checks of the three parse methods: a present label outside the accepted set raises before any packet is consumed;
        a cleartext block needs its cleartext group
  C10.6 a CRC mismatch is reported (compare crc24(body) with the decoded CRC; warn or raise)
  C10.7 armor header lines: writer 'key: value\\n' and reader separator ': ' agree; armor is searched for inside surrounding text
"""
import ast
import re

from sa.interp import alpha, Interp, Scenario, Sym, Const, Bytes, Frame, State, render
from sa.loader import AnalysisError, dotted, FunctionInfo
from sa import regexast

noinline = lambda f: False  # noqa: E731


def run(rep, prog, tier):
    rep.rule('C10.1', 'CRC-24 constants and loop structure = RFC 4880 6.1', floor=7)
    rep.rule('C10.2', 'payload and CRC from the same octets; 3-octet CRC; labels; reader CRC group', floor=6)
    rep.rule('C10.3', 'line width 64 <= 76 and within the reader bound', floor=2)
    rep.rule('C10.4', 'block labels per object kind', floor=5)
    rep.rule('C10.5', 'kind checks: wrong label raises before parsing packets', floor=14)
    rep.rule('C10.6', 'CRC mismatch is reported', floor=3)
    rep.rule('C10.7', 'armor header line format agreement; armor located by search', floor=4)
    rep.assume('base64.b64encode/b64decode are RFC 4648 (stdlib)')

    A = prog.cls('pgpy.types', 'Armorable')
    crc(rep, prog, A)
    writer(rep, prog, A)
    labels(rep, prog)
    kind_checks(rep, prog)
    reader(rep, prog, A)


def _const(A, name):
    v = A.attrs.get(name)
    if v is None:
        raise AnalysisError('Armorable.%s vanished' % name)
    return ast.literal_eval(v)


def crc(rep, prog, A):
    f = A.methods.get('crc24')
    if f is None:
        raise AnalysisError('Armorable.crc24 vanished')
    rep.saw(fn=f)
    init, poly = _const(A, '__crc24_init'), _const(A, '__crc24_poly')
    rep.check(init == 0xB704CE, 'C10.1', 'Armorable.__crc24_init', hex(init), 'CRC-24 initial value is 0xB704CE (RFC 4880 6.1)', where=A.where,
              expected='0xb704ce', found=hex(init))
    rep.check(poly == 0x1864CFB, 'C10.1', 'Armorable.__crc24_poly', hex(poly), 'CRC-24 generator is 0x1864CFB (RFC 4880 6.1)', where=A.where,
              expected='0x1864cfb', found=hex(poly))
    src = ast.unparse(f.node)
    # structure: crc = init ; for b in data: crc ^= b << 16 ; for i in range(8): crc <<= 1 ; if crc & 0x1000000: crc ^= poly ; return crc & 0xFFFFFF
    outer = [n for n in f.node.body if isinstance(n, ast.For)]
    ok_outer = len(outer) == 1
    rep.check(ok_outer, 'C10.1', 'Armorable.crc24', 'one loop over the data', 'the CRC is accumulated octet by octet', where=f.where)
    if ok_outer:
        o = outer[0]
        bvar = ast.unparse(o.target)
        x = [n for n in o.body if isinstance(n, ast.AugAssign) and isinstance(n.op, ast.BitXor)]
        rep.check(len(x) == 1 and ast.unparse(x[0].value).replace(' ', '') in ('%s<<16' % bvar, '(%s<<16)' % bvar), 'C10.1', 'Armorable.crc24',
                  'per octet: %s' % (ast.unparse(x[0]) if x else None), 'each octet is xored into bits 16..23', where=f.where, expected='crc ^= b << 16')
        inner = [n for n in o.body if isinstance(n, ast.For)]
        ok_in = len(inner) == 1 and ast.unparse(inner[0].iter).replace(' ', '') in ('range(8)', 'range(0,8)')
        rep.check(ok_in, 'C10.1', 'Armorable.crc24', 'inner loop %s' % (ast.unparse(inner[0].iter) if inner else None), 'eight shift rounds per octet', where=f.where,
                  expected='for i in range(8)')
        if inner:
            b = inner[0].body
            sh = [n for n in b if isinstance(n, ast.AugAssign) and isinstance(n.op, ast.LShift)]
            iff = [n for n in b if isinstance(n, ast.If)]
            rep.check(len(sh) == 1 and ast.unparse(sh[0].value) == '1' and b.index(sh[0]) < (b.index(iff[0]) if iff else 99), 'C10.1', 'Armorable.crc24',
                      'shift %s' % (ast.unparse(sh[0]) if sh else None), 'each round shifts left by one before testing the overflow bit', where=f.where)
            okf = len(iff) == 1 and ast.unparse(iff[0].test).replace(' ', '') in ('crc&16777216', 'crc&0x1000000') and len(iff[0].body) == 1 and \
                isinstance(iff[0].body[0], ast.AugAssign) and isinstance(iff[0].body[0].op, ast.BitXor) and '__crc24_poly' in ast.unparse(iff[0].body[0].value)
            rep.check(okf, 'C10.1', 'Armorable.crc24', 'overflow test %s' % (ast.unparse(iff[0].test) if iff else None),
                      'when bit 24 is set the generator is xored in', where=f.where, expected='if crc & 0x1000000: crc ^= poly')
    rets = [n for n in ast.walk(f.node) if isinstance(n, ast.Return)]
    rep.check(len(rets) == 1 and ast.unparse(rets[0].value).replace(' ', '') in ('crc&16777215', 'crc&0xFFFFFF'), 'C10.1', 'Armorable.crc24',
              'return %s' % (ast.unparse(rets[0].value) if rets else None), 'the result is the low 24 bits', where=f.where, expected='crc & 0xFFFFFF')
    ini = [n for n in f.node.body if isinstance(n, ast.Assign) and ast.unparse(n.targets[0]) == 'crc']
    rep.check(len(ini) == 1 and '__crc24_init' in ast.unparse(ini[0].value), 'C10.1', 'Armorable.crc24', 'initialisation %s' % (ast.unparse(ini[0]) if ini else None),
              'the accumulator starts at the RFC initial value', where=f.where)


def writer(rep, prog, A):
    f = A.methods.get('__str__')
    rep.saw(fn=f)
    fmt = _const(A, '__armor_fmt')
    rep.check(fmt.count('{block_type}') == 2 and fmt.startswith('-----BEGIN PGP {block_type}-----\n') and fmt.endswith('-----END PGP {block_type}-----\n'),
              'C10.2', 'Armorable.__armor_fmt', 'BEGIN/END use the same label', 'header and tail lines carry the same block label', where=A.where)
    rep.check('\n={crc}\n' in fmt and '{headers}\n{packet}\n' in fmt, 'C10.2', 'Armorable.__armor_fmt', 'layout', 'headers, blank line, payload, =CRC',
              where=A.where, found=fmt)
    for s in Interp(prog, Scenario(inline=noinline)).run(f):
        fm = [c for c in s.calls if c[0].endswith('.format') and 'block_type' in c[2]]
        if len(fm) != 1:
            raise AnalysisError('Armorable.__str__: armor format call not found')
        kw = fm[0][2]
        B = 'self.__bytearray__()'
        rep.check(kw.get('crc') == "base64.b64encode(INT(3;self.crc24(%s))).decode('latin-1')" % B, 'C10.2', 'Armorable.__str__', 'crc = %s' % kw.get('crc'),
                  'the checksum is the CRC-24 of the binary export, written as exactly three octets (leading zero octets kept), base64 encoded',
                  where=f.where, expected="b64encode(int_to_bytes(crc24(bytes(self)), 3))", found=kw.get('crc'))
        pk = kw.get('packet', '')
        P = "base64.b64encode(%s).decode('latin-1')" % B
        m0 = re.match(r"^'\\n'\.join\(EACH\(\$1 in range\(0, len\((.*)\), (\d+)\);SLICE\((.*);\$1;\(\$1 \+ (\d+)\)\)\)\)$", alpha(pk))

        class _M(object):        # (payload in slice, width, payload in len, step)
            def __init__(self, m):
                self.m = m

            def group(self, i):
                return self.m.group({1: 3, 2: 4, 3: 1, 4: 2}[i])
        m = _M(m0) if m0 else None
        rep.check(m is not None and m.group(1) == P and m.group(3) == P, 'C10.2', 'Armorable.__str__', 'payload = %s' % pk[:90],
                  'the payload is the base64 of the same binary export the CRC is computed over', where=f.where, found=pk)
        if m:
            w1, w2 = int(m.group(2)), int(m.group(4))
            rep.check(w1 == w2 and 0 < w1 <= 76 and w1 % 4 == 0, 'C10.3', 'Armorable.__str__', 'line width %d step %d' % (w1, w2),
                      'lines must be at most 76 characters and cut on a base64 quantum; step and width must agree (no octet lost or repeated)',
                      where=f.where, expected='<= 76', found=(w1, w2))
            body = regexast.subpattern(_const_regex(A)[0], 'body', _const_regex(A)[1])
            bound = None
            for op, av in _walk(body):
                if op in ('MAX_REPEAT', 'MIN_REPEAT') and list(av[2]) and str(list(av[2])[0][0]) == 'IN':
                    bound = (av[0], av[1])
                    break
            rep.check(bound is not None and bound[0] <= 1 and w1 <= int(bound[1]), 'C10.3', 'Armorable.__armor_regex', 'reader line bound %s' % (bound,),
                      'the reader must accept every line length the writer produces', where=A.where, expected='{1,n} with n >= %d' % w1, found=bound)
        rep.check(kw.get('block_type') == 'self.magic', 'C10.2', 'Armorable.__str__', 'label %s' % kw.get('block_type'), 'the label is the object\'s own magic',
                  where=f.where)
        hd = kw.get('headers', '')
        rep.check("'{key}: {val}\\n'.format" in hd and 'self.ascii_headers.items()' in hd, 'C10.7', 'Armorable.__str__', 'headers %s' % hd[:80],
                  'each supplied armor header is written as "key: value" on its own line', where=f.where)
    # reader's crc group: exactly 4 base64 characters after '='
    pat, flags = _const_regex(A)
    crcg = regexast.subpattern(pat, 'crc', flags)
    ok = crcg is not None and len(crcg) == 1 and str(crcg[0][0]) == 'MAX_REPEAT' and crcg[0][1][0] == 4 and crcg[0][1][1] == 4
    rep.check(ok, 'C10.2', 'Armorable.__armor_regex', 'crc group %s' % (crcg,), 'the checksum line is "=" followed by exactly four base64 characters (24 bits)',
              where=A.where, expected='[A-Za-z0-9+/]{4}')


def _walk(items):
    for op, av in items or []:
        yield str(op), av
        n = str(op)
        if n in ('MAX_REPEAT', 'MIN_REPEAT'):
            for x in _walk(list(av[2])):
                yield x
        elif n == 'SUBPATTERN':
            for x in _walk(list(av[3])):
                yield x
        elif n == 'BRANCH':
            for br in av[1]:
                for x in _walk(list(br)):
                    yield x


def _const_regex(A):
    v = A.attrs.get('__armor_regex')
    if not (isinstance(v, ast.Call) and dotted(v.func) == 're.compile' and v.args):
        raise AnalysisError('Armorable.__armor_regex is not a re.compile(...) literal')
    pat = ast.literal_eval(v.args[0])
    flags = 0
    for k in v.keywords:
        if k.arg == 'flags':
            for n in ast.walk(k.value):
                if isinstance(n, ast.Attribute):
                    flags |= int(getattr(re, n.attr))
    return pat, flags


def labels(rep, prog):
    want = {'PGPSignature': ["'SIGNATURE'"], 'PGPMessage': None, 'PGPKey': None}
    m = prog.method('pgpy.pgp', 'PGPSignature', 'magic')
    for s in Interp(prog, Scenario(inline=noinline)).run(m):
        rep.check(render(s.ret) == "'SIGNATURE'", 'C10.4', 'PGPSignature.magic', render(s.ret), 'a detached signature is a PGP SIGNATURE block', where=m.where)
    m = prog.method('pgpy.pgp', 'PGPMessage', 'magic')
    for t, lab in (('cleartext', 'SIGNATURE'), ('literal', 'MESSAGE'), ('encrypted', 'MESSAGE')):
        for s in Interp(prog, Scenario(bind={'self.type': Const(t)}, inline=noinline)).run(m):
            rep.check(render(s.ret) == repr(lab), 'C10.4', 'PGPMessage.magic', '%s -> %s' % (t, render(s.ret)),
                      'a %s message is armored as PGP %s' % (t, lab), where=m.where, expected=lab, found=render(s.ret), scenario=t)
    m = prog.method('pgpy.pgp', 'PGPKey', 'magic')
    src = ast.unparse(m.node)
    rep.check("'{:s} KEY BLOCK'" in src and "'PUBLIC'" in src and "'PRIVATE'" in src, 'C10.4', 'PGPKey.magic', 'PUBLIC/PRIVATE KEY BLOCK',
              'keys are armored as PGP PUBLIC KEY BLOCK / PGP PRIVATE KEY BLOCK (polarity under C07.6)', where=m.where)


def kind_checks(rep, prog):
    cases = {
        'PGPSignature': ({'SIGNATURE': True, 'MESSAGE': False, 'PUBLIC KEY BLOCK': False, 'PRIVATE KEY BLOCK': False}, 'packet'),
        'PGPMessage': ({'SIGNATURE': True, 'MESSAGE': True, 'PUBLIC KEY BLOCK': False, 'PRIVATE KEY BLOCK': False}, 'packet'),
        'PGPKey': ({'SIGNATURE': False, 'MESSAGE': False, 'PUBLIC KEY BLOCK': True, 'PRIVATE KEY BLOCK': True}, 'data'),
    }
    for cls, (table, param) in cases.items():
        f = prog.method('pgpy.pgp', cls, 'parse')
        rep.saw(fn=f)
        # the guard: the first `if` of the function whose body raises ValueError and whose test mentions the magic
        guard = None
        for n in f.node.body:
            if isinstance(n, ast.If) and 'magic' in ast.unparse(n.test) and any(isinstance(x, ast.Raise) for x in n.body):
                guard = n
                break
        if guard is None:
            rep.violation('C10.5', '%s.parse' % cls, 'no kind check', 'a block of the wrong kind is not rejected', where=f.where)
            continue
        # nothing is parsed before it
        before = f.node.body[:f.node.body.index(guard)]
        early = [ast.unparse(c) for st in before for c in ast.walk(st) if isinstance(c, ast.Call) and dotted(c.func) in ('Packet', 'self.__or__')]
        rep.check(not early, 'C10.5', '%s.parse' % cls, 'packets parsed before the kind check: %s' % early, 'the kind check must come before any packet is consumed',
                  where=f.where)
        ua = "self.ascii_unarmor(%s)" % param
        for label, accept in list(table.items()) + [(None, True)]:
            fr = Frame(Interp(prog, Scenario()), f, 0)
            st = State()
            st.env["%s['magic']" % ua] = Const(label)
            st.env['unarmored'] = Sym(ua)
            st.env['self'] = Sym('self', cls=f.cls, nonnull=True)
            d = fr.decide(guard.test, st)
            scen = 'label %r' % (label,)
            rep.check(d is not None and (d is False) == accept, 'C10.5', '%s.parse' % cls, '%s -> %s' % (scen, 'raise' if d else 'accepted' if d is False else 'undecided'),
                      '%s must %s a block labelled %r' % (cls, 'accept' if accept else 'reject', label), where='%s:%d' % (f.module.relpath, guard.lineno),
                      expected='accept' if accept else 'raise ValueError', found='raise' if d else 'accepted', scenario=scen)
        rz = [x for x in guard.body if isinstance(x, ast.Raise)]
        rep.check(bool(rz) and 'ValueError' in ast.unparse(rz[0]), 'C10.5', '%s.parse' % cls, 'reaction %s' % (ast.unparse(rz[0])[:60] if rz else None),
                  'a wrong kind is reported as ValueError', where=f.where)
    # cleartext branch needs the cleartext group itself
    f = prog.method('pgpy.pgp', 'PGPMessage', 'parse')
    du = [c for c in ast.walk(f.node) if isinstance(c, ast.Call) and isinstance(c.func, ast.Attribute) and c.func.attr == 'dash_unescape']
    rep.check(len(du) == 1 and ast.unparse(du[0].args[0]) == "unarmored['cleartext']", 'C10.5', 'PGPMessage.parse',
              'cleartext source %s' % [ast.unparse(c.args[0]) for c in du],
              'a SIGNATURE block is a cleartext message only through its signed-message preamble: the text must be that group, with no fallback',
              where=f.where, expected="self.dash_unescape(unarmored['cleartext'])", found=[ast.unparse(c) for c in du])


def reader(rep, prog, A):
    f = A.methods.get('ascii_unarmor')
    rep.saw(fn=f)
    src = ast.unparse(f.node)
    # located with search (armor may be surrounded by other text); is_armor and ascii_unarmor agree
    meths = []
    for fn in (A.methods.get('is_armor'), f):
        for c in ast.walk(fn.node):
            if isinstance(c, ast.Call) and isinstance(c.func, ast.Attribute) and '__armor_regex' in ast.unparse(c.func.value):
                meths.append((fn.name, c.func.attr))
    rep.check(len(meths) == 2 and all(m == 'search' for _, m in meths), 'C10.7', 'Armorable.ascii_unarmor', 'regex methods %s' % meths,
              'an armored block is found anywhere in the input (surrounding non-armor text is allowed), consistently in is_armor and ascii_unarmor',
              where=f.where, expected='search in both', found=meths)
    # CRC comparison and reaction
    ifs = [n for n in ast.walk(f.node) if isinstance(n, ast.If) and 'crc24' in ast.unparse(n.test)]
    ok = len(ifs) == 1
    rep.check(ok, 'C10.6', 'Armorable.ascii_unarmor', 'crc comparison sites %d' % len(ifs), 'the decoded CRC must be compared with the CRC of the decoded body',
              where=f.where)
    if ok:
        t = ifs[0].test
        tt = ast.unparse(t).replace(' ', '')
        good = tt in ("Armorable.crc24(m['body'])!=m['crc']", "m['crc']!=Armorable.crc24(m['body'])", "self.crc24(m['body'])!=m['crc']")
        rep.check(good, 'C10.6', 'Armorable.ascii_unarmor', 'test %s' % ast.unparse(t), 'a mismatch (not a match) must trigger the report', where=f.where,
                  expected="crc24(m['body']) != m['crc']", found=ast.unparse(t))
        react = [ast.unparse(x) for x in ifs[0].body]
        rep.check(any('warnings.warn' in r or r.startswith('raise') for r in react), 'C10.6', 'Armorable.ascii_unarmor', 'reaction %s' % react,
                  'a payload that does not match its CRC must be reported (warning or error)', where=f.where)
    rep.check("m['crc'] = Header.bytes_to_int(base64.b64decode(m['crc'].encode()))" in src, 'C10.6', 'Armorable.ascii_unarmor', 'crc decode',
              'the CRC line is base64-decoded to the 24-bit value', where=f.where)
    rep.check("m['body'] = bytearray(base64.b64decode(m['body'].encode()))" in src, 'C10.6', 'Armorable.ascii_unarmor', 'body decode',
              'the body is base64-decoded to the binary export', where=f.where)
    # header line separator agreement
    fa = [c for c in ast.walk(f.node) if isinstance(c, ast.Call) and dotted(c.func) == 're.findall']
    ok = len(fa) == 1 and isinstance(fa[0].args[0], ast.Constant)
    if ok:
        pat = fa[0].args[0].value
        lits = ''.join(chr(av) for op, av in regexast.summary(pat, re.MULTILINE) if op == 'LITERAL')
        ok = ': ' in lits and 'key' in regexast.find_groups(pat) and 'value' in regexast.find_groups(pat)
    rep.check(ok, 'C10.7', 'Armorable.ascii_unarmor', 'header line pattern', 'header lines are split at ": " - the separator the writer uses', where=f.where)
    # the tail label must equal the head label
    pat, flags = _const_regex(A)
    has_backref = any(op == 'GROUPREF' for op, av in regexast.walk(pat, flags))
    rep.check(has_backref and 'magic' in regexast.find_groups(pat, flags), 'C10.7', 'Armorable.__armor_regex', 'END label = BEGIN label (backreference)',
              'the tail line must carry the same label as the header line', where=A.where)
