"""C10 - ASCII armor is a faithful, checksummed, correctly labelled envelope (partial: constants, labels, widths, guards).

  C10.1 crc24 computes the RFC 4880 6.1 CRC-24 (init 0xB704CE, generator 0x1864CFB, 24-bit result): the function body is folded by
        the checker-side interpreter on every one-octet input and a set of multi-octet inputs and compared with the RFC algorithm
  C10.2 __str__: payload and CRC derive from the same binary export; CRC written as exactly three octets; '=' prefix; same label in
        BEGIN and END; the reader's CRC group is exactly four base64 characters
  C10.3 writer line width (64) <= 76, on a base64 quantum, and every line the writer can produce is in the reader's body language
  C10.4 block labels by object kind (RFC 4880 6.2)
  C10.5 kind checks of the three parse methods: a present label outside the accepted set raises before any packet is consumed;
        a cleartext block needs its cleartext group
  C10.6 a CRC mismatch is reported (compare crc24(body) with the decoded CRC; warn or raise)
  C10.7 armor header lines: writer 'key: value\\n' and reader separator ': ' agree; armor is searched for inside surrounding text

All rules work on interpreter values (sa/interp.py), piece sequences of the texts the code builds (sa/strterm.py) and regular
languages (sa/regexast.py); none looks at variable names, statement shapes or the spelling of a literal.
"""
import ast
import re

from sa.interp import Interp, Scenario, Sym, Const, render
from sa.loader import AnalysisError, dotted
from sa import regexast
from sa import strterm as T
from sa.guards import atoms, eval_skel

from sa.vocab import FUNCTIONS as _VOCAB_FUNCS


def noinline(f):
    """Inline policy of every scenario here: nothing of the reference vocabulary is looked into (each anchor is analysed on its own), but
    a helper an edit introduced (a name the reference tree does not have) is transparent - also where the canonicaliser could not
    splice it in (same new name defined in several classes)."""
    if any(isinstance(n, (ast.Yield, ast.YieldFrom)) for n in ast.walk(f.node)):
        return False            # the value of a generator call is what it yields, not what it returns: rules read its yields themselves
    return f.name not in _VOCAB_FUNCS and not (f.name.startswith('__') and f.name.endswith('__'))

B64 = '[A-Za-z0-9+/]'
TEXT_CODECS = ('latin-1', 'latin1', 'iso-8859-1', 'ascii', 'us-ascii', 'utf-8', 'utf8')   # all agree on the base64 alphabet


def run(rep, prog, tier):
    rep.rule('C10.1', 'crc24 is the CRC-24 of RFC 4880 6.1 (constants, per-octet xor at bit 16, eight rounds, 24-bit mask)', floor=6)
    rep.rule('C10.2', 'payload and CRC from the same octets; 3-octet CRC; labels; reader CRC group', floor=6)
    rep.rule('C10.3', 'line width 64 <= 76 and within the reader language', floor=2)
    rep.rule('C10.4', 'block labels per object kind', floor=5)
    rep.rule('C10.5', 'kind checks: wrong label raises before parsing packets', floor=14)
    rep.rule('C10.6', 'CRC mismatch is reported', floor=3)
    rep.rule('C10.7', 'armor header line format agreement; armor located by search', floor=4)
    rep.assume('base64.b64encode/b64decode are RFC 4648 (stdlib)')

    A = prog.cls('pgpy.types', 'Armorable')
    classifier(rep, prog, A)
    crc(rep, prog, A)
    sep = writer(rep, prog, A)
    labels(rep, prog)
    kind_checks(rep, prog)
    reader(rep, prog, A, sep)


# ------------------------------------------------------------------------------------------------ helpers
def _own_params(f):
    """Parameter names without the receiver."""
    ps = list(f.params)
    if f.cls is not None and ps and not any(dotted(d) == 'staticmethod' for d in f.node.decorator_list):
        ps = ps[1:]
    return ps


def _receiver(f):
    if f.cls is not None and f.params and not any(dotted(d) == 'staticmethod' for d in f.node.decorator_list):
        return f.params[0]
    return None


def _const_str(node):
    if isinstance(node, ast.Constant) and isinstance(node.value, (str, bytes)):
        return node.value
    if isinstance(node, ast.BinOp) and isinstance(node.op, ast.Add):
        l, r = _const_str(node.left), _const_str(node.right)
        if l is not None and r is not None and type(l) is type(r):
            return l + r
    if isinstance(node, ast.JoinedStr) and all(isinstance(v, ast.Constant) for v in node.values):
        return ''.join(str(v.value) for v in node.values)
    return None


def flags_of(x):
    """re flag bits named in an expression (node or rendered text): re.MULTILINE | re.X ..., or a plain integer."""
    if x is None:
        return 0
    text = x if isinstance(x, str) else ast.unparse(x)
    bits = 0
    for name in re.findall(r'\bre\.([A-Z]+)\b', text):
        bits |= int(getattr(re, name, 0))
    m = re.match(r'^\(?(\d+)\)?$', text.strip())
    if m:
        bits |= int(m.group(1))
    return bits


def _const_regex(A):
    v = A.attrs.get('__armor_regex')
    if not (isinstance(v, ast.Call) and dotted(v.func) == 're.compile' and v.args):
        raise AnalysisError('Armorable.__armor_regex is not a re.compile(...) literal')
    pat = _const_str(v.args[0])
    if pat is None:
        # a pattern assembled from fragments: concatenation / join / % / format / f-string over literals and other class constants
        try:
            pat = T.const_eval(v.args[0], T.class_constants(A), owners=(A.name,))
        except T.NotConstant:
            pat = None
    if not isinstance(pat, (str, bytes)):
        raise AnalysisError('Armorable.__armor_regex: pattern is not a literal')
    flags = flags_of(v.args[1]) if len(v.args) > 1 else 0
    for k in v.keywords:
        if k.arg == 'flags':
            flags |= flags_of(k.value)
    return pat, flags


def armor_tree(A):
    """(normalised tree, group name -> id) of the armor expression."""
    pat, flags = _const_regex(A)
    try:
        tree, p = regexast.norm_pattern(pat, flags)
    except regexast.Unsupported as ex:
        raise AnalysisError('armor regex: %s' % ex)
    return tree, dict(p.state.groupdict)


def group_lang(A, name):
    tree, groups = armor_tree(A)
    hit = regexast.find_group(tree, groups.get(name)) if name in groups else None
    if hit is None:
        return None
    try:
        return regexast.Lang(hit[0][2])
    except regexast.Unsupported as ex:
        raise AnalysisError('armor regex, group %s: %s' % (name, ex))


def _walk(node):
    return ast.walk(node) if node is not None else []


def _calls_named(node, names):
    """Call nodes of a term whose function's last name component is in `names`."""
    out = []
    for n in _walk(node):
        if isinstance(n, ast.Call):
            f = n.func
            last = f.attr if isinstance(f, ast.Attribute) else f.id if isinstance(f, ast.Name) else None
            if last in names:
                out.append(n)
    return out


def refs_group(node, name):
    """Does the term read the regex group `name` of a match (m.groupdict()[name], m.group(name), m[name], d.get(name))?"""
    for n in _walk(node):
        if isinstance(n, ast.Subscript) and isinstance(n.slice, ast.Constant) and n.slice.value == name:
            return True
        if isinstance(n, ast.Call) and isinstance(n.func, ast.Attribute) and n.func.attr in ('group', 'get') and n.args and \
                isinstance(n.args[0], ast.Constant) and n.args[0].value == name:
            return True
    return False


B64_ENCODERS = ('base64.b64encode(_X)', 'base64.standard_b64encode(_X)', 'b64encode(_X)', 'standard_b64encode(_X)',
                'binascii.b2a_base64(_X, newline=False)', 'b2a_base64(_X, newline=False)')
OTHER_ENCODERS = ('urlsafe_b64encode', 'b32encode', 'b16encode', 'a85encode', 'b85encode', 'encodebytes', 'encodestring', 'hexlify', 'b2a_hex', 'b2a_uu',
                  'b2a_qp', 'hex')


def b64text_of(node):
    """X if the term is the text of the RFC 4648 base64 of X (standard alphabet, no line feed), decoded with an ASCII-compatible codec."""
    inner = None
    for pat in ('_E.decode(_C)', 'str(_E, _C)', '_E.decode()', 'str(_E, encoding=_C)', '_E.decode(encoding=_C)'):
        m = T.match(node, pat)
        if m is not None:
            c = m.get('_C')
            if c is None or (isinstance(c, ast.Constant) and isinstance(c.value, str) and c.value.lower() in TEXT_CODECS):
                inner = m['_E']
                break
    if inner is None:
        return None
    m = T.match_any(inner, B64_ENCODERS)
    return m['_X'] if m is not None else None


def other_encoding(node):
    """Name of a non-base64 / non-standard-alphabet encoder the term applies (urlsafe, base32, hex ...), else None."""
    hit = _calls_named(node, OTHER_ENCODERS) if node is not None else []
    if hit:
        f = hit[0].func
        return f.attr if isinstance(f, ast.Attribute) else f.id
    return None


def is_export(node, selfn):
    """The binary export of the object itself (self.__bytes__() / self.__bytearray__() / bytes(self) all render to one of these)."""
    return T.show(node) in ('%s.__bytearray__()' % selfn, selfn, 'bytes(%s)' % selfn, 'bytearray(%s)' % selfn)


# ------------------------------------------------------------------------------------------------ text / binary classifier
ARMOR_TEXT = frozenset(range(0x20, 0x7F)) | frozenset([9, 10, 13])      # what armored text is made of: printable ASCII, TAB, CR, LF


def accepted_alphabet(node, consts, owners):
    """Set of code points c such that the classifier term accepts a text made of c's only, for a term of one of the forms
       bool(re.match(<^[set]*$>, x, ..)) / re.fullmatch / `.. is not None`        (the set of the pattern)
       len(x.translate(None, TABLE)) == 0 / not x.translate(None, TABLE)            (the octets of the delete table)
       x.isascii()                                                                  (0..127)
       all(v in COLLECTION for v in x)
    else None."""
    node = T.subst_class_constants(node, consts, owners)
    for pat in ('bool(_M)', '_M is not None', '_M != None'):
        m = T.match(node, pat)
        if m is not None:
            node = m['_M']
            break
    m = T.match_any(node, ['re.match(_P, _X, flags=_F)', 're.match(_P, _X)', 're.fullmatch(_P, _X, flags=_F)', 're.fullmatch(_P, _X)',
                           're.search(_P, _X, flags=_F)', 're.search(_P, _X)'])
    if m is not None:
        try:
            pat = T.const_eval(m['_P'])
        except T.NotConstant:
            return None
        if not isinstance(pat, (str, bytes)):
            return None
        try:
            tree, p = regexast.norm_pattern(pat, flags_of(m.get('_F')))
        except (regexast.Unsupported, re.error):
            return None
        full = T.show(node.func) == 're.fullmatch'
        core = [nd for nd in tree if nd[0] != 'at']
        ats = [nd[1] for nd in tree if nd[0] == 'at']
        anchored_end = full or (tree and tree[-1][0] == 'at' and tree[-1][1] in ('AT_END', 'AT_END_STRING'))
        anchored_start = full or T.show(node.func) == 're.match' or (tree and tree[0][0] == 'at' and tree[0][1] in ('AT_BEGINNING', 'AT_BEGINNING_STRING'))
        if len(core) == 1 and core[0][0] == 'rep' and core[0][2] is None and len(core[0][4]) == 1 and core[0][4][0][0] == 'set' and \
                anchored_end and anchored_start and len(ats) <= 2:
            return frozenset(core[0][4][0][1])
        return None
    for pat in ('len(_X.translate(None, _T)) == 0', 'not _X.translate(None, _T)', 'not len(_X.translate(None, _T))', '_X.translate(None, _T) == C(\'\')',
                '0 == len(_X.translate(None, _T))'):
        m = T.match(node, pat)
        if m is not None:
            try:
                tab = T.const_eval(m['_T'])
            except T.NotConstant:
                return None
            return frozenset(tab) if isinstance(tab, (bytes, tuple)) and all(type(c) is int for c in tab) else None
    if T.match(node, '_X.isascii()') is not None:
        return frozenset(range(128))
    c = T.each(T.match(node, 'all(_G)')['_G']) if T.match(node, 'all(_G)') is not None else None
    if c is not None and len(c[3]) == 1 and isinstance(c[0], ast.Name) and not c[2]:
        m = T.match(c[3][0], '_V in _S')
        if m is not None and T.same(m['_V'], c[0]):
            try:
                coll = T.const_eval(m['_S'])
            except T.NotConstant:
                return None
            if isinstance(coll, (bytes, tuple, str)):
                return frozenset(ord(x) if isinstance(x, str) else x for x in coll)
    return None


def evaluated_alphabet(prog, f, kind):
    """The same alphabet by the finite-point evaluator: the code points c for which is_ascii of the one-character and of a three-character
    text of c's is true (the two must agree, and the empty text and a mixed text of accepted characters must be accepted), else None."""
    from sa import ceval
    ev = ceval.Evaluator(prog, budget=2000000)

    def run(cps):
        data = ''.join(chr(c) for c in cps) if kind == 'str' else bytes(cps) if kind == 'bytes' else ceval.VBuf(bytes(cps))
        ev.reset()
        try:
            r = ev.call(f, None, args=(data,))
        except (ceval.NoEval, ceval.Raised, ceval.Diverged):
            return None
        return r if isinstance(r, bool) else None
    acc = set()
    for c in range(256):
        one, three = run([c]), run([c, c, c])
        if one is None or three is None or one != three:
            return None
        if one:
            acc.add(c)
    if kind == 'str':
        for c, tag in ((0x100, OTHER_CP), (0x20AC, OTHER_CP)):
            r = run([c])
            if r is None:
                return None
            if r:
                acc.add(tag)
    if run([]) is not True or (acc and run(sorted(x for x in acc if x < 256)) is not True):
        return None
    return frozenset(acc)


OTHER_CP = 256


def classifier(rep, prog, A):
    """Armorable.is_ascii decides whether input is armored text or binary packet data.  It must give the same answer for the same
    characters whether they arrive as str, bytes or bytearray, and must call text everything armored text can be made of."""
    f = A.methods.get('is_ascii')
    if f is None:
        raise AnalysisError('Armorable.is_ascii vanished')
    rep.saw(fn=f)
    p = _own_params(f)[0]
    consts = T.class_constants(A)
    alph = {}
    for kind in ('str', 'bytes', 'bytearray'):
        sets = set()
        for s in Interp(prog, Scenario(args={p: Sym(p, types={kind}, nonnull=True)}, inline=noinline)).run(f):
            if s.raised is not None:
                continue
            node = T.parse_term(render(s.ret))
            a = accepted_alphabet(node, consts, (A.name, 'cls')) if node is not None else None
            if a is None:
                a = evaluated_alphabet(prog, f, kind)
            if a is None:
                raise AnalysisError('Armorable.is_ascii (%s input): classifier has an unmodelled shape: %s' % (kind, render(s.ret)[:160]))
            sets.add(a)
        if len(sets) != 1:
            raise AnalysisError('Armorable.is_ascii (%s input): %d different classifiers on its paths' % (kind, len(sets)))
        alph[kind] = sets.pop()

    def show(cs):
        return ' '.join('%02x' % c for c in sorted(cs)) or 'nothing'
    # ... and every character the armor expression names explicitly (its literal characters and small classes; `.` stands for the text alphabet above)
    tree, _groups = armor_tree(A)
    grammar = set(ARMOR_TEXT)
    for nd in regexast.iter_nodes(tree):
        if nd[0] == 'set' and len(nd[1]) <= 100:
            grammar |= set(c for c in nd[1] if c < 256)
    for kind in ('str', 'bytes', 'bytearray'):
        missing = frozenset(grammar) - alph[kind]
        rep.check(not missing, 'C10.5', 'Armorable.is_ascii', '%s input: text alphabet misses %s' % (kind, show(missing)),
                  'every character armored text can contain (printable ASCII, TAB, CR, LF) must be classified as text, or the armor is parsed as binary packet data',
                  where=f.where, expected='20..7e 09 0a 0d', found='missing: %s' % show(missing), scenario=kind)
    for kind in ('bytes', 'bytearray'):
        diff = (alph['str'] ^ alph[kind]) & frozenset(range(256))
        rep.check(not diff, 'C10.5', 'Armorable.is_ascii', '%s vs str alphabet differs on %s' % (kind, show(diff)),
                  'the same armored text must be classified the same way whether it is given as str, bytes or bytearray', where=f.where,
                  expected='same alphabet', found='differs on: %s' % show(diff), scenario=kind)


# ------------------------------------------------------------------------------------------------ C10.1
def ref_crc24(octets):
    """RFC 4880 6.1, transcribed."""
    crc = 0xB704CE
    for o in octets:
        crc ^= o << 16
        for _ in range(8):
            crc <<= 1
            if crc & 0x1000000:
                crc ^= 0x1864CFB
    return crc & 0xFFFFFF


def fold_crc(prog, f, octets, kind):
    """Value the interpreter folds Armorable.crc24 to on a concrete octet string of the given python type (nothing is executed:
    the loops are unrolled over constants by the checker's evaluator).  None if the body does not fold to one integer."""
    ps = _own_params(f)
    if len(ps) < 1:
        raise AnalysisError('Armorable.crc24 takes no data argument')
    p = ps[0]
    data = Const({'bytes': bytes, 'bytearray': bytearray}[kind](octets))
    vals = [Const(o) for o in octets]
    t = render(data)
    unroll = {}
    for k in (t, 'iter(%s)' % t, 'bytearray(%s)' % t, 'bytes(%s)' % t, 'memoryview(%s)' % t, 'list(%s)' % t):
        unroll[k] = vals
    sc = Scenario(args={p: data}, unroll=unroll, inline=noinline)
    try:
        outs = [s for s in Interp(prog, sc).run(f)]
    except AnalysisError:
        return None
    if len(outs) != 1 or outs[0].raised is not None or not isinstance(outs[0].ret, Const) or isinstance(outs[0].ret.value, bool) or \
            not isinstance(outs[0].ret.value, int):
        return None
    return outs[0].ret.value


def eval_crc(prog, f, octets, kind, ev):
    """The same value by the finite-point evaluator (sa/ceval.py), for bodies the term interpreter does not fold (a lookup table built
    in the class body or on first use, helpers with name-mangled names, default arguments).  None if that is outside its subset too."""
    from sa import ceval
    data = bytes(octets) if kind == 'bytes' else ceval.VBuf(bytes(octets))
    try:
        r = ev.call(f, None, args=(data,))
    except (ceval.NoEval, ceval.Raised, ceval.Diverged):
        return None
    return r if type(r) is int else None


def crc(rep, prog, A):
    f = A.methods.get('crc24')
    if f is None:
        raise AnalysisError('Armorable.crc24 vanished')
    rep.saw(fn=f)
    # the named constants, where the class still has them (their use is decided by the folding below)
    for name, want, what in (('__crc24_init', 0xB704CE, 'initial value'), ('__crc24_poly', 0x1864CFB, 'generator')):
        v = A.attrs.get(name)
        if v is None:
            continue
        try:
            val = ast.literal_eval(v)
        except Exception:
            continue
        rep.check(val == want, 'C10.1', 'Armorable.%s' % name, hex(val) if isinstance(val, int) else repr(val),
                  'CRC-24 %s is %s (RFC 4880 6.1)' % (what, hex(want)), where=A.where, expected=hex(want), found=hex(val) if isinstance(val, int) else val)
    vectors = [('empty input', [[]]),
               ('every one-octet input', [[o] for o in range(256)]),
               ('two-octet inputs', [[0, 0], [0, 1], [1, 0], [0x80, 0], [0xff, 0xff], [0xa5, 0x5a], [0x12, 0x34]]),
               ('"123456789" (check value 0x21CF02)', [list(b'123456789')]),
               ('twelve octets', [[0xff] * 12, [0] * 12, list(range(0xf4, 0x100))]),
               # inputs that drive the RFC register through its boundary states: all zero, exactly 0x1000000 after a shift (only bit 24
               # set), 0x1FFFFFE (all ones shifted), 0x800000 / 0x7FFFFF before a shift - where a comparison differs from a bit test
               ('register boundary states', [list(bytes.fromhex(h)) for h in ('b704ce', 'b704ce80', 'b704ce00', '7422b300', 'f55af600', '367c8b00',
                                                                              '71e68780', '15b18d00', 'd697f000', 'b7044e')])]
    if ref_crc24(b'123456789') != 0x21CF02:     # pragma: no cover   (the checker's own transcription of the RFC)
        raise AnalysisError('checker-side CRC-24 reference is wrong')
    from sa import ceval
    evaluator = ceval.Evaluator(prog, budget=4000000)
    use_eval = {}
    for kind in ('bytearray', 'bytes'):
        for title, inputs in vectors:
            bad = None
            for octets in inputs:
                got = None if use_eval.get(kind) else fold_crc(prog, f, octets, kind)
                if got is None:
                    evaluator.reset()
                    got = eval_crc(prog, f, octets, kind, evaluator)
                    use_eval[kind] = got is not None
                if got is None:
                    raise AnalysisError('Armorable.crc24 does not fold to an integer on %s input %s: unmodelled shape' % (kind, bytes(octets).hex()))
                if got != ref_crc24(octets):
                    bad = (octets, got)
                    break
            rep.check(bad is None, 'C10.1', 'Armorable.crc24', '%s (%s)' % (title, kind),
                      'crc24 must equal the RFC 4880 6.1 CRC-24 (init 0xB704CE; each octet xored in at bit 16; eight rounds of shift-left '
                      'and conditional xor with 0x1864CFB on bit 24; result masked to 24 bits)', where=f.where,
                      expected=bad and 'crc24(%s) = %s' % (bytes(bad[0]).hex() or "b''", hex(ref_crc24(bad[0]))),
                      found=bad and hex(bad[1]), scenario='%s/%s' % (kind, title))


# ------------------------------------------------------------------------------------------------ C10.2 / C10.3 / C10.7 writer
ARMOR_LAYOUT = re.compile(r'^-----BEGIN PGP (?P<l1>[^\n]*?)-----\n(?P<hdr>.*?)\n(?P<body>.*?)\n=(?P<crc>[^\n]*?)\n-----END PGP (?P<l2>[^\n]*?)-----\n$', re.S)


def _sub(table, s):
    """Pieces of a substring of a layout string."""
    out = []
    for ch in s:
        if ch in table:
            out.append(table[ch])
        elif out and out[-1][0] == 'L':
            out[-1] = ('L', out[-1][1] + ch)
        else:
            out.append(('L', ch))
    return out


def _chunk_width(pattern):
    """n if re.findall(pattern, text) cuts a text without line feeds into consecutive pieces of n characters (last one shorter): .{1,n} greedy."""
    try:
        tree, p = regexast.norm_pattern(pattern, 0)
    except (regexast.Unsupported, re.error):
        return None
    if p.state.groups != 1 or len(tree) != 1 or tree[0][0] != 'rep' or tree[0][1] != 1 or tree[0][2] is None or not tree[0][3]:
        return None
    inner = tree[0][4]
    b64 = frozenset(ord(c) for c in 'ABCDEFGHIJKLMNOPQRSTUVWXYZabcdefghijklmnopqrstuvwxyz0123456789+/=')
    if len(inner) == 1 and inner[0][0] == 'set' and b64 <= inner[0][1]:
        return tree[0][2]
    return None


def _through_generator(prog, A, selfn, ps):
    """A piece that is `sep.join(self.helper())` with `helper` a generator method an edit introduced: the pieces of sep.join(<what it yields>)."""
    if not (len(ps) == 1 and ps[0][0] == 'V'):
        return ps
    node = ps[0][1]
    if not (isinstance(node, ast.Call) and isinstance(node.func, ast.Attribute) and node.func.attr == 'join' and isinstance(node.func.value, ast.Constant) and
            len(node.args) == 1 and isinstance(node.args[0], ast.Call) and isinstance(node.args[0].func, ast.Attribute) and not node.args[0].args and
            T.show(node.args[0].func.value) == selfn):
        return ps
    h = A.find_method(node.args[0].func.attr) if hasattr(A, 'find_method') else A.methods.get(node.args[0].func.attr)
    if h is None or h.name in _VOCAB_FUNCS or not any(isinstance(n, (ast.Yield, ast.YieldFrom)) for n in ast.walk(h.node)):
        return ps
    outs = [s for s in Interp(prog, Scenario(inline=noinline)).run(h) if s.raised is None]
    ys = set(tuple(render(y) for y in s.yields) for s in outs)
    if len(ys) != 1:
        return ps
    text = '%r.join([%s])' % (node.func.value.value, ', '.join(ys.pop()))
    got = T.pieces(text)
    return got if got else ps


def writer(rep, prog, A):
    f = A.methods.get('__str__')
    if f is None:
        raise AnalysisError('Armorable.__str__ vanished')
    rep.saw(fn=f)
    selfn = _receiver(f)
    sep_seen = None
    width_seen = None
    paths = [s for s in Interp(prog, Scenario(inline=noinline)).run(f) if s.raised is None]
    if not paths:
        raise AnalysisError('Armorable.__str__: no returning path')
    consts = T.class_constants(A)
    for s in paths:
        node = T.parse_term(render(s.ret))
        if node is not None:
            node = T.subst_class_constants(node, consts, owners=(selfn, A.name, 'cls'))
        ps = T.pieces(node if node is not None else render(s.ret))
        if len(ps) == 1 and ps[0][0] == 'V' and isinstance(ps[0][1], (ast.Attribute, ast.Subscript)) and \
                any(isinstance(n, ast.Name) and n.id == selfn for n in ast.walk(ps[0][1])) and not any(isinstance(n, ast.Call) for n in ast.walk(ps[0][1])):
            # a remembered rendering is handed back: it is the text of the object now only if whatever decides the reuse covers everything the
            # template reads - the label, the binary export and the armor headers
            guard = ' '.join(t for t, v, sk in s.facts)
            covers = '%s.ascii_headers' % selfn in guard and '%s.magic' % selfn in guard and \
                ('%s.__bytearray__()' % selfn in guard or 'bytes(%s)' % selfn in guard)
            rep.check(covers, 'C10.7', 'Armorable.__str__', 'remembered rendering %s reused' % T.show(ps[0][1]),
                      'the armored text is a function of the label, the payload AND the armor headers at the time of the call: a cache whose key leaves out '
                      'ascii_headers hands back a text without the headers supplied since', where=f.where,
                      expected='reuse decided on (magic, export, ascii_headers)', found=guard[:300])
            continue
        if len(ps) == 1 and ps[0][0] == 'V':
            raise AnalysisError('Armorable.__str__: the returned text is not built from literals the checker can read: %s' % render(s.ret)[:120])
        text, table = T.layout(ps)
        m = ARMOR_LAYOUT.match(text)
        shown = T.show_pieces(ps)
        if not rep.check(m is not None, 'C10.2', 'Armorable.__str__', 'layout %s' % shown[:160],
                         'an armored block is: BEGIN line, headers, blank line, payload, "=" + CRC, END line', where=f.where,
                         expected="'-----BEGIN PGP ' <label> '-----\\n' <headers> '\\n' <payload> '\\n=' <crc> '\\n-----END PGP ' <label> '-----\\n'", found=shown):
            continue
        l1, l2 = _sub(table, m.group('l1')), _sub(table, m.group('l2'))
        rep.check(T.show_pieces(l1) == T.show_pieces(l2), 'C10.2', 'Armorable.__str__', 'BEGIN label %s END label %s' % (T.show_pieces(l1), T.show_pieces(l2)),
                  'header and tail lines carry the same block label', where=f.where, expected=T.show_pieces(l1), found=T.show_pieces(l2))
        rep.check(len(l1) == 1 and l1[0][0] == 'V' and T.show(l1[0][1]) == '%s.magic' % selfn, 'C10.2', 'Armorable.__str__', 'label %s' % T.show_pieces(l1),
                  'the label is the object\'s own magic', where=f.where, expected='%s.magic' % selfn, found=T.show_pieces(l1))
        # ---- payload: base64 of the binary export, wrapped
        body = _sub(table, m.group('body'))
        P = W = None
        if len(body) == 1 and body[0][0] == 'J' and body[0][1] == '\n' and len(body[0][4]) == 1 and body[0][4][0][0] == 'V':
            _, _, var, coll, inner = body[0]
            sm = T.match(inner[0][1], 'SLICE(_P, _I, _I + _W)')
            cm = T.match_any(coll, ['range(0, len(_Q), _S)', 'range(len(_Q))'])
            if sm is not None and cm is not None and isinstance(var, ast.Name) and T.same(sm['_I'], var) and \
                    isinstance(sm['_W'], ast.Constant) and isinstance(cm.get('_S', ast.Constant(value=1)), ast.Constant):
                P, W, Q, S = sm['_P'], sm['_W'].value, cm['_Q'], cm.get('_S', ast.Constant(value=1)).value
        if P is None and len(body) == 1 and body[0][0] == 'J' and body[0][1] == '\n' and len(body[0][4]) == 1 and body[0][4][0][0] == 'V':
            # the export encoded piece by piece: base64(a + b) == base64(a) + base64(b) exactly when len(a) is a multiple of 3 (otherwise the
            # first piece ends in '=' padding in the middle of the body).  Either every piece is one line, or each piece's text is cut into lines.
            _, _, var, coll, inner = body[0]
            piece, cols = inner[0][1], None
            e2 = T.each(piece)
            if e2 is not None and len(e2[3]) == 1 and not e2[2] and isinstance(e2[0], ast.Name):
                lm = T.match(e2[3][0], 'SLICE(_B, _J, _J + _W)')
                rm2 = T.match(e2[1], 'range(0, len(_B2), _S2)')
                if lm is not None and rm2 is not None and T.same(lm['_J'], e2[0]) and T.same(lm['_B'], rm2['_B2']) and \
                        isinstance(lm['_W'], ast.Constant) and isinstance(rm2['_S2'], ast.Constant):
                    piece, cols = lm['_B'], (lm['_W'].value, rm2['_S2'].value)
            E = b64text_of(piece)
            sm = T.match(E, 'SLICE(_P, _I, _I + _W)') if E is not None else None
            cm = T.match(coll, 'range(0, len(_Q), _S)')
            if sm is not None and cm is not None and isinstance(var, ast.Name) and T.same(sm['_I'], var) and isinstance(sm['_W'], ast.Constant) and \
                    isinstance(cm['_S'], ast.Constant) and type(sm['_W'].value) is int and type(cm['_S'].value) is int and sm['_W'].value > 0:
                K, KS = sm['_W'].value, cm['_S'].value
                okk = rep.check(K % 3 == 0 and K == KS and is_export(sm['_P'], selfn) and T.same(sm['_P'], cm['_Q']), 'C10.2', 'Armorable.__str__',
                                'payload encoded in pieces of %d octets (step %d) of %s' % (K, KS, T.show(sm['_P'])),
                                'a payload encoded piece by piece is the base64 of the whole export only if every piece but the last has a length divisible '
                                'by 3 (no "=" padding inside the body) and the pieces cover the export without gap or overlap', where=f.where,
                                expected='piece size divisible by 3, step = size', found='size %d, step %d' % (K, KS))
                if not okk:
                    continue
                b64 = T.parse_term("base64.b64encode(%s).decode('latin-1')" % T.show(sm['_P']).replace('$', '_B'))
                if cols is None:
                    P, Q, W, S = b64, b64, K // 3 * 4, KS // 3 * 4
                else:
                    P, Q, W, S = b64, b64, cols[0], cols[1]
        if P is None and len(body) == 1 and body[0][0] == 'V':
            rm = T.match(body[0][1], "'\\n'.join(re.findall(_R, _P))")
            if rm is not None and isinstance(rm['_R'], ast.Constant) and isinstance(rm['_R'].value, str):
                w = _chunk_width(rm['_R'].value)
                if w is not None:
                    P, W, Q, S = rm['_P'], w, rm['_P'], w
        if P is None and len(body) == 1 and body[0][0] == 'V':
            # the stdlib line wrappers: on a text without blanks they cut exactly every `width` characters
            tm = T.match_any(body[0][1], ["'\\n'.join(textwrap.wrap(_P, _W))", "'\\n'.join(textwrap.wrap(_P, width=_W))", "textwrap.fill(_P, _W)",
                                          "textwrap.fill(_P, width=_W)"])
            if tm is not None and isinstance(tm['_W'], ast.Constant):
                P, W, Q, S = tm['_P'], tm['_W'].value, tm['_P'], tm['_W'].value
        if P is None:
            unwrapped = len(body) == 1 and body[0][0] == 'V' and b64text_of(body[0][1]) is not None
            if unwrapped:
                rep.violation('C10.3', 'Armorable.__str__', 'payload is not wrapped', 'the base64 payload must be cut into lines of at most 76 characters',
                              where=f.where, found=T.show_pieces(body))
                continue
            raise AnalysisError('Armorable.__str__: payload line wrapping has an unmodelled shape: %s' % T.show_pieces(body)[:200])
        X = b64text_of(P)
        rep.check(X is not None and is_export(X, selfn) and T.same(P, Q), 'C10.2', 'Armorable.__str__', 'payload = %s' % T.show(P)[:90],
                  'the payload is the base64 of the binary export the CRC is computed over, and the wrap runs over its whole length', where=f.where,
                  expected='base64 text of %s.__bytes__()' % selfn, found='lines of %s over len(%s)' % (T.show(P), T.show(Q)))
        rep.check(isinstance(W, int) and W == S and 0 < W <= 76 and W % 4 == 0, 'C10.3', 'Armorable.__str__', 'line width %s step %s' % (W, S),
                  'lines must be at most 76 characters and cut on a base64 quantum; step and width must agree (no octet lost or repeated)',
                  where=f.where, expected='<= 76', found=(W, S))
        if isinstance(W, int) and 0 < W <= 400 and W % 4 == 0:
            width_seen = W
        # ---- checksum
        crcp = _sub(table, m.group('crc'))
        shown_crc = T.show_pieces(crcp)
        Y = b64text_of(crcp[0][1]) if len(crcp) == 1 and crcp[0][0] == 'V' else None
        im = T.match_any(Y, ['INT(_N, _C)', "_C.to_bytes(_N, 'big')", "_C.to_bytes(_N, byteorder='big')", "_C.to_bytes(length=_N, byteorder='big')",
                             "int_to_bytes(_C, _N, 'big')"]) if Y is not None else None
        enc = other_encoding(crcp[0][1]) if len(crcp) == 1 and crcp[0][0] == 'V' else None
        cm = im and T.match_any(im['_C'], ['_R.crc24(_D)', 'crc24(_D)'])
        if Y is None and enc is not None:
            rep.violation('C10.2', 'Armorable.__str__', 'crc = %s' % shown_crc, 'the checksum is written in radix-64 (RFC 4648 base64, standard alphabet), not %s' % enc,
                          where=f.where, expected='b64encode(int_to_bytes(crc24(bytes(self)), 3))', found=shown_crc)
        elif Y is not None and im is None and not _calls_named(Y, ('crc24',)):
            rep.violation('C10.2', 'Armorable.__str__', 'crc = %s' % shown_crc, 'the checksum line must carry the CRC-24 of the binary export', where=f.where,
                          expected='b64encode(int_to_bytes(crc24(bytes(self)), 3))', found=shown_crc)
        elif im is not None and not (isinstance(im['_N'], ast.Constant) and im['_N'].value == 3):
            rep.violation('C10.2', 'Armorable.__str__', 'crc = %s' % shown_crc, 'the CRC-24 must be written as exactly three octets (leading zero octets kept)',
                          where=f.where, expected='b64encode(int_to_bytes(crc24(bytes(self)), 3))', found=shown_crc)
        elif im is not None and not cm and (_calls_named(im['_C'], ('crc24',)) or isinstance(im['_C'], (ast.Name, ast.Attribute, ast.Constant))):
            rep.violation('C10.2', 'Armorable.__str__', 'crc = %s' % shown_crc, 'the checksum must be crc24 of the whole binary export in one piece',
                          where=f.where, expected='b64encode(int_to_bytes(crc24(bytes(self)), 3))', found=shown_crc)
        elif Y is None or im is None or not cm:
            raise AnalysisError('Armorable.__str__: checksum has an unmodelled shape: %s' % shown_crc[:200])
        else:
            n = im['_N'].value if isinstance(im['_N'], ast.Constant) else None
            rep.check(n == 3 and is_export(cm['_D'], selfn), 'C10.2', 'Armorable.__str__', 'crc = %s' % shown_crc,
                      'the checksum is the CRC-24 of the binary export, written as exactly three octets (leading zero octets kept), base64 encoded',
                      where=f.where, expected="b64encode(int_to_bytes(crc24(bytes(self)), 3))", found=shown_crc)
        # ---- header lines
        hdr = _sub(table, m.group('hdr'))
        hdr = _through_generator(prog, A, selfn, hdr)
        ok, why = False, None
        if len(hdr) == 1 and hdr[0][0] == 'V' and isinstance(hdr[0][1], ast.Call) and isinstance(hdr[0][1].func, ast.Attribute) and \
                hdr[0][1].func.attr == 'join' and len(hdr[0][1].args) == 1 and isinstance(hdr[0][1].args[0], (ast.GeneratorExp, ast.ListComp)) and \
                len(hdr[0][1].args[0].generators) > 1 and '%s.ascii_headers' % selfn in T.show(hdr[0][1].args[0].generators[0].iter):
            rep.violation('C10.7', 'Armorable.__str__', 'several lines per header: %s' % T.show_pieces(hdr)[:100],
                          'each supplied armor header is written as exactly one "key: value" line (the reader takes every line as a header of its own: '
                          'a value continued on further lines comes back as a different value)', where=f.where,
                          expected="one line per item of ascii_headers", found=T.show_pieces(hdr)[:300])
            continue
        if len(hdr) == 1 and hdr[0][0] == 'J' and len(hdr[0][4]) == 1 and hdr[0][4][0][0] == 'V' and T.each(hdr[0][4][0][1]) is not None and \
                '%s.ascii_headers' % selfn in T.show(hdr[0][3]):
            rep.violation('C10.7', 'Armorable.__str__', 'several lines per header: %s' % T.show_pieces(hdr)[:100],
                          'each supplied armor header is written as exactly one "key: value" line (the reader takes every line as a header of its own: '
                          'a value continued on further lines comes back as a different value)', where=f.where,
                          expected="one line per item of ascii_headers", found=T.show_pieces(hdr)[:300])
            continue
        if len(hdr) == 1 and hdr[0][0] == 'J':
            _, jsep, var, coll, inner = hdr[0]
            itext, itable = T.layout(inner)
            hm = re.match(r'^(%s)([^\n%s]*)(%s)(\n?)$' % (T.PH, T.PH[1:-1], T.PH), itext)
            D = '%s.ascii_headers' % selfn
            want = None
            if isinstance(var, ast.Tuple) and len(var.elts) == 2 and T.show(coll) == D + '.items()':
                want = list(var.elts)
            elif isinstance(var, ast.Name) and T.show(coll) == D + '.items()':
                want = [ast.Subscript(value=var, slice=ast.Constant(value=i), ctx=ast.Load()) for i in (0, 1)]
            elif isinstance(var, ast.Name) and T.show(coll) in (D, D + '.keys()', 'list(%s)' % D, 'iter(%s)' % D):
                want = [var, ast.Subscript(value=T.parse_term(D), slice=var, ctx=ast.Load())]
            if hm is not None and want is None and D in T.show(coll):
                rep.violation('C10.7', 'Armorable.__str__', 'headers over %s' % T.show(coll), 'every supplied armor header is written, in the order supplied '
                              '(no filter, dedup, sort or truncation of ascii_headers)', where=f.where, expected=D + '.items()', found=T.show(coll))
                continue
            if hm is None or want is None or not all(itable[hm.group(i)][0] == 'V' for i in (1, 3)):
                raise AnalysisError('Armorable.__str__: armor header lines have an unmodelled shape: %s' % T.show_pieces(hdr)[:200])
            got = [T.show(ast.Tuple(elts=[var, itable[hm.group(i)][1]], ctx=ast.Load())) for i in (1, 3)]     # each slot as a function of the loop variable(s)
            exp = [T.show(ast.Tuple(elts=[var, e], ctx=ast.Load())) for e in want]
            sep_seen = hm.group(2)
            ok = got == exp and jsep == '' and hm.group(4) == '\n' and sep_seen == ': '
        elif not (len(hdr) == 1 and hdr[0][0] == 'L'):
            raise AnalysisError('Armorable.__str__: armor header lines have an unmodelled shape: %s' % T.show_pieces(hdr)[:200])
        rep.check(ok, 'C10.7', 'Armorable.__str__', 'headers %s' % T.show_pieces(hdr)[:120],
                  'each supplied armor header is written as "key: value" on its own line', where=f.where,
                  expected="''.join(<key> ': ' <value> '\\n' for key, value in self.ascii_headers.items())", found=T.show_pieces(hdr))
    # reader's crc group: exactly 4 base64 characters after '='
    crcl = group_lang(A, 'crc')
    ok = crcl is not None and regexast.lang_equal(crcl, regexast.Lang.of(B64 + '{4}'))
    rep.check(ok, 'C10.2', 'Armorable.__armor_regex', 'crc group', 'the checksum line is "=" followed by exactly four base64 characters (24 bits)',
              where=A.where, expected='[A-Za-z0-9+/]{4}')
    # reader accepts every body the writer can produce: W-character lines, a last line of 4..W characters with at most two pads
    if width_seen is not None:
        w = width_seen
        produced = regexast.Lang.of(r'(?:%s{%d}\n)*(?:%s{4}){0,%d}(?:%s{4}|%s{3}=|%s{2}==)\n' % (B64, w, B64, w // 4 - 1, B64, B64, B64))
        bl = group_lang(A, 'body')
        wit = produced.witness_not_in(bl) if bl is not None else []
        rep.check(bl is not None and wit is None, 'C10.3', 'Armorable.__armor_regex', 'reader body language includes %d-column lines' % w,
                  'the reader must accept every line length the writer produces', where=A.where, expected='every body made of %d-character lines' % w,
                  found=None if wit is None else 'not accepted: %r' % regexast.show_word(wit))
    # ... and every body another RFC 4880 encoder can produce (6.3: lines of up to 76 characters)
    bl = group_lang(A, 'body')
    rfc = regexast.Lang.of(r'(?:%s{76}\n)*(?:%s{4}){0,18}(?:%s{4}|%s{3}=|%s{2}==)\n' % (B64, B64, B64, B64, B64))
    wit = rfc.witness_not_in(bl) if bl is not None else []
    rep.check(bl is not None and wit is None, 'C10.3', 'Armorable.__armor_regex', 'reader body language includes 76-column lines',
              'the reader must accept armor lines of up to 76 characters (RFC 4880 6.3), whatever width the writer itself uses', where=A.where,
              expected='[A-Za-z0-9+/]{1,76} per line', found=None if wit is None else 'not accepted: %r' % regexast.show_word(wit))
    # ... with either line ending on EVERY line (armor that went through mail / a CR LF platform), for bodies of one and of several lines
    for w in sorted(set([76] + ([width_seen] if width_seen else []))):
        crlf = regexast.Lang.of(r'(?:%s{%d}\r\n)*(?:%s{4}){0,%d}(?:%s{4}|%s{3}=|%s{2}==)\r\n' % (B64, w, B64, w // 4 - 1, B64, B64, B64))
        wit = crlf.witness_not_in(bl) if bl is not None else []
        rep.check(bl is not None and wit is None, 'C10.3', 'Armorable.__armor_regex', 'reader body language includes CR LF ended %d-column lines' % w,
                  'every body line may end in CR LF as well as LF, also the lines before the last one', where=A.where,
                  expected='(?:\\r?\\n) after every line', found=None if wit is None else 'not accepted: %r' % regexast.show_word(wit))
    return sep_seen


# ------------------------------------------------------------------------------------------------ C10.4
def _label(s):
    """The literal text a path returns, or None."""
    if s.raised is not None or s.ret is None:
        return None
    ps = T.pieces(T.fold(T.parse_term(render(s.ret))) or render(s.ret))
    if len(ps) == 1 and ps[0][0] == 'L':
        return ps[0][1]
    if not ps:
        return ''
    return None


def labels(rep, prog):
    m = prog.method('pgpy.pgp', 'PGPSignature', 'magic')
    for s in Interp(prog, Scenario(inline=noinline)).run(m):
        rep.check(_label(s) == 'SIGNATURE', 'C10.4', 'PGPSignature.magic', render(s.ret), 'a detached signature is a PGP SIGNATURE block', where=m.where,
                  expected='SIGNATURE', found=render(s.ret))
    m = prog.method('pgpy.pgp', 'PGPMessage', 'magic')
    selfn = _receiver(m)
    for t, lab in (('cleartext', 'SIGNATURE'), ('literal', 'MESSAGE'), ('encrypted', 'MESSAGE')):
        for s in Interp(prog, Scenario(bind={'%s.type' % selfn: Const(t)}, inline=noinline)).run(m):
            rep.check(_label(s) == lab, 'C10.4', 'PGPMessage.magic', '%s -> %s' % (t, render(s.ret)),
                      'a %s message is armored as PGP %s' % (t, lab), where=m.where, expected=lab, found=render(s.ret), scenario=t)
    m = prog.method('pgpy.pgp', 'PGPKey', 'magic')
    selfn = _receiver(m)
    for kcls, lab in (('PubKeyV4', 'PUBLIC KEY BLOCK'), ('PubSubKeyV4', 'PUBLIC KEY BLOCK'), ('PrivKeyV4', 'PRIVATE KEY BLOCK'), ('PrivSubKeyV4', 'PRIVATE KEY BLOCK'),
                      (None, ' KEY BLOCK')):          # an object without key material is neither
        if kcls is not None and not prog.classes_by_name.get(kcls):
            raise AnalysisError('key packet class %s vanished' % kcls)
        key = Sym('%s._key' % selfn, types={kcls}, nonnull=True) if kcls is not None else Const(None)
        # the kind of the key packet may be asked through the object's own predicates (is_public ...): they are followed, not assumed
        kprops = set(n for n in ('is_public', 'is_primary', 'is_protected', 'is_unlocked') if prog.cls('pgpy.pgp', 'PGPKey').find_plain_prop(n) or
                     prog.cls('pgpy.pgp', 'PGPKey').find_prop(n))
        outs = Interp(prog, Scenario(bind={'%s._key' % selfn: key}, inline=lambda fi: noinline(fi) or fi.name == 'is_public', inline_props=kprops)).run(m)
        got = sorted(set(str(_label(s)) for s in outs))
        rep.check(got == [lab], 'C10.4', 'PGPKey.magic', '%s -> %s' % (kcls, got),
                  'keys are armored as PGP PUBLIC KEY BLOCK / PGP PRIVATE KEY BLOCK by the kind of their key packet', where=m.where,
                  expected=lab, found=[render(s.ret) for s in outs], scenario=kcls)


# ------------------------------------------------------------------------------------------------ C10.5
def unarmor_call(prog, f):
    """Rendered text of the ascii_unarmor(...) call of a parse method (found on the paths, not in the source)."""
    hits = set()
    for s in Interp(prog, Scenario(inline=noinline)).run(f):
        for c in s.calls:
            if c[0].split('.')[-1] == 'ascii_unarmor' and len(c[1]) == 1:
                hits.add('%s(%s)' % (c[0], c[1][0]))
    if len(hits) != 1:
        raise AnalysisError('%s: expected exactly one ascii_unarmor call, found %s' % (f.qualname, sorted(hits)))
    return hits.pop()


def _consumes(prog, f, s):
    """Does the path take anything from the data before it ends (packet constructed, object composed, state stored)?"""
    selfn = _receiver(f)
    for e in s.events:
        if e[0] == 'ior':
            return True
        if e[0] == 'store' and e[1].startswith('%s.' % selfn):
            return True
        if e[0] == 'call':
            last = e[1].split('.')[-1]
            if last in ('__or__', '__ior__', 'parse'):
                return True
            if re.match(r'^[A-Za-z_]\w*$', e[1]):
                r = prog.lookup(f.module, e[1])
                if hasattr(r, 'mro') and any(c.name == 'Packet' for c in r.mro()):
                    return True
    return False


def verdict_for_label(prog, f, ua, label, cleartext=None):
    """'reject' / 'accept' / 'depends' and the paths, for a block whose armor label is `label` (None: binary input)."""
    bind = {"%s['magic']" % ua: Const(label),
            "%s['cleartext']" % ua: cleartext if cleartext is not None else Sym("%s['cleartext']" % ua, nonnull=True)}
    outs = Interp(prog, Scenario(bind=bind, inline=noinline)).run(f)
    rej = [s for s in outs if s.raised is not None and not _consumes(prog, f, s)]
    if outs and len(rej) == len(outs):
        return 'reject', outs
    if not rej:
        return 'accept', outs
    return 'depends', outs


def _paths_shape(outs):
    return tuple(sorted((s.raised or '', tuple((t, v) for t, v, sk in s.facts)) for s in outs))


def _divergence(outs):
    """The first decision on which a rejecting and a non-rejecting path differ."""
    rej = [s for s in outs if s.raised is not None]
    acc = [s for s in outs if s.raised is None] or [s for s in outs if s not in rej]
    for a in rej:
        for b in acc:
            for (t1, v1, _), (t2, v2, _) in zip(a.facts, b.facts):
                if t1 != t2:
                    break
                if v1 != v2:
                    return t1
    return None


def _undecided_about(outs, label):
    """The decision that separates rejecting from accepting paths is about the (constant) label itself: the interpreter met a test
    on a known value it has no model for - an analysis gap, not a property of the code."""
    t = _divergence(outs)
    return t is not None and (repr(label) in t if label is not None else re.search(r'\bNone\b', t) is not None)


def require_traceable_label(cls, runs):
    """The scenarios pin the label the reader found (the 'magic' entry).  If the paths are the same whatever label is pinned although
    they do decide something about that entry, the code reads it by a route the interpreter does not follow: an analysis gap."""
    shapes = set(_paths_shape(outs) for v, outs in runs.values())
    if len(shapes) == 1:
        for v, outs in runs.values():
            for s in outs:
                for t, val, sk in s.facts:
                    if "'magic'" in t or '"magic"' in t:
                        raise AnalysisError('%s.parse: the armor label is read in a way the checker cannot follow: %s' % (cls, t[:200]))


def kind_checks(rep, prog):
    cases = {
        'PGPSignature': {'SIGNATURE': True, 'MESSAGE': False, 'PUBLIC KEY BLOCK': False, 'PRIVATE KEY BLOCK': False},
        'PGPMessage': {'SIGNATURE': True, 'MESSAGE': True, 'PUBLIC KEY BLOCK': False, 'PRIVATE KEY BLOCK': False},
        'PGPKey': {'SIGNATURE': False, 'MESSAGE': False, 'PUBLIC KEY BLOCK': True, 'PRIVATE KEY BLOCK': True},
    }
    # labels of no kind at all, chosen next to the real ones (a part of one, one with a letter more, a word of one): nobody may accept them
    for table in cases.values():
        for bogus in ('ARMORED FILE', 'ARMORED BLOCK', 'MESSAGES', 'SIGNATURES', 'SIGN', 'MESS', 'MESSAGE, PART 1/2', 'PUBLIC', 'BLOCK'):
            table[bogus] = False
        for other_case in ('Signature', 'message', 'Public Key Block', 'private key block'):      # labels are upper case: a match in another case is a different label
            table[other_case] = False
    for cls, table in cases.items():
        f = prog.method('pgpy.pgp', cls, 'parse')
        rep.saw(fn=f)
        ua = unarmor_call(prog, f)
        runs = {}
        for label, accept in list(table.items()) + [(None, True)]:
            runs[label] = verdict_for_label(prog, f, ua, label)
        require_traceable_label(cls, runs)
        for label, accept in list(table.items()) + [(None, True)]:
            v, outs = runs[label]
            scen = 'label %r' % (label,)
            if v == 'depends' and _undecided_about(outs, label):
                raise AnalysisError('%s.parse: the kind check is not decidable for label %r: %s' % (cls, label, _divergence(outs)))
            late = [s for s in outs if s.raised is not None and _consumes(prog, f, s)]
            found = {'reject': 'raise', 'accept': 'accepted', 'depends': 'raise on some paths only'}[v]
            if not accept and v == 'accept' and late and len(late) == len(outs):
                found = 'raises only after packets were consumed'
            rep.check(v == ('accept' if accept else 'reject'), 'C10.5', '%s.parse' % cls, '%s -> %s' % (scen, found),
                      '%s must %s a block labelled %r%s' % (cls, 'accept' if accept else 'reject', label, '' if accept else ' before any packet is consumed'),
                      where=f.where, expected='accept' if accept else 'raise ValueError', found=found, scenario=scen)
            if not accept and v == 'reject':
                kinds = sorted(set(s.raised.split('(')[0] for s in outs))
                rep.check(kinds == ['ValueError'], 'C10.5', '%s.parse' % cls, 'reaction %s' % kinds, 'a wrong kind is reported as ValueError',
                          where=f.where, expected='ValueError', found=kinds, scenario=scen)
    # what from_blob hands to parse is the caller's data, all of it and nothing else (no strip / slice / re-encoding of binary input)
    A = prog.cls('pgpy.types', 'Armorable')
    fb = A.methods.get('from_blob')
    if fb is None:
        raise AnalysisError('Armorable.from_blob vanished')
    bp = _own_params(fb)[0]
    for kind in ('bytes', 'bytearray', 'str'):
        handed = set()
        for s in Interp(prog, Scenario(args={bp: Sym(bp, types={kind}, nonnull=True)}, inline=noinline)).run(fb):
            for c in s.calls:
                if c[0].split('.')[-1] == 'parse' and c[1]:
                    handed.add(c[1][0])
        if not handed:
            raise AnalysisError('Armorable.from_blob: no parse call found for %s input' % kind)
        rep.check(handed == {bp}, 'C10.5', 'Armorable.from_blob', '%s input handed to parse as %s' % (kind, sorted(handed)),
                  'the data given to from_blob reaches parse unchanged (binary data may begin or end with any octet, also white space)', where=fb.where,
                  expected='bytearray(%s)' % bp, found=sorted(handed), scenario=kind)
    # a SIGNATURE block is a cleartext message only through its signed-message part
    f = prog.method('pgpy.pgp', 'PGPMessage', 'parse')
    ua = unarmor_call(prog, f)
    src = "%s['cleartext']" % ua
    v, outs = verdict_for_label(prog, f, ua, 'SIGNATURE')
    require_traceable_label('PGPMessage', {'SIGNATURE': (v, outs), 'MESSAGE': verdict_for_label(prog, f, ua, 'MESSAGE')})
    args = sorted(set(c[1][0] for s in outs for c in s.calls if c[0].split('.')[-1] == 'dash_unescape' and c[1]))
    rep.check(args == [src], 'C10.5', 'PGPMessage.parse', 'cleartext source %s' % args,
              'a SIGNATURE block is a cleartext message only through its signed-message preamble: the text must be that group, with no fallback',
              where=f.where, expected="self.dash_unescape(unarmored['cleartext'])", found=args)
    v, outs = verdict_for_label(prog, f, ua, 'SIGNATURE', cleartext=Const(None))
    bad = []
    for s in outs:
        if s.raised is not None and not _consumes(prog, f, s):
            continue
        a = [c[1][0] for c in s.calls if c[0].split('.')[-1] == 'dash_unescape' and c[1]]
        if a != ['None']:
            bad.append(a)
    rep.check(not bad, 'C10.5', 'PGPMessage.parse', 'SIGNATURE block without signed-message part: %s' % (bad[:2] or 'rejected'),
              'a detached signature block (no cleartext part) must not be read as a cleartext message with a made-up text', where=f.where,
              expected='dash_unescape(None) fails / explicit raise', found=bad[:3], scenario='label SIGNATURE, no cleartext group')
    # ... and the rejection the unchanged tree relies on is dash_unescape(None) FAILING (re.subn on None: TypeError): a dash_unescape that
    # answers None with a constant text turns every armored detached signature into an (empty) cleartext message (seeded change C10-w6mut2)
    du = prog.cls('pgpy.pgp', 'PGPMessage').methods.get('dash_unescape')
    if du is not None and not bad:
        rep.saw(fn=du)
        dp = [a for a in du.params if a not in ('self', 'cls')]
        made_up = []
        for s in Interp(prog, Scenario(args={dp[0]: Const(None)}, inline=noinline)).run(du) if dp else []:
            if s.raised is None and isinstance(s.ret, Const) and isinstance(s.ret.value, (str, bytes)):
                made_up.append(repr(s.ret.value))
        reaches_none = any(a == ['None'] for s in outs for a in [[c[1][0] for c in s.calls if c[0].split('.')[-1] == 'dash_unescape' and c[1]]])
        rep.check(not (made_up and reaches_none), 'C10.5', 'PGPMessage.dash_unescape', 'absent cleartext part -> %s' % (made_up or 'fails'),
                  'PGPMessage.parse hands the absent signed-message part of a bare SIGNATURE block to dash_unescape and relies on it failing; '
                  'answering None with a text makes a detached signature load as a cleartext message (wrong kind accepted)', where=du.where,
                  expected='dash_unescape(None) raises', found=made_up, scenario='label SIGNATURE, no cleartext group')


# ------------------------------------------------------------------------------------------------ C10.6 / C10.7 reader
def expand_skeleton(sk):
    """A decision skeleton in which opaque atoms that are themselves boolean terms (a comparison kept in a local and tested later)
    are opened up: ('expr', '(a != b)') -> ('cmp', '!=', 'a', 'b')."""
    if sk is None:
        return None
    if sk[0] == 'not':
        return ('not', expand_skeleton(sk[1]))
    if sk[0] in ('and', 'or'):
        return (sk[0], [expand_skeleton(x) for x in sk[1]])
    if sk[0] == 'expr':
        node = T.parse_term(sk[1])
        if node is not None:
            return _term_skeleton(node, sk)
    return sk


def _term_skeleton(node, orig):
    if isinstance(node, ast.UnaryOp) and isinstance(node.op, ast.Not):
        return ('not', _term_skeleton(node.operand, ('expr', T.show(node.operand))))
    if isinstance(node, ast.BoolOp):
        return ('or' if isinstance(node.op, ast.Or) else 'and', [_term_skeleton(v, ('expr', T.show(v))) for v in node.values])
    if isinstance(node, ast.Compare) and len(node.ops) == 1:
        ops = {ast.Eq: '==', ast.NotEq: '!=', ast.Is: 'is', ast.IsNot: 'is not', ast.In: 'in', ast.NotIn: 'not in', ast.Lt: '<', ast.LtE: '<=', ast.Gt: '>', ast.GtE: '>='}
        return ('cmp', ops[type(node.ops[0])], T.show(node.left), T.show(node.comparators[0]))
    return orig


def _ascii_oracle(t):
    return True if re.search(r'\bis_ascii\(', t) else None


def regex_calls(s, what='__armor_regex'):
    """(method, argument texts) of the calls that apply the armor expression on this path."""
    out = []
    for c in s.calls:
        parts = c[0].rsplit('.', 1)
        if len(parts) == 2 and parts[0].endswith(what):
            out.append((parts[1], c[1]))
        elif parts[0] == 're' and len(parts) == 2 and c[1] and c[1][0].endswith(what):
            out.append((parts[1], c[1][1:]))
    return out


def reader(rep, prog, A, writer_sep):
    f = A.methods.get('ascii_unarmor')
    g = A.methods.get('is_armor')
    if f is None or g is None:
        raise AnalysisError('Armorable.ascii_unarmor / is_armor vanished')
    rep.saw(fn=f)
    p = _own_params(f)[0]
    text = Sym(p, types={'str'}, nonnull=True)
    paths = Interp(prog, Scenario(args={p: text}, oracle=_ascii_oracle, inline=noinline)).run(f)
    # ---- located with search (armor may be surrounded by other text); is_armor and ascii_unarmor agree
    meths = []
    for fn, ps in ((g, Interp(prog, Scenario(inline=noinline)).run(g)), (f, paths)):
        used = sorted(set(m for s in ps for m, _ in regex_calls(s)))
        if not used:
            raise AnalysisError('%s does not apply the armor expression' % fn.qualname)
        meths.extend((fn.name, m) for m in used)
    rep.check(all(m == 'search' for _, m in meths), 'C10.7', 'Armorable.ascii_unarmor', 'regex methods %s' % meths,
              'an armored block is found anywhere in the input (surrounding non-armor text is allowed), consistently in is_armor and ascii_unarmor',
              where=f.where, expected='search in both', found=meths)
    # ---- CRC comparison and reaction, on every path that decodes a CRC line
    tree, groups = armor_tree(A)
    mandatory = Mandatory(n for n in groups if regexast.group_is_mandatory(tree, groups[n]))
    for n in mandatory:
        try:
            if not regexast.Lang(regexast.find_group(tree, groups[n])[0][2]).accepts(''):
                mandatory.nonempty.append(n)
        except regexast.Unsupported:
            pass
    # the checksum line and the payload are part of EVERY word of the reader's armor language (decided on the expression): with an optional
    # checksum group a block whose "=XXXX" line was damaged or cut off still matches and loads without any comparison - unless the
    # code reports the missing checksum itself
    for name, what in (('body', 'payload'), ('crc', 'checksum line')):
        ok = name in mandatory
        found = 'group is mandatory' if ok else 'group is optional in the armor expression'
        if not ok and name in groups:
            absent = [s for s in paths if _assumes_absent(s, name)]
            ok = bool(absent) and all(s.raised is not None or _warns(s) for s in absent)
            found += '; its absence is %s' % ('reported on every such path' if ok else 'not reported (%d paths)' % len(absent))
        rep.check(ok, 'C10.6', 'Armorable.__armor_regex', '%s: %s' % (what, found),
                  'every armored block the reader accepts has a %s (or its absence is reported): a block with a damaged or deleted checksum must not load silently' % what,
                  where=A.where, expected='(?P<%s>...) outside any optional group / alternative' % name, found=found)
    paths = [s for s in paths if not _infeasible(s, mandatory)]
    crc_paths = [s for s in paths if any(_uses_group(c, 'crc') for c in s.calls)]
    rep.check(bool(crc_paths), 'C10.6', 'Armorable.ascii_unarmor', 'paths decoding the CRC line: %d' % len(crc_paths),
              'the decoded CRC must be compared with the CRC of the decoded body', where=f.where)
    n_cmp = 0
    pol_bad = []
    react_bad = []
    for s in crc_paths:
        hit = None
        for t, val, sk in s.facts:
            sk = expand_skeleton(sk)
            for a in atoms(sk):
                if a[0] == 'cmp' and a[1] in ('==', '!=') and _crc_sides(a[2], a[3]):
                    hit = (t, val, sk, a)
        if hit is None:
            continue
        n_cmp += 1
        t, val, sk, a = hit
        equal_means = a[1] == '=='
        # is the decision taken on this path consistent with the two CRCs being different / being equal?  (the other atoms of a
        # compound test are unknown unless they ask for the presence of something that is always there)
        on_diff = eval_skel(sk, lambda at: ((not equal_means) if at is a else _group_presence(at, mandatory)))
        on_equal = eval_skel(sk, lambda at: (equal_means if at is a else _group_presence(at, mandatory)))
        may_differ = on_diff is None or on_diff == val
        may_agree = on_equal is None or on_equal == val
        reported = s.raised is not None or _reports_after(s, t)
        if may_differ and not reported:
            react_bad.append('a path on which the CRCs may differ ends without warning / error: (%s) = %s' % (t[-100:], val))
        if reported and not may_differ and may_agree:
            pol_bad.append('%s = %s reports although the CRCs agree' % (t[-100:], val))
    # every path that hands back an armored match has decoded and compared the checksum (no early return in front of the comparison)
    unchecked = [s for s in paths if s.raised is None and regex_calls(s) and s not in crc_paths and not _assumes_absent(s, 'crc') and
                 not any(t.startswith('except ') for t, v, sk in s.facts)]
    rep.check(not unchecked, 'C10.6', 'Armorable.ascii_unarmor', 'returns of a matched block without the CRC comparison: %d' % len(unchecked),
              'every path of ascii_unarmor that returns an armored block passes the CRC-24 comparison; a return in front of it lets a corrupted block load silently',
              where=f.where, expected='0', found=[[t[-70:] + ' = %s' % v for t, v, sk in s.facts][-3:] for s in unchecked[:2]])
    rep.check(bool(crc_paths) and n_cmp == len(crc_paths), 'C10.6', 'Armorable.ascii_unarmor', 'crc comparison on %d of %d CRC paths' % (n_cmp, len(crc_paths)),
              'crc24(decoded body) is compared with the decoded CRC value on every path that has a CRC line', where=f.where,
              expected="crc24(b64decode(body)) != bytes_to_int(b64decode(crc))")
    rep.check(not pol_bad, 'C10.6', 'Armorable.ascii_unarmor', 'test polarity %s' % pol_bad[:1], 'a mismatch (not a match) must trigger the report', where=f.where,
              expected="crc24(m['body']) != m['crc']", found=pol_bad[:2])
    rep.check(not react_bad, 'C10.6', 'Armorable.ascii_unarmor', 'reaction %s' % react_bad[:1],
              'a payload that does not match its CRC must be reported (warning or error)', where=f.where, found=react_bad[:2])
    # ---- what is handed back as body / crc
    for name, need, what in (('body', ('b64decode',), 'the body is base64-decoded to the binary export'),
                             ('crc', ('b64decode', 'bytes_to_int|from_bytes'), 'the CRC line is base64-decoded to the 24-bit value')):
        vals = set()
        for s in crc_paths:
            v = _returned_entry(s, name)
            vals.add(v)
        ok = bool(vals) and None not in vals
        for v in vals:
            node = T.parse_term(v) if v is not None else None
            if node is None:
                ok = False
                continue
            for alt in need:
                if not _calls_named(node, tuple(alt.split('|'))):
                    ok = False
            if not refs_group(node, name):
                ok = False
            # the decoder is applied to the whole group (all lines joined: base64 quanta may straddle line breaks), not piece by piece
            for call in _calls_named(node, ('b64decode', 'a2b_base64', 'decodebytes')):
                arg = call.args[0] if call.args else None
                while isinstance(arg, ast.Call) and isinstance(arg.func, ast.Attribute) and arg.func.attr == 'encode':
                    arg = arg.func.value
                if arg is None or not _is_group_ref(arg, name):
                    if arg is not None and any(isinstance(n, ast.Name) and n.id.startswith('_B') for n in ast.walk(arg)):
                        ok = False
                        what = what + ' as a whole (decoding line by line fails when a line is not a multiple of 4 characters long)'
        rep.check(ok, 'C10.6', 'Armorable.ascii_unarmor', '%s decode' % name, what, where=f.where, found=sorted(str(v)[:120] for v in vals))
    # ---- header line separator agreement
    seps = set()
    for s in paths:
        for c in s.calls:
            if c[0] in ('re.findall', 're.finditer', 're.match', 're.fullmatch', 're.search') and len(c[1]) >= 2 and _mentions_group(c[1][1], 'headers'):
                try:
                    pat = ast.literal_eval(c[1][0])
                except Exception:
                    raise AnalysisError('Armorable.ascii_unarmor: header line pattern is not a literal: %s' % c[1][0][:80])
                fl = flags_of(c[2].get('flags')) | (flags_of(c[1][2]) if c[0] in ('re.findall', 're.finditer', 're.match', 're.fullmatch', 're.search') and len(c[1]) > 2 else 0)
                seps.add(_pattern_separator(pat, fl))
            elif c[0].split('.')[-1] in ('split', 'partition') and c[1] and _is_header_line(s, c[0]):
                try:
                    seps.add(ast.literal_eval(c[1][0]))
                except Exception:
                    seps.add(None)
    if not seps:
        raise AnalysisError('Armorable.ascii_unarmor: no header line splitting found')
    rep.check(seps == {': '} and (writer_sep is None or seps == {writer_sep}), 'C10.7', 'Armorable.ascii_unarmor', 'header line separator %s' % sorted(map(repr, seps)),
              'header lines are split at ": " - the separator the writer uses', where=f.where, expected=repr(writer_sep or ': '), found=sorted(map(repr, seps)))
    # ---- what the reader keeps of a header line is what stands there: key and value verbatim (the writer emits them verbatim, so any
    #      normalisation on load - case, strip, filter, dedup - makes the object re-export a header that was never supplied)
    kept = set(v for v in (_returned_entry(s, 'headers') for s in paths if s.raised is None) if v is not None)
    if not kept:
        raise AnalysisError('Armorable.ascii_unarmor: the headers entry of the result is never set')
    for v in sorted(kept):
        verdict, why = headers_verbatim(v)
        if verdict is None:
            raise AnalysisError('Armorable.ascii_unarmor: header mapping has an unmodelled shape: %s' % v[:200])
        rep.check(verdict, 'C10.7', 'Armorable.ascii_unarmor', 'headers kept as %s' % (why or 'matched'),
                  'armor header keys and values are stored exactly as they stand in the armor (no case change, strip, filter or merge)', where=f.where,
                  expected='OrderedDict(re.findall(<key>: <value>, headers))', found=v[:300])
    # ---- the label is handed on as matched (the kind checks compare it literally)
    relabel = set(v for v in (_stored_entry(s, 'magic') for s in paths if s.raised is None) if v is not None)
    bad = sorted(v for v in relabel if not (T.parse_term(v) is not None and _is_group_ref(T.parse_term(v), 'magic')))
    rep.check(not bad, 'C10.5', 'Armorable.ascii_unarmor', 'label handed on %s' % (bad[:1] or 'as matched'),
              'the armor label is reported as it stands in the BEGIN line (no normalisation before the kind checks see it)', where=f.where, found=bad[:2])
    lab = group_lang(A, 'magic')
    wit = lab.witness_not_in(regexast.Lang.of(r'[A-Z0-9 ,/]+')) if lab is not None else []
    rep.check(lab is not None and wit is None, 'C10.5', 'Armorable.__armor_regex', 'label alphabet',
              'armor labels are upper-case words (RFC 4880 6.2); a reader that also matches other spellings makes the kind checks case-dependent',
              where=A.where, expected='[A-Z0-9 ,]+', found=None if wit is None else 'also matches %r' % regexast.show_word(wit))
    # ---- the tail label must equal the head label
    ok = False
    flat = list(regexast.strip_groups(tree))
    for i, nd in enumerate(flat):
        if nd[0] == 'ref' and nd[1] == groups.get('magic'):
            lit = ''
            j = i - 1
            while j >= 0 and flat[j][0] == 'set' and len(flat[j][1]) == 1:
                lit = chr(next(iter(flat[j][1]))) + lit
                j -= 1
            if lit.endswith('END PGP '):
                ok = True
    rep.check(ok and 'magic' in groups, 'C10.7', 'Armorable.__armor_regex', 'END label = BEGIN label (backreference)',
              'the tail line must carry the same label as the header line', where=A.where)


class Mandatory(list):
    """Names of the groups that take part in every match of the armor expression; .nonempty: those that cannot match ''."""
    def __init__(self, it=()):
        list.__init__(self, it)
        self.nonempty = []


def _assumes_absent(s, name):
    """The path took the decision that the regex group `name` is None / empty."""
    for t, val, sk in s.facts:
        if sk is None:
            continue
        if sk[0] == 'cmp' and sk[1] in ('is', 'is not', '==', '!=') and sk[3] == 'None':
            node = T.parse_term(sk[2])
            if node is not None and _is_group_ref(node, name) and (val if sk[1] in ('is', '==') else not val):
                return True
        if sk[0] == 'expr' and val is False:
            node = T.parse_term(sk[1])
            if node is not None and _is_group_ref(node, name):
                return True
    return False


def _warns(s):
    return any(e[0] == 'call' and (e[1] in ('warnings.warn', 'warn') or e[1].split('.')[-1] in ('warn', 'warning', 'error')) for e in s.events)


def _infeasible(s, mandatory):
    """The path assumes that a group which takes part in every match of the armor expression is None."""
    for t, val, sk in s.facts:
        if sk is not None and sk[0] == 'cmp' and sk[1] in ('is', 'is not', '==', '!=') and sk[3] == 'None':
            node = T.parse_term(sk[2])
            is_none = val if sk[1] in ('is', '==') else (not val)
            if is_none and node is not None and any(_is_group_ref(node, n) for n in mandatory):
                return True
        if sk is not None and sk[0] == 'expr' and val is False:
            node = T.parse_term(sk[1])
            if node is not None and any(_is_group_ref(node, n) for n in mandatory.nonempty):
                return True
    return False


def _group_presence(atom, mandatory):
    """Truth value of an atom that asks whether a group which takes part in every match is (not) None; None for any other atom."""
    if atom[0] == 'cmp' and atom[1] in ('is', 'is not', '==', '!=') and atom[3] == 'None':
        node = T.parse_term(atom[2])
        if node is not None and any(_is_group_ref(node, n) for n in mandatory):
            return atom[1] in ('is not', '!=')
        if isinstance(node, ast.Call) and _calls_named(node, ('bytes_to_int', 'from_bytes', 'int', 'len', 'bytearray', 'bytes', 'b64decode')) and \
                _calls_named(node, ('bytes_to_int', 'from_bytes', 'int', 'len', 'bytearray', 'bytes', 'b64decode'))[0] is node:
            return atom[1] in ('is not', '!=')         # the result of a conversion is never None
    if atom[0] == 'expr':
        node = T.parse_term(atom[1])
        if node is not None and any(_is_group_ref(node, n) for n in mandatory.nonempty):
            return True
    return None


def _is_group_ref(node, name):
    if isinstance(node, ast.Subscript) and isinstance(node.slice, ast.Constant) and node.slice.value == name:
        return True
    return isinstance(node, ast.Call) and isinstance(node.func, ast.Attribute) and node.func.attr in ('group', 'get') and len(node.args) == 1 and \
        isinstance(node.args[0], ast.Constant) and node.args[0].value == name


def _uses_group(call, name):
    """Does a call event take the named regex group as receiver or argument (i.e. is the group decoded on this path)?"""
    for t in [call[0]] + list(call[1]):
        if ("'%s'" % name) in t or ('"%s"' % name) in t:
            node = T.parse_term(t)
            if node is not None and refs_group(node, name):
                return True
    return False


def _mentions_group(text, name):
    node = T.parse_term(text)
    return node is not None and refs_group(node, name)


def _is_header_line(s, ftext):
    node = T.parse_term(ftext)
    return node is not None and refs_group(node, 'headers')


def _crc_sides(l, r):
    """One side IS crc24(<decoded body group>), the other IS the integer decoded from the crc group (no masking, slicing or other
    operation on either side: the two 24-bit values are compared whole)."""
    for a, b in ((l, r), (r, l)):
        na, nb = T.parse_term(a), T.parse_term(b)
        if na is None or nb is None:
            continue
        if not (isinstance(na, ast.Call) and _calls_named(na, ('crc24',)) and _calls_named(na, ('crc24',))[0] is na):
            continue
        conv = _calls_named(nb, ('bytes_to_int', 'from_bytes'))
        if not (isinstance(nb, ast.Call) and conv and conv[0] is nb):
            continue
        if refs_group(na, 'body') and _calls_named(na, ('b64decode',)) and not refs_group(na, 'crc') and \
                refs_group(nb, 'crc') and _calls_named(nb, ('b64decode',)) and not _calls_named(nb, ('crc24',)):
            return True
    return False


def _reports_after(s, fact_text):
    """A warning / logging call recorded on the path after the decision `fact_text` was taken (events are ordered)."""
    # the decision itself is not an event: locate the last call that computes one of its sides (crc24) and look behind it
    idx = -1
    for i, e in enumerate(s.events):
        if e[0] == 'call' and e[1].split('.')[-1] == 'crc24':
            idx = i
    for e in s.events[idx + 1:]:
        if e[0] == 'call' and (e[1] in ('warnings.warn', 'warn') or e[1].split('.')[-1] in ('warn', 'warning', 'error')):
            return True
        if e[0] == 'raise':
            return True
    return False


def _returned_entry(s, name):
    """Rendered value of the entry `name` of the mapping the path returns (stores into the returned mapping, else its dict display)."""
    if s.ret is None or s.raised is not None:
        return None
    rt = render(s.ret)
    val = None
    for path, vt, line, v in s.stores:
        if path in ("%s['%s']" % (rt, name), '%s["%s"]' % (rt, name)):
            val = vt
    if val is not None:
        return val
    node = T.parse_term(rt)
    if isinstance(node, ast.Dict):
        for k, v in zip(node.keys, node.values):
            if isinstance(k, ast.Constant) and k.value == name:
                return T.show(v)
    return None


def _stored_entry(s, name):
    """Rendered value stored into the entry `name` of the mapping the path returns, if the path stores one."""
    if s.ret is None:
        return None
    rt = render(s.ret)
    val = None
    for path, vt, line, v in s.stores:
        if path in ("%s['%s']" % (rt, name), '%s["%s"]' % (rt, name)):
            val = vt
    return val


def _findall_on_headers(node):
    """Is the term re.findall / re.finditer(<two-group pattern>, <headers group>, ..)?"""
    if not (isinstance(node, ast.Call) and T.show(node.func) in ('re.findall',) and len(node.args) >= 2 and refs_group(node.args[1], 'headers')):
        return False
    pat = node.args[0]
    if not (isinstance(pat, ast.Constant) and isinstance(pat.value, str)):
        return False
    try:
        return regexast.parse(pat.value).state.groups == 3
    except re.error:
        return False


def headers_verbatim(text):
    """(True, None) if the term is a mapping built from the (key, value) pairs of the header-line matches unchanged; (False, why) if a
    pair is transformed / filtered on the way; (None, None) if the shape is not understood."""
    node = T.parse_term(text) if isinstance(text, str) else text
    if node is None:
        return None, None
    if (isinstance(node, ast.Constant) and node.value is None) or _is_group_ref(node, 'headers'):
        return True, None               # no header lines: the (absent) group itself
    if isinstance(node, ast.IfExp):
        a, b = headers_verbatim(node.body), headers_verbatim(node.orelse)
        if a[0] is None or b[0] is None:
            return None, None
        return (a[0] and b[0]), (a[1] or b[1])
    if isinstance(node, ast.DictComp) and len(node.generators) == 1:
        g = node.generators[0]
        if not _findall_on_headers(g.iter):
            return None, None
        if g.ifs:
            return False, 'filtered pairs'
        want = [T.show(e) for e in g.target.elts] if isinstance(g.target, ast.Tuple) and len(g.target.elts) == 2 else None
        if want is None:
            return None, None
        return ([T.show(node.key), T.show(node.value)] == want), 'transformed %s: %s' % (T.show(node.key), T.show(node.value))
    m = T.match_any(node, ['collections.OrderedDict(_F)', 'OrderedDict(_F)', 'dict(_F)'])
    if m is None:
        return None, None
    F = m['_F']
    while isinstance(F, ast.Call) and isinstance(F.func, ast.Name) and F.func.id in ('list', 'tuple', 'iter') and len(F.args) == 1:
        F = F.args[0]
    if _findall_on_headers(F):
        return True, None
    e = T.each(F)
    if e is None or not _findall_on_headers(e[1]) or len(e[3]) != 1:
        return None, None
    var, coll, conds, elems = e
    if conds:
        return False, 'filtered pairs (%s)' % ', '.join(T.show(c) for c in conds)
    elt = elems[0]
    if isinstance(var, ast.Name):
        want = [T.show(var)]
        got = [T.show(elt)] if not isinstance(elt, ast.Tuple) else None
        if got is None and isinstance(elt, ast.Tuple) and len(elt.elts) == 2:
            want = ['%s[0]' % T.show(var), '%s[1]' % T.show(var)]
            got = [T.show(x) for x in elt.elts]
    elif isinstance(var, ast.Tuple) and len(var.elts) == 2 and isinstance(elt, ast.Tuple) and len(elt.elts) == 2:
        want = [T.show(ast.Tuple(elts=[var, x], ctx=ast.Load())) for x in var.elts]
        got = [T.show(ast.Tuple(elts=[var, x], ctx=ast.Load())) for x in elt.elts]
    else:
        return None, None
    if got == want:
        return True, None
    return False, 'transformed pairs %s' % T.show(elt)


def _pattern_separator(pat, flags):
    """Literal text between the first and the second capture group of a header-line pattern (None if it is not literal)."""
    try:
        tree, p = regexast.norm_pattern(pat, flags)
    except regexast.Unsupported:
        return None
    top = [nd for nd in tree if nd[0] != 'at']
    idx = [i for i, nd in enumerate(top) if nd[0] == 'grp']
    if len(idx) < 2:
        return None
    lit = ''
    for nd in top[idx[0] + 1:idx[1]]:
        if nd[0] == 'set' and len(nd[1]) == 1:
            lit += chr(next(iter(nd[1])))
        else:
            return None
    return lit
