"""C11 - Cleartext signature framework preserves the text and the signature (partial: inverse regex pair, call counts, canonicalisation).

  C11.1 dash_escape / dash_unescape are an inverse pair anchored at every line start; escape covers every line starting with '-'
  C11.2 __str__ escapes the cleartext exactly once; parse unescapes the `cleartext` group exactly once before storing it
  C11.3 the Hash: header lists the hash algorithms of all signatures; its alphabet and framing agree with the reader
  C11.4 RFC 4880 7.1 canonicalisation on the text-signature path: line endings -> CR LF (exactly LF and CR LF are line endings);
        trailing blanks removed on every path from a cleartext message to hashdata, in sign and in verify
  C11.5 text domain: what the writer can emit must be readable (writer domain <= reader domain)
  C11.6 a cleartext message is signed as a text signature (0x01); other messages as binary
  C11.7 the reader's cleartext group excludes the line ending that precedes the signature armor (final line ending not signed)

The rules read interpreter values (what a function returns / passes on, per path), the texts the code builds as piece sequences
(sa/strterm.py) and regular expressions as normalised trees / languages (sa/regexast.py) - never source text or local names.
"""
import ast
import re

from sa.interp import Interp, Scenario, Sym, Const, render
from sa.loader import AnalysisError
from sa import regexast, sigdata
from sa.sigdata import implied_atoms
from sa import strterm as T
from rules.C10 import (_const_regex, armor_tree, flags_of, unarmor_call, verdict_for_label, _receiver, _own_params, _returned_entry,   # noqa: F401
                       _ascii_oracle, _consumes, require_traceable_label, _stored_entry, _is_group_ref, regex_calls)

from rules.C10 import noinline  # noqa: E402,F401


# ------------------------------------------------------------------------------------------------ substitutions as values
def substitution(node):
    """A term that is `re.sub(P, R, S, ...)` / `re.subn(P, R, S, ...)[0]` (the same value) -> ('re', pattern, replacement, flags, subject node);
    `S.replace(a, b)` -> ('replace', a, b, subject node); anything else -> None."""
    if isinstance(node, str):
        node = T.parse_term(node)
    if node is None:
        return None
    call = None
    if isinstance(node, ast.Subscript) and isinstance(node.slice, ast.Constant) and node.slice.value == 0 and isinstance(node.value, ast.Call) and \
            T.show(node.value.func) == 're.subn':
        call = node.value
    elif isinstance(node, ast.Call) and T.show(node.func) == 're.sub':
        call = node
    if call is not None:
        a = list(call.args)
        kw = {k.arg: k.value for k in call.keywords}
        names = ['pattern', 'repl', 'string', 'count', 'flags']
        for i, n in enumerate(names):
            if i < len(a):
                kw[n] = a[i]
        if not all(n in kw for n in names[:3]):
            return None
        p, r = kw['pattern'], kw['repl']
        if isinstance(r, ast.Lambda):
            tmpl = callable_as_template(r)
            if tmpl is None:
                return None
            r = ast.Constant(value=tmpl)
        if not (isinstance(p, ast.Constant) and isinstance(p.value, (str, bytes)) and isinstance(r, ast.Constant) and isinstance(r.value, (str, bytes))):
            return None
        cnt = kw.get('count')
        if cnt is not None and not (isinstance(cnt, ast.Constant) and cnt.value == 0):
            return ('re-limited', p.value, r.value, flags_of(kw.get('flags')), kw['string'])
        return ('re', p.value, r.value, flags_of(kw.get('flags')), kw['string'])
    if isinstance(node, ast.Call) and isinstance(node.func, ast.Attribute) and node.func.attr == 'replace' and len(node.args) == 2 and \
            all(isinstance(x, ast.Constant) for x in node.args):
        return ('replace', node.args[0].value, node.args[1].value, node.func.value)
    return None


def callable_as_template(lam):
    """A replacement given as `lambda m: <literals and the match itself>` (m.group(0) / m.group() / m[0]) is the replacement template with
    \\g<0> for the match: the template text, or None if the function does anything else with the match."""
    if not (isinstance(lam, ast.Lambda) and len(lam.args.args) == 1 and not lam.args.defaults and not lam.args.kwonlyargs):
        return None
    m = lam.args.args[0].arg
    out = ''
    for piece in T.pieces(lam.body):
        if piece[0] == 'L':
            out += piece[1].replace('\\', '\\\\')
        elif piece[0] == 'V' and T.show(piece[1]) in ('%s.group(0)' % m, '%s.group()' % m, '%s[0]' % m):
            out += '\\g<0>'
        else:
            return None
    return out


def _words(seq, limit=16):
    """The finite set of strings a normalised sequence matches (groups dissolved), or None."""
    out = ['']
    for nd in regexast.strip_groups(seq):
        if nd[0] == 'set' and len(nd[1]) <= 4 and regexast.OTHER not in nd[1]:
            out = [w + chr(c) for w in out for c in sorted(nd[1])]
        elif nd[0] == 'alt':
            alts = []
            for a in nd[1]:
                ws = _words(a, limit)
                if ws is None:
                    return None
                alts.extend(ws)
            out = [w + x for w in out for x in alts]
        elif nd[0] == 'rep' and nd[2] is not None and nd[2] <= 4:
            ws = _words(nd[4], limit)
            if ws is None:
                return None
            tails = []
            for n in range(nd[1], nd[2] + 1):
                cur = ['']
                for _ in range(n):
                    cur = [a + b for a in cur for b in ws]
                tails.extend(cur)
            out = [w + x for w in out for x in tails]
        else:
            return None
        if len(out) > limit:
            return None
    return sorted(set(out))


def line_start_rewrite(pattern, repl, flags):
    """What a substitution does at the start of a line: {'every_line': bool, 'cases': [(consumed, lookahead, result)]} meaning a line that
    begins with consumed+lookahead gets `consumed` replaced by `result`; None if the pattern is not of the form ^ literal-alternatives
    [(?=literal-alternatives)]."""
    try:
        tree, p = regexast.norm_pattern(pattern, flags)
    except (regexast.Unsupported, re.error):
        return None
    if not tree or tree[0][0] != 'at' or tree[0][1] not in ('AT_BEGINNING', 'AT_BEGINNING_LINE', 'AT_BEGINNING_STRING'):
        return None
    rest = list(tree[1:])
    look = ['']
    if rest and rest[-1][0] == 'look' and rest[-1][1] == 1 and not rest[-1][2]:
        look = _words(rest[-1][3])
        rest = rest[:-1]
    cons = _words(tuple(rest))
    if cons is None or look is None:
        return None
    ngroups = p.state.groups - 1
    cases = []
    for c in cons:
        out = regexast.replacement_for(repl, c) if ngroups == 0 or not re.search(r'\\(?:\d|g<(?!0>))', repl) else None
        if out is None and ngroups == 1 and len(regexast.strip_groups(tuple(rest))) == len([n for n in regexast.iter_nodes(tuple(rest)) if n[0] != 'grp']) and \
                len(rest) == 1 and rest[0][0] == 'grp':
            out = regexast.replacement_for(repl.replace('\\1', '\\g<0>').replace('\\g<1>', '\\g<0>'), c)     # ^(x): group 1 is the whole match
        for l in look:
            cases.append((c, l, out))
    return {'every_line': tree[0][1] == 'AT_BEGINNING_LINE', 'cases': cases}


def line_map(node, calls=()):
    """A term that is `SEP.join(f(line) for line in <lines of S>)` with f one of
         PFX + line if line.startswith(LIT) else line     (insert PFX in front of every line that starts with LIT)
         line[len(LIT):] if line.startswith(LIT) else line / line.removeprefix(LIT)     (remove LIT from the start of every line)
    -> ('lines', {'every_line': True, 'relation': .., 'cases': [(consumed, lookahead, result)]}, subject node); else None.
    relation says what a "line start" is: 'LF' for S.split('\n') re-joined with '\n' (the start of the text and what follows a LF - the
    relation of ^ under re.MULTILINE); 'splitlines' for str.splitlines, which also breaks at a lone CR, VT, FF, FS, GS, RS, NEL, LS, PS.
    `calls`: the call events of the path (a conditional slice loses its test in the interpreter's value; the literal of the
    startswith(..) call that decides it is read from there)."""
    ps = T.pieces(node)
    if not (len(ps) == 1 and ps[0][0] == 'J' and isinstance(ps[0][2], ast.Name) and len(ps[0][4]) == 1 and ps[0][4][0][0] == 'V'):
        return None
    _, sep, var, coll, inner = ps[0]
    relation = None
    cm = T.match(coll, "_S.split(_D)")
    if cm is not None and isinstance(cm['_D'], ast.Constant) and isinstance(cm['_D'].value, str):
        relation = 'LF' if (cm['_D'].value == '\n' and sep == '\n') else 'split(%r) / %r.join' % (cm['_D'].value, sep)
    else:
        cm = None
    if cm is None:
        cm = T.match_any(coll, ['_S.splitlines(True)', '_S.splitlines(keepends=True)'])
        if cm is not None and sep == '':
            relation = 'splitlines'
    if cm is None:
        cm = T.match_any(coll, ['_S.splitlines()', '_S.splitlines(False)'])
        if cm is not None and sep in ('\n', '\r\n'):
            relation = 'splitlines'
    if cm is None or relation is None:
        return None
    elt = inner[0][1]
    v = T.show(var)

    def starts(test):
        """(literal, negated) if the test says that the line starts with a literal"""
        neg = False
        while isinstance(test, ast.UnaryOp) and isinstance(test.op, ast.Not):
            test, neg = test.operand, not neg
        m = T.match(test, '_V.startswith(_L)')
        if m and T.show(m['_V']) == v and isinstance(m['_L'], ast.Constant) and isinstance(m['_L'].value, str):
            return m['_L'].value, neg
        for pat in ('SLICE(_V, None, _N) == _L', '_L == SLICE(_V, None, _N)'):
            m = T.match(test, pat)
            if m and T.show(m['_V']) == v and isinstance(m['_L'], ast.Constant) and isinstance(m['_L'].value, str) and \
                    isinstance(m['_N'], ast.Constant) and m['_N'].value == len(m['_L'].value):
                return m['_L'].value, neg
        return None
    rm = T.match(elt, '_V.removeprefix(_L)')
    if rm and T.show(rm['_V']) == v and isinstance(rm['_L'], ast.Constant) and isinstance(rm['_L'].value, str):
        return ('lines', {'every_line': True, 'relation': relation, 'cases': [(rm['_L'].value, '', '')]}, cm['_S'])
    am = T.match_any(elt, ['ALT(SLICE(_V, _N, None) | _V)', 'ALT(_V | SLICE(_V, _N, None))'])
    if am is not None and T.show(am['_V']) == v and isinstance(am['_N'], ast.Constant):
        lits = set()
        for c in calls:
            if c[0].split('.')[-1] == 'startswith' and len(c[1]) == 1:
                try:
                    lits.add(ast.literal_eval(c[1][0]))
                except Exception:
                    lits.add(None)
        if len(lits) == 1 and isinstance(list(lits)[0], str) and type(am['_N'].value) is int and am['_N'].value >= 0:
            lit, n = list(lits)[0], am['_N'].value
            consumed = lit[:n] if n <= len(lit) else lit + '<%d more characters>' % (n - len(lit))
            return ('lines', {'every_line': True, 'relation': relation, 'cases': [(consumed, lit[n:], '')]}, cm['_S'])
        return ('lines', {'every_line': True, 'relation': relation, 'cases': None}, cm['_S'])
    if not isinstance(elt, ast.IfExp):
        return None
    st = starts(elt.test)
    if st is None:
        return None
    lit, neg = st
    hit, other = (elt.orelse, elt.body) if neg else (elt.body, elt.orelse)
    if T.show(other) != v:
        return None
    hp = T.pieces(hit)
    if len(hp) == 2 and hp[0][0] == 'L' and hp[1][0] == 'V' and T.show(hp[1][1]) == v:
        return ('lines', {'every_line': True, 'relation': relation, 'cases': [('', lit, hp[0][1])]}, cm['_S'])
    sm = T.match(hit, 'SLICE(_V, _N, None)')
    if sm and T.show(sm['_V']) == v and isinstance(sm['_N'], ast.Constant) and sm['_N'].value == len(lit):
        return ('lines', {'every_line': True, 'relation': relation, 'cases': [(lit, '', '')]}, cm['_S'])
    return None


def strips_trailing_blanks(pattern, flags):
    """[ \\t]+ immediately before an end-of-line assertion (optionally tolerating a CR), on every line, and nothing else."""
    try:
        tree, _ = regexast.norm_pattern(pattern, flags)
    except (regexast.Unsupported, re.error):
        return False
    tree = regexast.strip_groups(tree)
    if len(tree) < 2 or tree[0][0] != 'rep' or tree[0][1] != 1 or tree[0][2] is not None or not tree[0][3]:
        return False
    inner = tree[0][4]
    if len(inner) != 1 or inner[0][0] != 'set' or inner[0][1] != frozenset([32, 9]):
        return False
    tail = tree[1:]
    if len(tail) == 1 and tail[0][0] == 'look' and tail[0][1] == 1 and not tail[0][2]:
        tail = tail[0][3]
    eol = ('at', 'AT_END_LINE')
    opt_cr = ('rep', 0, 1)
    if tuple(tail) == (eol,):
        # `[ \t]+$` alone: with CR LF line ends (a cleartext message keeps the line ends it was transported with) the CR shields the
        # blanks in front of it, so `abc \t\r\n` would be signed as it is - RFC 4880 7.1 removes them (seeded change C02-w6mut1)
        return False
    return len(tail) == 2 and tail[1] == eol and tail[0][0] == 'rep' and tail[0][1:3] == (0, 1) and tail[0][4] == (('set', frozenset([13])),) and opt_cr is not None


# ------------------------------------------------------------------------------------------------ the rule set
def run(rep, prog, tier):
    rep.rule('C11.1', 'dash-escape and dash-unescape are inverse, anchored at every line start, covering every "-" line', floor=5)
    rep.rule('C11.2', 'escape applied once on writing; unescape once on reading, to the cleartext group', floor=3)
    rep.rule('C11.3', 'Hash: header content, alphabet and framing agree between writer and reader', floor=4)
    rep.rule('C11.4', 'canonicalisation: CR LF conversion and trailing-blank removal on the sign and verify paths', floor=7)
    rep.rule('C11.5', 'writer text domain is within the reader text domain', floor=1)
    rep.rule('C11.6', 'cleartext message -> text signature', floor=2)
    rep.rule('C11.7', 'the line ending before the signature armor is not part of the text', floor=1)
    rep.assume('other implementations treat exactly LF and CR LF as line endings (GnuPG)')

    M = prog.cls('pgpy.pgp', 'PGPMessage')
    A = prog.cls('pgpy.types', 'Armorable')
    dash_pair(rep, prog, M)
    writer_unicode = cleartext_writer(rep, prog, M, A)
    cleartext_reader(rep, prog, M)
    cleartext_uncompressed(rep, prog, M)
    hash_header_reader(rep, prog, A)
    canonicalisation(rep, prog, M)
    text_domain(rep, prog, A, writer_unicode)
    text_signature_type(rep, prog)
    final_line_ending(rep, prog, A)


def _returned_substitution(prog, fn):
    """The substitution a one-argument text function returns on every path (same one on all paths), with its subject checked."""
    ps = _own_params(fn)
    if len(ps) != 1:
        raise AnalysisError('%s: expected one text parameter' % fn.qualname)
    subs = []
    shortcuts = []
    for s in Interp(prog, Scenario(inline=noinline)).run(fn):
        if s.raised is not None:
            continue
        if render(s.ret) == ps[0]:
            # a path that hands the text back untouched (fast path): under which decided condition?
            absent = set()
            for t, val, sk in s.facts:
                for a, truth in implied_atoms(sk, val):
                    if a[0] == 'cmp' and a[3] == ps[0] and ((a[1] == 'not in' and truth) or (a[1] == 'in' and not truth)):
                        try:
                            lit = ast.literal_eval(a[2])
                        except Exception:
                            continue
                        if isinstance(lit, str):
                            absent.add(lit)
            shortcuts.append((sorted(absent), [t for t, val, sk in s.facts]))
            continue
        sub = substitution(render(s.ret)) or line_map(render(s.ret), s.calls)
        if sub is None:
            raise AnalysisError('%s: unrecognised implementation shape: %s' % (fn.qualname, render(s.ret)[:120]))
        subs.append(sub[:-1] + (T.show(sub[-1]) == ps[0], T.show(sub[-1])))
    if not subs or any(x != subs[0] for x in subs):
        raise AnalysisError('%s: paths disagree about the substitution' % fn.qualname)
    return subs[0], shortcuts


def _check_shortcuts(rep, fn, shortcuts, rw):
    """A path that returns the text untouched is the substitution itself only where the substitution has nothing to do: the decided
    condition must be that a string which every rewritten line start contains does not occur anywhere in the text."""
    words = sorted(set(c + l for c, l, _ in rw['cases'])) if rw and rw.get('cases') else None
    for absent, facts in shortcuts:
        ok = words is not None and any(lit != '' and all(lit in w for w in words) for lit in absent)
        rep.check(ok, 'C11.1', 'PGPMessage.%s' % fn.name, 'text returned untouched when %s' % (' and '.join('%r not in text' % a for a in absent) or facts[-1:]),
                  'a shortcut that skips the rewrite must be taken only when no line can need it (the trigger string occurs nowhere in the text); '
                  'a weaker test (first character only, another string) leaves lines unescaped / escaped', where=fn.where,
                  expected='%r not in text' % (words[0] if words else '-'), found=[f[:100] for f in facts])


def dash_pair(rep, prog, M):
    esc = M.methods.get('dash_escape')
    une = M.methods.get('dash_unescape')
    if esc is None or une is None:
        raise AnalysisError('PGPMessage.dash_escape / dash_unescape vanished')
    rep.saw(fn=esc)
    rep.saw(fn=une)
    (e, e_short), (u, u_short) = _returned_substitution(prog, esc), _returned_substitution(prog, une)
    shortcuts = [(esc, e_short), (une, u_short)]
    for fn, sub in ((esc, e), (une, u)):
        rep.check(sub[-2], 'C11.1', 'PGPMessage.%s' % fn.name, 'applied to %s' % sub[-1], 'the substitution must run over the text that was passed in, unchanged',
                  where=fn.where, expected=_own_params(fn)[0], found=sub[-1])
    e, u = e[:-2], u[:-2]
    if e[0] == 'replace':
        rep.violation('C11.1', 'PGPMessage.dash_escape', 'str.replace(%r, %r)' % (e[1], e[2]),
                      'escaping by replacing %r cannot match at the very start of the text: a first line beginning with "-" is not escaped' % e[1],
                      where=esc.where, expected="re.sub(r'^-', '- -', text, flags=re.MULTILINE)", found='text.replace(%r, %r)' % (e[1], e[2]))
        return
    for fn, sub in ((esc, e), (une, u)):
        if sub[0] == 'lines':
            rep.check(sub[1]['relation'] == 'LF', 'C11.1', 'PGPMessage.%s' % fn.name, 'line starts by %s' % sub[1]['relation'],
                      'both sides must mean the same thing by "start of a line": the start of the text and what follows a LF (^ under re.MULTILINE, '
                      "split('\\n')); str.splitlines also breaks at a lone CR, VT, FF, FS, GS, RS, NEL, LS and PS, where the other side never escaped / unescaped",
                      where=fn.where, expected="text.split('\\n') ... '\\n'.join", found='str.splitlines')
            if sub[1]['cases'] is None:
                if sub[1]['relation'] == 'LF':
                    raise AnalysisError('%s: per-line rewrite whose condition the checker cannot read' % fn.qualname)
                return
    if e[0] == 'lines':
        rw, shown_e = e[1], 'per-line map %s' % (e[1]['cases'],)
    else:
        _, pe, re_, fe = e
        rw, shown_e = (line_start_rewrite(pe, re_, fe) if e[0] == 're' else None), 'pattern %r replacement %r flags %d' % (pe, re_, fe)
    rep.check(rw is not None and rw['every_line'], 'C11.1', 'PGPMessage.dash_escape', shown_e,
              'escaping must look at the start of EVERY line (^ with MULTILINE), with no limit on the number of replacements', where=esc.where,
              expected="^ ... re.MULTILINE", found=shown_e)
    starts = sorted(set(c + l for c, l, _ in rw['cases'])) if rw else None
    rep.check(starts == ['-'], 'C11.1', 'PGPMessage.dash_escape', 'escapes lines starting with %r' % (starts,),
              'every line starting with a dash must be escaped (RFC 4880 7.1 MUST)', where=esc.where, expected='-', found=starts)
    _check_shortcuts(rep, esc, e_short, rw)
    inserted = None
    if rw:
        ins = set()
        for c, l, out in rw['cases']:
            ins.add(out[:len(out) - len(c)] if out is not None and out.endswith(c) else None)
        inserted = ins.pop() if len(ins) == 1 else None
    rep.check(inserted == '- ', 'C11.1', 'PGPMessage.dash_escape', 'inserts %r (%s)' % (inserted, shown_e),
              'the escape prefix is "- " and the line\'s own dash is kept', where=esc.where, expected='- -', found=shown_e)
    if u[0] not in ('re', 're-limited', 'lines'):
        rep.violation('C11.1', 'PGPMessage.dash_unescape', 'str.replace', 'unescaping by plain replacement is not anchored at line starts', where=une.where)
        return
    if u[0] == 'lines':
        rwu, shown_u = u[1], 'per-line map %s' % (u[1]['cases'],)
    else:
        _, pu, ru, fu = u
        rwu, shown_u = (line_start_rewrite(pu, ru, fu) if u[0] == 're' else None), 'pattern %r flags %d' % (pu, fu)
    rep.check(rwu is not None and rwu['every_line'], 'C11.1', 'PGPMessage.dash_unescape', shown_u,
              'unescaping must look at the start of EVERY line (^ with MULTILINE)', where=une.where)
    _check_shortcuts(rep, une, u_short, rwu)
    removed = None
    if rwu and all(l == '' and out == '' for c, l, out in rwu['cases']):
        cs = sorted(set(c for c, l, out in rwu['cases']))
        removed = cs[0] if len(cs) == 1 else cs
    rep.check(removed is not None and removed == inserted, 'C11.1', 'PGPMessage.dash_unescape', 'removes %r (escape inserts %r)' % (removed, inserted),
              'what unescape removes must be exactly what escape inserted, from every line that carries it', where=une.where, expected=inserted, found=removed)


CLEARTEXT_LAYOUT = re.compile(r'^-----BEGIN PGP SIGNED MESSAGE-----\n(?:Hash: (?P<h>%s)\n)?\n(?P<t>%s)\n(?P<s>%s)$' % (T.PH, T.PH, T.PH))


def cleartext_writer(rep, prog, M, A):
    """C11.2 (writer half) and C11.3 (writer half).  Returns whether the written text is the message's unicode text."""
    st = M.methods.get('__str__')
    if st is None:
        raise AnalysisError('PGPMessage.__str__ vanished')
    rep.saw(fn=st)
    selfn = _receiver(st)
    paths = [s for s in Interp(prog, Scenario(bind={'%s.type' % selfn: Const('cleartext')}, inline=noinline)).run(st) if s.raised is None]
    if not paths:
        raise AnalysisError('PGPMessage.__str__: no returning path for a cleartext message')
    text_sources = ('%s.bytes_to_text(%s._message)' % (selfn, selfn), '%s.message' % selfn)
    seen_hash = {True: 0, False: 0}
    writer_unicode = False
    for s in paths:
        ps = T.pieces(render(s.ret))
        if len(ps) == 1 and ps[0][0] == 'V':
            raise AnalysisError('PGPMessage.__str__: the returned text is not built from literals the checker can read: %s' % render(s.ret)[:120])
        text, table = T.layout(ps)
        m = CLEARTEXT_LAYOUT.match(text)
        shown = T.show_pieces(ps)
        if not rep.check(m is not None, 'C11.3', 'PGPMessage.__str__', 'cleartext template %s' % shown[:140],
                         'header line, optional Hash header, one empty line, text, signature armor', where=st.where,
                         expected="'-----BEGIN PGP SIGNED MESSAGE-----\\n' ['Hash: ' <names> '\\n'] '\\n' <escaped text> '\\n' <signature armor>", found=shown):
            continue
        # ---- text slot: the escaped text, escaped once
        tv = table[m.group('t')]
        em = T.match_any(tv[1], ['_R.dash_escape(_X)', 'dash_escape(_X)']) if tv[0] == 'V' else None
        ncalls = len([c for c in s.calls if c[0].split('.')[-1] == 'dash_escape'])
        src = T.show(em['_X']) if em else None
        rep.check(em is not None and src in text_sources and ncalls == 1, 'C11.2', 'PGPMessage.__str__', 'cleartext slot %s (%d dash_escape calls)' % (T.show_pieces([tv]), ncalls),
                  'what is written between the header and the signature is the message text, dash-escaped exactly once', where=st.where,
                  expected='%s.dash_escape(%s)' % (selfn, text_sources[0]), found=T.show_pieces([tv]))
        writer_unicode = writer_unicode or (src in text_sources)
        sv = table[m.group('s')]
        rep.check(sv[0] == 'V' and T.show(sv[1]) in ('super(Armorable).__str__()', 'Armorable.__str__(%s)' % selfn, 'super().__str__()'), 'C11.2', 'PGPMessage.__str__',
                  'signature slot %s' % T.show_pieces([sv]), 'the text is followed by the armored signatures of the message', where=st.where,
                  found=T.show_pieces([sv]))
        # ---- Hash header: names of the hash algorithms of all signatures, comma separated, present iff there are signatures
        has = m.group('h') is not None
        seen_hash[has] += 1
        if has:
            hv = table[m.group('h')]
            ok = False
            found = T.show_pieces([hv])
            coll_text = None
            if hv[0] == 'V':
                jm = T.match(hv[1], "','.join(_C)")
                c = T.collection_of(jm['_C']) if jm else None
                if c is not None:
                    var, coll, conds, elt, wrappers = c
                    ok = not conds and isinstance(var, ast.Name) and T.show(coll) in ('%s.signatures' % selfn, '%s._signatures' % selfn) and \
                        T.same(elt, ast.Attribute(value=ast.Attribute(value=var, attr='hash_algorithm', ctx=ast.Load()), attr='name', ctx=ast.Load()))
                    coll_text = jm['_C']
            rep.check(ok, 'C11.3', 'PGPMessage.__str__', 'Hash header %s' % found[:120],
                      'the Hash: header lists the hash algorithm names of all signatures, comma separated', where=st.where,
                      expected="','.join(<the .hash_algorithm.name of every signature>)", found=found)
            if ok:
                # the decision that put the header there is about that same collection being non-empty
                pol = _emptiness_fact(s, coll_text, selfn)
                rep.check(pol is True, 'C11.3', 'PGPMessage.__str__', 'Hash header present when %s' % ('there are signatures' if pol else 'undetermined / no signatures'),
                          'the Hash: header is written exactly when the message has signatures', where=st.where)
        else:
            pol = _any_emptiness_fact(s, selfn)
            rep.check(pol is False, 'C11.3', 'PGPMessage.__str__', 'no Hash header when %s' % ('there are no signatures' if pol is False else 'undetermined'),
                      'without signatures no Hash: header is written; with signatures it must be', where=st.where)
    rep.check(seen_hash[True] >= 1, 'C11.3', 'PGPMessage.__str__', 'paths with a Hash header: %d' % seen_hash[True],
              'a cleartext message with signatures names their hash algorithms in a Hash: header', where=st.where)
    return writer_unicode


def _emptiness_fact(s, coll_node, selfn=None):
    """True / False when the path decided that the collection the names come from (or the signature list itself) is non-empty /
    empty; None if it did not."""
    want = _names_collection_key(coll_node)
    for t, val, sk in s.facts:
        n = T.parse_term(t)
        neg = False
        while isinstance(n, ast.UnaryOp) and isinstance(n.op, ast.Not):
            n, neg = n.operand, not neg
        if n is None:
            continue
        k = _names_collection_key(n)
        if (k is not None and (want is None or k == want)) or (selfn is not None and T.show(n) in ('%s.signatures' % selfn, '%s._signatures' % selfn)):
            return (not val) if neg else val
    return None


def _any_emptiness_fact(s, selfn):
    return _emptiness_fact(s, None, selfn)


def _names_collection_key(node):
    """Identity of `the hash names of the signatures` whatever container holds them (set / sorted list / generator ...)."""
    c = T.collection_of(node)
    if c is None:
        return None
    var, coll, conds, elt, wrappers = c
    return T.show(ast.Tuple(elts=[coll, elt] + list(conds), ctx=ast.Load()))


def cleartext_reader(rep, prog, M):
    """C11.2 (reader half): the cleartext group is unescaped once and that is what becomes the message text."""
    pf = M.methods.get('parse')
    if pf is None:
        raise AnalysisError('PGPMessage.parse vanished')
    rep.saw(fn=pf)
    selfn = _receiver(pf)
    ua = unarmor_call(prog, pf)
    group = "%s['cleartext']" % ua
    v, outs = verdict_for_label(prog, pf, ua, 'SIGNATURE')
    require_traceable_label('PGPMessage', {'SIGNATURE': (v, outs), 'MESSAGE': verdict_for_label(prog, pf, ua, 'MESSAGE')})
    ok = bool(outs)
    found = []
    for s in outs:
        if s.raised is not None and not _consumes(prog, pf, s):
            continue
        calls = [c for c in s.calls if c[0].split('.')[-1] == 'dash_unescape']
        found.append(['%s(%s)' % (c[0], ', '.join(c[1])) for c in calls])
        if len(calls) != 1 or calls[0][1] != [group]:
            ok = False
            continue
        val = '%s(%s)' % (calls[0][0], group)
        stored = [e for e in s.events if (e[0] == 'ior' and e[1] == selfn and e[2] == val) or
                  (e[0] == 'call' and e[1] in ('%s.__ior__' % selfn, '%s.__or__' % selfn) and e[2] == [val])]
        if len(stored) != 1:
            ok = False
    nothing_dropped(rep, prog, pf)
    # the reader hands the cleartext group on as matched (no line-ending / blank normalisation on load)
    A = prog.cls('pgpy.types', 'Armorable')
    uf = A.methods.get('ascii_unarmor')
    up = _own_params(uf)[0]
    restored = set()
    subjects = set()
    for s in Interp(prog, Scenario(args={up: Sym(up, types={'str'}, nonnull=True)}, oracle=_ascii_oracle, inline=noinline)).run(uf):
        for meth, args in regex_calls(s):
            if args:
                subjects.add(args[0])
        if s.raised is None:
            v = _stored_entry(s, 'cleartext')
            if v is not None:
                n = T.parse_term(v)
                if not (n is not None and _is_group_ref(n, 'cleartext')):
                    restored.add(v)
    rep.check(subjects == {up}, 'C11.2', 'Armorable.ascii_unarmor', 'armor expression applied to %s' % sorted(subjects),
              'the armor expression is applied to the text as received, so that the cleartext group is a slice of it: rewriting the whole input first '
              '(line endings, blanks) changes the signed text that is read back', where=uf.where, expected=up, found=sorted(subjects))
    rep.check(not restored, 'C11.2', 'Armorable.ascii_unarmor', 'cleartext handed on %s' % (sorted(restored)[:1] or 'as matched'),
              'the signed text is returned exactly as it stands between the header and the signature armor', where=uf.where, found=sorted(restored)[:2])
    rep.check(ok, 'C11.2', 'PGPMessage.parse', 'dash_unescape calls %s' % found[:2],
              'the cleartext group is unescaped exactly once and that result is the message text', where=pf.where,
              expected="self |= self.dash_unescape(unarmored['cleartext'])", found=found[:3])


def nothing_dropped(rep, prog, pf):
    """C11.2 (reader half, continued): the loops of PGPMessage.parse that attach what they read (`self |= ...`) attach it on EVERY
    iteration - the only packet that may be passed over is one of the wrong type (an isinstance test that failed).  A filter on anything
    else (a "duplicate" signer / time, a count limit) loses a signature the writer wrote, and with it a digest of the Hash: header.
    Each loop body is interpreted on its own (one iteration, loop variable symbolic); loops are found by what their body does."""
    from sa.interp import Frame, State, Obj

    class IterationFrame(Frame):
        # `Packet(data)` is a dispatching constructor: what it returns may be any packet class, so a type test on its result is open
        def _isinstance(self, objnode, typenode, st):
            d = Frame._isinstance(self, objnode, typenode, st)
            if d is False and isinstance(self.ev(objnode, st), Obj):
                return None
            return d
    selfn = _receiver(pf)
    loops = [n for n in ast.walk(pf.node) if isinstance(n, (ast.For, ast.While))]
    seen = 0
    for lp in loops:
        if any(isinstance(x, (ast.For, ast.While)) and x is not lp and lp in ast.walk(x) for x in loops):
            continue                    # inner loops are part of their outer loop's iteration
        fr = IterationFrame(Interp(prog, Scenario(inline=noinline)), pf, 0)
        st = State()
        st.env[selfn] = Sym(selfn, cls=pf.cls, nonnull=True)
        if isinstance(lp, ast.For):
            fr._assign_loopvars(lp.target, st, lp, '$1')
        try:
            outs = fr.block(lp.body, st)
        except AnalysisError:
            raise
        attaches = [(s, status) for s, status in outs if _attaches(s, selfn)]
        if not attaches:
            continue
        seen += 1
        bad = []
        for s, status in outs:
            if status in ('break', 'return'):
                bad.append('the loop is left (%s) before the data is used up: %s' % (status, [(t[:80], val) for t, val, sk in s.facts]))
                continue
            if status == 'raise' or _attaches(s, selfn):
                continue
            if not any(_failed_type_test(t, val, sk) for t, val, sk in s.facts):
                bad.append([(t[:80], val) for t, val, sk in s.facts])
        rep.check(not bad, 'C11.2', 'PGPMessage.parse', 'loop at line %d: iterations without attaching: %s' % (lp.lineno - pf.node.lineno, bad[:1] or 'only packets of the wrong type'),
                  'every packet read is attached to the message; only a packet of the wrong type may be passed over (the reader drops nothing the writer wrote)',
                  where=pf.where, expected='self |= <packet> on every iteration', found=bad[:2])
    if not seen:
        raise AnalysisError('PGPMessage.parse: no loop that attaches packets found')


def _attaches(s, selfn):
    return any((e[0] == 'ior' and e[1] == selfn) or (e[0] == 'call' and e[1] in ('%s.__ior__' % selfn, '%s.__or__' % selfn)) for e in s.events)


def _failed_type_test(t, val, sk):
    """The decision says that an isinstance test did not hold."""
    if sk is None:
        return False
    neg = False
    while sk[0] == 'not':
        sk, neg = sk[1], not neg
    return sk[0] == 'call' and sk[1] == 'isinstance' and (val if neg else not val)


def cleartext_uncompressed(rep, prog, M):
    """C11.2 (writer half, continued): the signatures of a cleartext message are written as the armored block after the text - the
    message's own packets, not wrapped into a Compressed Data packet (a reader of the cleartext framework finds no signature in there and
    PGPMessage.parse drops the packet).  Either PGPMessage.new leaves a cleartext message uncompressed whatever `compression=` says,
    or the binary export does not compress a cleartext message."""
    from sa.sigdata import enum_const
    new = M.methods.get('new')
    ba = M.methods.get('__bytearray__')
    if new is None or ba is None:
        raise AnalysisError('PGPMessage.new / __bytearray__ vanished')
    rep.saw(fn=new)
    ps = _own_params(new)

    def oracle(t):
        for k in ("'file'", "'encoding'", "'sensitive'"):
            if 'kwargs.pop(%s' % k in t and 'cleartext' not in t and 'compression' not in t:
                return False
        return None
    stored = set()
    n_clear = 0
    for s in Interp(prog, Scenario(args={ps[0]: Sym(ps[0], types={'str'}, nonnull=True)}, oracle=oracle, inline=noinline)).run(new):
        clear = None
        for t, val, sk in s.facts:
            for a, truth in implied_atoms(sk, val):
                if a[0] in ('expr', 'call') and "'cleartext'" in str(a[1:]) and 'pop' in str(a[1:]):
                    clear = truth
        if clear is not True or s.raised is not None:
            continue
        n_clear += 1
        for path, vt, line, v in s.stores:
            if path.endswith('._compression') and vt != 'CompressionAlgorithm.Uncompressed':
                stored.add(vt)
    if not n_clear:
        raise AnalysisError('PGPMessage.new: no path for cleartext=True found')
    selfn = _receiver(ba)
    zipc = enum_const(prog, 'CompressionAlgorithm', 'ZIP')
    wraps = False
    for s in Interp(prog, Scenario(bind={'%s.type' % selfn: Const('cleartext'), '%s._compression' % selfn: zipc}, inline=noinline,
                                   inline_props={'is_compressed'})).run(ba):
        if any(c[0] == 'CompressedData' for c in s.calls):
            wraps = True
    rep.check(not (stored and wraps), 'C11.2', 'PGPMessage.new', 'cleartext message compression: %s' % (sorted(stored) or 'left Uncompressed'),
              'a cleartext message must stay uncompressed whatever compression= says (or its export must not compress it): its signatures are the '
              'armored block after the text, a Compressed Data packet there is lost on re-import', where=new.where,
              expected='no _compression other than Uncompressed on the cleartext path', found=sorted(stored))


def hash_header_reader(rep, prog, A):
    """C11.3 (reader half): alphabet and framing of the Hash: armor header in the armor expression."""
    tree, groups = armor_tree(A)
    hit = regexast.find_group(tree, groups['hashes']) if 'hashes' in groups else None
    if hit is None:
        raise AnalysisError('armor regex: no hashes group')
    node, seq, idx = hit
    H = prog.cls('pgpy.constants', 'HashAlgorithm')
    names = sorted(n for n in H.enum_members() if not n.startswith('_') and n != 'Invalid')
    if not names:
        raise AnalysisError('HashAlgorithm has no members')
    alt = '(?:%s)' % '|'.join(re.escape(n) for n in names)
    written = regexast.Lang.of('%s(?:,%s)*' % (alt, alt))
    try:
        accepted = regexast.Lang(node[2])
        wit = written.witness_not_in(accepted)
    except regexast.Unsupported as ex:
        raise AnalysisError('armor regex, hashes group: %s' % ex)
    rep.check(wit is None, 'C11.3', 'Armorable.__armor_regex', 'hashes alphabet',
              'every character the writer can put into the Hash: header must be accepted by the reader', where=A.where,
              expected='every comma separated list of %s' % names, found=None if wit is None else 'not accepted: %r' % regexast.show_word(wit))
    # framing: the writer puts exactly two line endings after the Hash line (one ends the line, one is the empty separator line);
    # the reader must consume exactly those two, or it eats empty lines that belong to the text
    try:
        after = regexast.Lang(seq[idx + 1:])
        two = regexast.Lang.of(r'(?:\r?\n){2}')
        ok = regexast.lang_equal(after, two)
        extra = None if ok else (regexast.show_word(after.witness_not_in(two)) or regexast.show_word(two.witness_not_in(after)))
    except regexast.Unsupported as ex:
        raise AnalysisError('armor regex after the hashes group: %s' % ex)
    rep.check(ok, 'C11.3', 'Armorable.__armor_regex', 'line endings after the Hash header',
              'the reader must take exactly the two line endings the writer emits after "Hash:"; a greedier match swallows leading empty lines of the text',
              where=A.where, expected='(?:\\r?\\n){2}', found=None if ok else 'differs on %r' % extra)


def _elements(node, st, depth=0):
    """Possible element terms of a collection term (EACH / list displays / concatenations / joins of alternatives)."""
    if node is None or depth > 6:
        return None
    e = T.each(node)
    if e is not None:
        return list(e[3])
    if isinstance(node, (ast.List, ast.Tuple)):
        out = []
        for x in node.elts:
            sub = _elements(x, st, depth + 1) if T.each(x) is not None else [x]
            out.extend(sub)
        return out
    if isinstance(node, ast.BinOp) and isinstance(node.op, (ast.Add, ast.BitOr)):
        l, r = _elements(node.left, st, depth + 1), _elements(node.right, st, depth + 1)
        return None if l is None or r is None else l + r
    if isinstance(node, ast.Call) and isinstance(node.func, ast.Name) and node.func.id in ('JOIN', 'ALT', 'list', 'tuple', 'iter') and len(node.args) == 1:
        return _elements(node.args[0], st, depth + 1)
    return None


def _resolve(node, st, depth=0):
    """Terms a loop-variable component / an indexed element of a known collection can stand for."""
    if depth > 6 or node is None:
        return [node]
    if isinstance(node, ast.Subscript) and isinstance(node.slice, ast.Constant) and isinstance(node.slice.value, int):
        els = _elements(node.value, st)
        if els and all(isinstance(x, ast.Tuple) and len(x.elts) > node.slice.value for x in els):
            out = []
            for x in els:
                out.extend(_resolve(x.elts[node.slice.value], st, depth + 1))
            return out
    if isinstance(node, ast.Name):
        m = re.match(r'^_B([\dd]+)_(\d+)$', node.id)
        if m:
            key = '$' + m.group(1).replace('d', '.')
            coll = T.parse_term(st.bound.get(key, '')) if key in st.bound else None
            els = _elements(coll, st)
            i = int(m.group(2))
            if els and all(isinstance(x, ast.Tuple) and len(x.elts) > i for x in els):
                out = []
                for x in els:
                    out.extend(_resolve(x.elts[i], st, depth + 1))
                return out
    return [node]


def canonicalisation(rep, prog, M):
    # ---- C11.4 (i) CRLF conversion in hashdata (the 0x01 scenarios of the template check)
    sigdata.check_hashdata(rep, prog, 'C11.4', only_types={'CanonicalDocument'})
    # (ii) trailing blanks: the view used for signing and verifying
    sd = M.plain_props.get('_signed_data', {}).get('get')
    if sd is None:
        rep.violation('C11.4', 'PGPMessage', 'no signed-data view', 'trailing spaces and tabs of cleartext lines are hashed (RFC 4880 7.1: they are not part of '
                      'the signed text); nothing on the path from a cleartext message to hashdata removes them', where=M.where,
                      expected='strip [ \\t]+ before each line end on the sign and verify paths')
        return
    rep.saw(fn=sd)
    selfn = _receiver(sd)
    texts = ('%s.message' % selfn, '%s.bytes_to_text(%s._message)' % (selfn, selfn))
    for t in ('cleartext', 'literal'):
        for s in Interp(prog, Scenario(bind={'%s.type' % selfn: Const(t)}, inline=noinline)).run(sd):
            r = render(s.ret)
            if t == 'cleartext':
                sub = substitution(r)
                ok = sub is not None and sub[0] == 're' and sub[2] == '' and T.show(sub[4]) in texts and strips_trailing_blanks(sub[1], sub[3])
                rep.check(ok, 'C11.4', 'PGPMessage._signed_data', 'cleartext view %s' % r,
                          'the signed view of a cleartext message is its text with the trailing spaces and tabs of every line removed',
                          where=sd.where, expected="re.sub(r'[ \\t]+(?=\\r?$)', '', text, flags=re.MULTILINE)", found=r)
            else:
                rep.check(r == '%s.message' % selfn, 'C11.4', 'PGPMessage._signed_data', '%s view %s' % (t, r), 'other messages are signed as they are', where=sd.where)
    K = prog.cls('pgpy.pgp', 'PGPKey')
    sg = K.methods['sign']
    selfk = _receiver(sg)
    p = _own_params(sg)[0]
    msg = Sym(p, types={'PGPMessage'}, attrs={'type': Const('cleartext')}, nonnull=True)
    for s in Interp(prog, Scenario(args={p: msg}, inline=noinline, join_unknown=True)).run(sg):
        c = [x for x in s.calls if x[0] == '%s._sign' % selfk]
        rep.check(bool(c) and c[0][1][0] == '%s._signed_data' % p, 'C11.4', 'PGPKey.sign', 'signs %s' % (c[0][1][0] if c else None),
                  'a cleartext message must be signed over its signed view (trailing blanks removed)', where=sg.where,
                  expected='%s._signed_data' % p, found=c[0][1][0] if c else None)
    vf = K.methods['verify']
    ps = _own_params(vf)
    p = ps[0]
    msg = Sym(p, types={'PGPMessage'}, attrs={'type': Const('cleartext')}, nonnull=True)
    args = {p: msg}
    if len(ps) > 1:
        args[ps[1]] = Const(None)
    hashed = set()
    for s in Interp(prog, Scenario(args=args, inline=noinline, join_unknown=True)).run(vf):
        for c in s.calls:
            if c[0].split('.')[-1] == 'hashdata' and c[1]:
                for n in _resolve(T.parse_term(c[1][0]), s):
                    hashed.add(T.show(n) if n is not None else c[1][0])
    rep.check(hashed == {'%s._signed_data' % p}, 'C11.4', 'PGPKey.verify', 'message subject %s' % sorted(hashed),
              'a message must be verified over the same signed view it is signed over', where=vf.where, expected='%s._signed_data' % p, found=sorted(hashed))


def text_domain(rep, prog, A, writer_unicode):
    """C11.5: the writer emits the message's unicode text; the reader hands any non-ASCII input back as binary packet data."""
    fb = A.methods.get('from_blob')
    ua = A.methods.get('ascii_unarmor')
    if fb is None or ua is None:
        raise AnalysisError('Armorable.from_blob / ascii_unarmor vanished')
    p = _own_params(ua)[0]
    gate_binary = False
    for s in Interp(prog, Scenario(oracle=lambda t: False if re.search(r'\bis_ascii\(', t) else None, inline=noinline)).run(ua):
        if s.raised is None and _returned_entry(s, 'body') in (p, 'bytearray(%s)' % p, 'bytes(%s)' % p) and _returned_entry(s, 'magic') == 'None':
            gate_binary = True
    enc = set()
    bp = _own_params(fb)[0]
    for s in Interp(prog, Scenario(args={bp: Sym(bp, types={'str'}, nonnull=True)}, inline=noinline)).run(fb):
        for c in s.calls:
            if c[0] in ('bytearray', 'bytes') and len(c[1]) == 2 and c[1][0] == bp:
                enc.add('%s(%s, %s)' % (c[0], c[1][0], c[1][1]))
            if c[0] == '%s.encode' % bp:
                enc.add('%s.encode(%s)' % (bp, ', '.join(c[1])))
    if writer_unicode and gate_binary:
        rep.violation('C11.5', 'Armorable.ascii_unarmor', 'non-ASCII input is treated as binary (is_ascii gate)',
                      'the cleartext writer emits arbitrary Unicode text, but the reader treats any input containing a non-ASCII character as '
                      'binary packet data (and from_blob encodes str as latin-1): a cleartext message with non-ASCII text cannot be read back',
                      where=ua.where, expected='reader text domain >= writer text domain', found='writer: unicode; reader: ascii (%s)' % sorted(enc))
    else:
        rep.ok('C11.5', 'Armorable.ascii_unarmor', 'reader accepts the writer\'s text domain')


def text_signature_type(rep, prog):
    K = prog.cls('pgpy.pgp', 'PGPKey')
    sg = K.methods['sign']
    p = _own_params(sg)[0]
    for t, want in (('cleartext', 'SignatureType.CanonicalDocument'), ('literal', 'SignatureType.BinaryDocument')):
        msg = Sym(p, types={'PGPMessage'}, attrs={'type': Const(t)}, nonnull=True)
        for s in Interp(prog, Scenario(args={p: msg}, inline=noinline, join_unknown=True)).run(sg):
            types = sorted(set(c[1][0] for c in s.calls if c[0] == 'PGPSignature.new' and c[1]))
            rep.check(types == [want], 'C11.6', 'PGPKey.sign', '%s message -> %s' % (t, types), 'a %s message is signed with %s' % (t, want),
                      where=sg.where, expected=want, found=types, scenario=t)


def cleartext_documents():
    """(description, line ending, text, document): well-formed cleartext-signed documents with LF and with CR LF line endings."""
    out = []
    for eol, name in (('\n', 'LF'), ('\r\n', 'CR LF')):
        for what, lines in (('one line', ['a']), ('two lines', ['hello', 'world']), ('empty line inside and trailing blanks', ['x', '', 'y  \t']),
                            ('escaped dash line last', ['text', '- -----dashes'])):
            text = eol.join(lines)
            doc = eol.join(['-----BEGIN PGP SIGNED MESSAGE-----', 'Hash: SHA256', '', text, '-----BEGIN PGP SIGNATURE-----', 'Version: 1', '',
                            'iQEzBAEBCAAdFiEE', '=AAAA', '-----END PGP SIGNATURE-----', ''])
            out.append(('%s, %s' % (what, name), eol, text, doc))
    return out


def final_line_ending(rep, prog, A):
    """C11.7: the text the reader hands back is the signed text - the line ending in front of the signature armor is not part of it
    (RFC 4880 7.1), for LF and for CR LF armor.  Which part of the input a group captures depends on greedy / lazy choices, not on the
    language alone, so this is decided by matching witness documents with the checker's own matcher on the normalised tree."""
    tree, groups = armor_tree(A)
    if 'cleartext' not in groups:
        raise AnalysisError('armor regex: no cleartext group')
    bad = []
    for what, eol, text, doc in cleartext_documents():
        try:
            m = regexast.tree_search(tree, doc)
        except regexast.Unsupported as ex:
            raise AnalysisError('armor regex: %s' % ex)
        got = doc[slice(*m[groups['cleartext']])] if m is not None and groups['cleartext'] in m else None
        if got != text:
            bad.append('%s: text %r read as %r' % (what, text, got))
    rep.check(not bad, 'C11.7', 'Armorable.__armor_regex', 'cleartext captured on %d witness documents: %s' % (len(cleartext_documents()), bad[:1] or 'exactly the text'),
              'the last line of the text must not take (part of) the line ending in front of the signature armor: for CR LF input the CR of the final line '
              'ending becomes part of the text, although the line ending before the signature is not part of the signed text (RFC 4880 7.1)',
              where=A.where, expected='the text without its final line ending, for LF and CR LF armor', found=bad[:3])
