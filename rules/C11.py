"""C11 - Cleartext signature framework preserves the text and the signature (partial: inverse regex pair, call counts, canonicalisation).

  C11.1 dash_escape / dash_unescape are an inverse pair anchored at every line start; escape covers every line starting with '-'
  C11.2 __str__ escapes the cleartext exactly once; parse unescapes the `cleartext` group exactly once before storing it
  C11.3 the Hash: header lists the hash algorithms of all signatures; its alphabet and framing agree with the reader
  C11.4 RFC 4880 7.1 canonicalisation on the text-signature path: line endings -> CR LF (exactly LF and CR LF are line endings);
        trailing blanks removed on every path from a cleartext message to hashdata, in sign and in verify
  C11.5 text domain: what the writer can emit must be readable (writer domain <= reader domain)
  C11.6 a cleartext message is signed as a text signature (0x01); other messages as binary
  C11.7 the reader's cleartext group excludes the line ending that precedes the signature armor (final line ending not signed)
"""
import ast
import re

from sa.interp import Interp, Scenario, Sym, Const, Bytes, render
from sa.loader import AnalysisError, dotted
from sa import regexast, sigdata
from rules.C10 import _const_regex

noinline = lambda f: False  # noqa: E731


def _sub_call(fn):
    """(pattern, replacement, flags, subject) of the single re.sub/re.subn the function returns, or ('replace', a, b) / None."""
    rets = [n for n in ast.walk(fn.node) if isinstance(n, ast.Return)]
    if len(rets) != 1:
        return None
    v = rets[0].value
    if isinstance(v, ast.Subscript):
        v = v.value
    if isinstance(v, ast.Call) and dotted(v.func) in ('re.sub', 're.subn') and len(v.args) >= 3 and \
            isinstance(v.args[0], ast.Constant) and isinstance(v.args[1], ast.Constant):
        flags = 0
        for k in v.keywords:
            if k.arg == 'flags':
                for n in ast.walk(k.value):
                    if isinstance(n, ast.Attribute):
                        flags |= int(getattr(re, n.attr))
        if len(v.args) > 4 and isinstance(v.args[4], ast.Attribute):
            flags |= int(getattr(re, v.args[4].attr))
        return ('re', v.args[0].value, v.args[1].value, flags, ast.unparse(v.args[2]))
    if isinstance(v, ast.Call) and isinstance(v.func, ast.Attribute) and v.func.attr == 'replace' and len(v.args) == 2 and \
            all(isinstance(a, ast.Constant) for a in v.args):
        return ('replace', v.args[0].value, v.args[1].value, ast.unparse(v.func.value))
    return None


def run(rep, prog, tier):
    rep.rule('C11.1', 'dash-escape and dash-unescape are inverse, anchored at every line start, covering every "-" line', floor=5)
    rep.rule('C11.2', 'escape applied once on writing; unescape once on reading, to the cleartext group', floor=3)
    rep.rule('C11.3', 'Hash: header content, alphabet and framing agree between writer and reader', floor=4)
    rep.rule('C11.4', 'canonicalisation: CR LF conversion and trailing-blank removal on the sign and verify paths', floor=7)
    rep.rule('C11.5', 'writer text domain is within the reader text domain', floor=1)
    rep.rule('C11.6', 'cleartext message -> text signature', floor=2)
    rep.rule('C11.7', 'the line ending before the signature armor is not part of the text', floor=1)
    rep.assume('other implementations treat exactly LF and CR LF as line endings (GnuPG)')

    M = prog.cls('pgpy.pgp', 'PGPMessage')
    esc = M.methods.get('dash_escape')
    une = M.methods.get('dash_unescape')
    if esc is None or une is None:
        raise AnalysisError('PGPMessage.dash_escape / dash_unescape vanished')
    rep.saw(fn=esc)
    rep.saw(fn=une)
    e, u = _sub_call(esc), _sub_call(une)
    # ---- C11.1
    if e is None or u is None:
        raise AnalysisError('dash escape/unescape: unrecognised implementation shape')
    if e[0] == 'replace':
        rep.violation('C11.1', 'PGPMessage.dash_escape', 'str.replace(%r, %r)' % (e[1], e[2]),
                      'escaping by replacing %r cannot match at the very start of the text: a first line beginning with "-" is not escaped' % e[1],
                      where=esc.where, expected="re.sub(r'^-', '- -', text, flags=re.MULTILINE)", found=ast.unparse(esc.node.body[-1]))
    else:
        _, pe, re_, fe, se = e
        lit = regexast.literal_after_bol(pe, fe)
        rep.check(regexast.starts_with_bol(pe, fe) and bool(fe & re.MULTILINE), 'C11.1', 'PGPMessage.dash_escape', 'pattern %r flags %d' % (pe, fe),
                  'escaping must look at the start of EVERY line (^ with MULTILINE)', where=esc.where, expected="^ ... re.MULTILINE", found=(pe, fe))
        rep.check(lit == '-', 'C11.1', 'PGPMessage.dash_escape', 'escapes lines starting with %r' % lit,
                  'every line starting with a dash must be escaped (RFC 4880 7.1 MUST)', where=esc.where, expected='-', found=lit)
        rep.check(lit is not None and re_.endswith(lit) and re_[:len(re_) - len(lit)] == '- ', 'C11.1', 'PGPMessage.dash_escape', 'replacement %r' % re_,
                  'the escape prefix is "- " and the line\'s own dash is kept', where=esc.where, expected='- -', found=re_)
        if u[0] == 're':
            _, pu, ru, fu, su = u
            litu = regexast.literal_after_bol(pu, fu)
            ins = re_[:len(re_) - len(lit or '')] if lit else None
            rep.check(regexast.starts_with_bol(pu, fu) and bool(fu & re.MULTILINE), 'C11.1', 'PGPMessage.dash_unescape', 'pattern %r flags %d' % (pu, fu),
                      'unescaping must look at the start of EVERY line (^ with MULTILINE)', where=une.where)
            rep.check(litu == ins and ru == '', 'C11.1', 'PGPMessage.dash_unescape', 'removes %r (escape inserts %r)' % (litu, ins),
                      'what unescape removes must be exactly what escape inserted', where=une.where, expected=ins, found=litu)
        else:
            rep.violation('C11.1', 'PGPMessage.dash_unescape', 'str.replace', 'unescaping by plain replacement is not anchored at line starts', where=une.where)
    # ---- C11.2
    st = M.methods.get('__str__')
    calls = [c for c in ast.walk(st.node) if isinstance(c, ast.Call) and isinstance(c.func, ast.Attribute) and c.func.attr == 'dash_escape']
    rep.check(len(calls) == 1 and ast.unparse(calls[0].args[0]) == 'self.bytes_to_text(self._message)', 'C11.2', 'PGPMessage.__str__',
              'dash_escape calls %s' % [ast.unparse(c) for c in calls], 'the cleartext is escaped exactly once when written', where=st.where)
    kw = [k for c in ast.walk(st.node) if isinstance(c, ast.Call) and isinstance(c.func, ast.Attribute) and c.func.attr == 'format'
          for k in c.keywords if k.arg == 'cleartext']
    rep.check(len(kw) == 1 and isinstance(kw[0].value, ast.Call) and ast.unparse(kw[0].value.func).endswith('dash_escape'), 'C11.2', 'PGPMessage.__str__',
              'cleartext slot is the escaped text', 'what is written between the header and the signature is the escaped text', where=st.where)
    pf = M.methods.get('parse')
    calls = [c for c in ast.walk(pf.node) if isinstance(c, ast.Call) and isinstance(c.func, ast.Attribute) and c.func.attr == 'dash_unescape']
    ok = len(calls) == 1 and ast.unparse(calls[0].args[0]) == "unarmored['cleartext']"
    if ok:
        # and the result is what gets stored (self |= ...)
        aug = [n for n in ast.walk(pf.node) if isinstance(n, ast.AugAssign) and any(x is calls[0] for x in ast.walk(n.value))]
        ok = len(aug) == 1 and ast.unparse(aug[0].target) == 'self' and aug[0].value is calls[0]
    rep.check(ok, 'C11.2', 'PGPMessage.parse', 'dash_unescape calls %s' % [ast.unparse(c) for c in calls],
              'the cleartext group is unescaped exactly once and that result is the message text', where=pf.where,
              expected="self |= self.dash_unescape(unarmored['cleartext'])")
    # ---- C11.3
    src = ast.unparse(st.node)
    rep.check('set((s.hash_algorithm.name for s in self.signatures))' in src and "','.join(sorted(hashes))" in src and "'Hash: {hashes:s}\\n'" in src,
              'C11.3', 'PGPMessage.__str__', 'Hash header construction', 'the Hash: header lists the hash algorithm names of all signatures, comma separated',
              where=st.where)
    A = prog.cls('pgpy.types', 'Armorable')
    pat, flags = _const_regex(A)
    hg = regexast.subpattern(pat, 'hashes', flags)
    cls_chars = None
    if hg and str(hg[0][0]) in ('MAX_REPEAT',) and list(hg[0][1][2]) and str(list(hg[0][1][2])[0][0]) == 'IN':
        cls_chars = regexast.charclass(list(hg[0][1][2])[0][1])
    H = prog.cls('pgpy.constants', 'HashAlgorithm')
    names = [n for n in H.enum_members() if not n.startswith('_') and n != 'Invalid']
    need = set(''.join(names)) | {','}
    rep.check(cls_chars is not None and need <= cls_chars, 'C11.3', 'Armorable.__armor_regex', 'hashes alphabet',
              'every character the writer can put into the Hash: header must be accepted by the reader', where=A.where,
              expected=sorted(need), found=sorted(cls_chars or []))
    # framing: the writer puts exactly two line endings after the Hash line (one ends the line, one is the empty separator line);
    # the reader must consume exactly those two, or it eats empty lines that belong to the text
    tmpl = [n.value for n in ast.walk(st.node) if isinstance(n, ast.Constant) and isinstance(n.value, str) and 'BEGIN PGP SIGNED MESSAGE' in n.value]
    w_ok = len(tmpl) == 1 and tmpl[0].startswith('-----BEGIN PGP SIGNED MESSAGE-----\n{hhdr:s}\n{cleartext:s}\n{signature:s}')
    rep.check(w_ok, 'C11.3', 'PGPMessage.__str__', 'cleartext template', 'header line, Hash header, one empty line, text, signature armor', where=st.where,
              found=tmpl)
    rep_after = None
    p = regexast.parse(pat, flags)

    def find_after_hashes(items, gid):
        items = list(items)
        for i, (op, av) in enumerate(items):
            n = str(op)
            if n == 'SUBPATTERN':
                if av[0] == gid and i + 1 < len(items):
                    return items[i + 1]
                r = find_after_hashes(av[3], gid)
                if r is not None:
                    return r
            elif n in ('MAX_REPEAT', 'MIN_REPEAT'):
                r = find_after_hashes(av[2], gid)
                if r is not None:
                    return r
            elif n == 'BRANCH':
                for br in av[1]:
                    r = find_after_hashes(br, gid)
                    if r is not None:
                        return r
        return None
    nxt = find_after_hashes(p, p.state.groupdict.get('hashes'))
    if nxt is not None and str(nxt[0]) in ('MAX_REPEAT', 'MIN_REPEAT'):
        rep_after = (nxt[1][0], nxt[1][1])
    rep.check(rep_after == (2, 2), 'C11.3', 'Armorable.__armor_regex', 'line endings after the Hash header: %s' % (rep_after,),
              'the reader must take exactly the two line endings the writer emits after "Hash:"; a greedier match swallows leading empty lines of the text',
              where=A.where, expected='(?:\\r?\\n){2}', found=rep_after)
    # ---- C11.4 (i) CRLF conversion in hashdata (the 0x01 scenarios of the template check)
    sigdata.check_hashdata(rep, prog, 'C11.4', only_types={'CanonicalDocument'})
    # (ii) trailing blanks: the view used for signing and verifying
    sd = M.plain_props.get('_signed_data', {}).get('get')
    if sd is None:
        rep.violation('C11.4', 'PGPMessage', 'no signed-data view', 'trailing spaces and tabs of cleartext lines are hashed (RFC 4880 7.1: they are not part of '
                      'the signed text); nothing on the path from a cleartext message to hashdata removes them', where=M.where,
                      expected='strip [ \\t]+ before each line end on the sign and verify paths')
    else:
        rep.saw(fn=sd)
        for t in ('cleartext', 'literal'):
            for s in Interp(prog, Scenario(bind={'self.type': Const(t)}, inline=noinline)).run(sd):
                r = render(s.ret)
                if t == 'cleartext':
                    m = re.match(r"^re\.subn?\('(.*)', '', self\.message, flags=re\.MULTILINE\)(\[0\])?$", r)
                    ok = False
                    if m:
                        pt = m.group(1).encode().decode('unicode_escape')
                        ok = _strips_trailing_blanks(pt)
                    rep.check(ok, 'C11.4', 'PGPMessage._signed_data', 'cleartext view %s' % r,
                              'the signed view of a cleartext message is its text with the trailing spaces and tabs of every line removed',
                              where=sd.where, expected="re.sub(r'[ \\t]+(?=\\r?$)', '', text, flags=re.MULTILINE)", found=r)
                else:
                    rep.check(r == 'self.message', 'C11.4', 'PGPMessage._signed_data', '%s view %s' % (t, r), 'other messages are signed as they are', where=sd.where)
        K = prog.cls('pgpy.pgp', 'PGPKey')
        sg = K.methods['sign']
        msg = Sym('subject', types={'PGPMessage'}, attrs={'type': Const('cleartext')}, nonnull=True)
        for s in Interp(prog, Scenario(args={'subject': msg}, inline=noinline, join_unknown=True)).run(sg):
            c = [x for x in s.calls if x[0] == 'self._sign']
            rep.check(bool(c) and c[0][1][0] == 'subject._signed_data', 'C11.4', 'PGPKey.sign', 'signs %s' % (c[0][1][0] if c else None),
                      'a cleartext message must be signed over its signed view (trailing blanks removed)', where=sg.where,
                      expected='subject._signed_data', found=c[0][1][0] if c else None)
        vf = K.methods['verify']
        srcv = ast.unparse(vf.node)
        pairs = [ast.unparse(n) for n in ast.walk(vf.node) if isinstance(n, ast.Tuple) and len(n.elts) == 2 and
                 ast.unparse(n.elts[0]) == 'sig' and 'subject.' in ast.unparse(n.elts[1])]
        rep.check(pairs == ['(sig, subject._signed_data)'], 'C11.4', 'PGPKey.verify', 'message subject %s' % pairs,
                  'a message must be verified over the same signed view it is signed over', where=vf.where, expected='(sig, subject._signed_data)', found=pairs)
    # ---- C11.5 text domain
    fb = A.methods.get('from_blob')
    enc = [ast.unparse(c) for c in ast.walk(fb.node) if isinstance(c, ast.Call) and dotted(c.func) == 'bytearray' and len(c.args) == 2]
    ua = A.methods.get('ascii_unarmor')
    gate = [n for n in ua.node.body if isinstance(n, ast.If) and 'is_ascii' in ast.unparse(n.test)]
    gate_binary = bool(gate) and "m['body'] = bytearray(text)" in ast.unparse(gate[0])
    writer_unicode = 'self.bytes_to_text(self._message)' in ast.unparse(st.node)
    if writer_unicode and gate_binary:
        rep.violation('C11.5', 'Armorable.ascii_unarmor', 'non-ASCII input is treated as binary (is_ascii gate)',
                      'the cleartext writer emits arbitrary Unicode text, but the reader treats any input containing a non-ASCII character as '
                      'binary packet data (and from_blob encodes str as latin-1): a cleartext message with non-ASCII text cannot be read back',
                      where=ua.where, expected='reader text domain >= writer text domain', found='writer: unicode; reader: ascii (%s)' % enc)
    else:
        rep.ok('C11.5', 'Armorable.ascii_unarmor', 'reader accepts the writer\'s text domain')
    # ---- C11.6
    K = prog.cls('pgpy.pgp', 'PGPKey')
    sg = K.methods['sign']
    for t, want in (('cleartext', 'SignatureType.CanonicalDocument'), ('literal', 'SignatureType.BinaryDocument')):
        msg = Sym('subject', types={'PGPMessage'}, attrs={'type': Const(t)}, nonnull=True)
        for s in Interp(prog, Scenario(args={'subject': msg}, inline=noinline, join_unknown=True)).run(sg):
            types = sorted(set(c[1][0] for c in s.calls if c[0] == 'PGPSignature.new'))
            rep.check(types == [want], 'C11.6', 'PGPKey.sign', '%s message -> %s' % (t, types), 'a %s message is signed with %s' % (t, want),
                      where=sg.where, expected=want, found=types, scenario=t)
    # ---- C11.7 final line ending excluded
    cg = regexast.subpattern(pat, 'cleartext', flags)
    last = None
    if cg:
        last = list(cg)[-1]
    ok = False
    detail = None
    if last is not None and str(last[0]) == 'SUBPATTERN':
        inner = list(last[1][3])
        # expected: a "rest of line" repeat followed by a lookahead for (\r?)\n-----
        if len(inner) == 2 and str(inner[0][0]) in ('MAX_REPEAT', 'MIN_REPEAT') and str(inner[1][0]) == 'ASSERT':
            look = list(inner[1][1][1])
            first = look[0] if look else None
            optional_cr = first is not None and str(first[0]) in ('MAX_REPEAT', 'MIN_REPEAT') and first[1][0] == 0 and \
                list(first[1][2]) == [(list(first[1][2])[0][0], 13)]
            greedy = str(inner[0][0]) == 'MAX_REPEAT'
            detail = 'final line: %s any-char repeat before lookahead with optional CR=%s' % ('greedy' if greedy else 'lazy', optional_cr)
            ok = not (greedy and optional_cr)
    if detail is None:
        raise AnalysisError('armor regex: cleartext group has an unrecognised shape')
    rep.check(ok, 'C11.7', 'Armorable.__armor_regex', detail,
              'the last line of the text is matched greedily in front of a lookahead whose CR is optional: for CRLF input the CR of the final line '
              'ending becomes part of the text, although the line ending before the signature is not part of the signed text (RFC 4880 7.1)',
              where=A.where, expected='(.*?(?=\\r?\\n-{5})) (lazy) or a lookahead that requires the CR', found=detail)


def _strips_trailing_blanks(pattern):
    """[ \\t]+ immediately before an end-of-line assertion that tolerates an optional CR, and nothing else."""
    try:
        items = list(regexast.parse(pattern, re.MULTILINE))
    except Exception:
        return False
    if len(items) != 2:
        return False
    (o1, a1), (o2, a2) = items
    if str(o1) != 'MAX_REPEAT' or a1[0] != 1 or str(a1[1]) != 'MAXREPEAT':
        return False
    inner = list(a1[2])
    if len(inner) != 1 or str(inner[0][0]) != 'IN' or regexast.charclass(inner[0][1]) != {' ', '\t'}:
        return False
    if str(o2) != 'ASSERT' or a2[0] != 1:
        return False
    look = list(a2[1])
    names = [str(op) for op, av in look]
    if names == ['AT']:
        return str(look[0][1]) in ('AT_END', 'AT_END_LINE')
    if names == ['MAX_REPEAT', 'AT']:
        rp = look[0][1]
        return rp[0] == 0 and rp[1] == 1 and [(str(o), a) for o, a in list(rp[2])] == [('LITERAL', 13)] and \
            str(look[1][1]) in ('AT_END', 'AT_END_LINE')
    return False
