"""C06 - Secret keys at rest: passphrase protection is correct, checked, wiped after use.

  C06.1 unlock(): from every unprotect and from the yield, every way out (normal, exception, generator close) passes the cleanup
        that clears the same set of keys that was unprotected
  C06.2 clear() resets every private field; no secret-derived value is kept in any attribute outside the private fields
  C06.3 encrypt_keyblob: plaintext = private MPIs || SHA-1(private MPIs), usage 254, iterated+salted, CFB under the stored IV;
        clear() after the ciphertext is stored
  C06.4 decrypt_keyblob guards dominate the return (with C04.4); subclasses call the base check before storing any secret field
  C06.5 serialisation emits private fields only on the unprotected arm; the protected arm emits the ciphertext
  C06.6 private operations require is_unlocked=True
  C06.7 parsing protected material never consumes from (or after) an aliased buffer
  C06.8 the S2K derivation has the RFC 4880 3.7.1 structure (shared with C12) so that another implementation derives the same key
"""
import ast
import re

from sa.interp import alpha, Interp, Scenario, Sym, Const, Bytes, render, render_items, merge_consts
from sa.loader import AnalysisError, dotted
from sa.cfg import CFG, calls_in
from sa import guards, codec, keyaction, tables
from rules import C12

noinline = lambda f: False  # noqa: E731


def run(rep, prog, tier):
    rep.rule('C06.1', 'unlock: every exit after an unprotect passes the cleanup over the same keys', floor=5)
    rep.rule('C06.2', 'clear() covers all private fields; nothing secret-derived is cached elsewhere', floor=8)
    rep.rule('C06.3', 'encrypt_keyblob layout (MPIs || SHA-1, usage 254, iterated S2K, stored IV) and clear() afterwards', floor=6)
    rep.rule('C06.4', 'base decrypt_keyblob check precedes every secret store in each subclass; guards as C04.4', floor=7)
    rep.rule('C06.5', 'private fields are serialised only when unprotected', floor=4)
    rep.rule('C06.6', 'private operations require is_unlocked=True', floor=6)
    rep.rule('C06.7', 'protected-material parse: no consumption from an aliased buffer', floor=10)
    rep.rule('C06.8', 'S2K derivation structure (RFC 4880 3.7.1)', floor=8)
    rep.rule('C06.8b', 'S2K context count', floor=1)
    rep.assume('secrets in interpreter-internal copies (locals, GC) are out of reach of a source-level analysis')

    check_unlock(rep, prog)
    check_clear(rep, prog)
    check_encrypt_keyblob(rep, prog)
    check_decrypt_order(rep, prog)
    check_export_discipline(rep, prog)
    check_locked_refusal(rep, prog)
    check_protected_parse(rep, prog)
    C12.check_derive_key(rep, prog, 'C06.8', 'C06.8b')


# ------------------------------------------------------------------------------------------------ C06.1
def check_unlock(rep, prog):
    fi = prog.method('pgpy.pgp', 'PGPKey', 'unlock')
    rep.saw(fn=fi)

    def risky(st):
        t = ast.unparse(st)
        return '.unprotect(' in t or 'decrypt_keyblob(' in t or any(isinstance(n, (ast.Yield, ast.YieldFrom)) for n in ast.walk(st))
    g = CFG(fi.node, raising=risky)
    unp = [n for n in g.nodes if n.kind == 'stmt' and n.ast is not None and '.unprotect(' in ast.unparse(n.ast)]
    clr = [n for n in g.nodes if n.kind == 'stmt' and n.ast is not None and re.search(r'\.clear\(\)', ast.unparse(n.ast))]
    if not unp:
        raise AnalysisError('PGPKey.unlock no longer calls unprotect')
    if not clr:
        rep.violation('C06.1', 'PGPKey.unlock', 'no cleanup', 'nothing clears the secret material after the unlock scope', where=fi.where)
        return
    clr_ids = set(n.id for n in clr)
    # loop heads that iterate the cleanup: a path that enters the cleanup loop is considered to clear (the loop body is the clear)
    clr_loops = set()
    for n in g.nodes:
        if n.kind == 'loop' and any(m in clr_ids for m, lab in g.succ[n.id] if lab == 'T'):
            clr_loops.add(n.id)
    through = clr_ids | clr_loops
    for u in unp:
        for dst, what in ((g.exit.id, 'normal end of the scope'), (g.raise_exit.id, 'an exception (wrong passphrase on a later key, error in the with-body, generator close)')):
            ok = g.must_pass(through, u.id, dst)
            rep.check(ok, 'C06.1', 'PGPKey.unlock', 'unprotect at line %d -> %s' % (u.lineno, 'exit' if dst == g.exit.id else 'raise'),
                      'after a key has been unprotected, %s can be reached without clearing the secret material' % what,
                      where='%s:%d' % (fi.module.relpath, u.lineno), expected='every way out passes keymaterial.clear()',
                      found='a path from the unprotect call leaves the function without the cleanup')
    ys = [n for n in g.nodes if n.kind == 'stmt' and n.ast is not None and any(isinstance(x, ast.Yield) for x in ast.walk(n.ast))]
    # the yield that hands out the unlocked key: the one reachable from an unprotect
    reach = set()
    for u in unp:
        reach |= g.reachable(u.id)
    hand = [y for y in ys if y.id in reach]
    rep.check(len(hand) == 1, 'C06.1', 'PGPKey.unlock', 'yield after unprotect: %d' % len(hand), 'the unlocked key is handed out exactly once', where=fi.where)
    for y in hand:
        for dst in (g.exit.id, g.raise_exit.id):
            ok = g.must_pass(through, y.id, dst)
            rep.check(ok, 'C06.1', 'PGPKey.unlock', 'yield at line %d -> %s' % (y.lineno, 'exit' if dst == g.exit.id else 'raise'),
                      'when the unlock scope ends (normally or through an exception) the key must be locked again', where='%s:%d' % (fi.module.relpath, y.lineno))
    # same iteration domain, and the thing cleared is the key material of each of them
    def loop_iter_of(node):
        for l in [n for n in ast.walk(fi.node) if isinstance(n, ast.For)]:
            if any(x is node.ast for x in ast.walk(l)):
                return ast.unparse(l.iter), ast.unparse(l.target)
        return None, None
    ui = sorted(set(loop_iter_of(u)[0] or '<no loop>' for u in unp))
    ci_ = sorted(set(loop_iter_of(c)[0] or '<no loop>' for c in clr))
    rep.check(ui == ci_ == ['itertools.chain([self], self.subkeys.values())'], 'C06.1', 'PGPKey.unlock', 'unprotect over %s, clear over %s' % (ui, ci_),
              'the cleanup must cover exactly the keys that were unprotected: the primary and every subkey', where=fi.where,
              expected='itertools.chain([self], self.subkeys.values()) for both', found='%s / %s' % (ui, ci_))
    for c in clr:
        t = ast.unparse(c.ast)
        var = loop_iter_of(c)[1]
        rep.check(t == '%s._key.keymaterial.clear()' % var, 'C06.1', 'PGPKey.unlock', 'cleanup statement %s' % t,
                  'the cleanup must clear the key material of each key', where='%s:%d' % (fi.module.relpath, c.lineno))
    for u in unp:
        t = ast.unparse(u.ast)
        var = loop_iter_of(u)[1]
        rep.check(t == '%s._key.unprotect(passphrase)' % var, 'C06.1', 'PGPKey.unlock', 'unprotect statement %s' % t,
                  'each key is unprotected with the caller\'s passphrase', where='%s:%d' % (fi.module.relpath, u.lineno))
    up = prog.method('pgpy.packet.packets', 'PrivKeyV4', 'unprotect')
    rep.check('self.keymaterial.decrypt_keyblob(passphrase)' in ast.unparse(up.node), 'C06.1', 'PrivKeyV4.unprotect', 'delegates to decrypt_keyblob',
              'unprotect decrypts the key material with the passphrase', where=up.where)


# ------------------------------------------------------------------------------------------------ C06.2
def private_classes(prog):
    fields = prog.module('pgpy.packet.fields')
    base = fields.classes.get('PrivKey')
    if base is None:
        raise AnalysisError('fields.PrivKey vanished')
    return base, [c for c in fields.classes.values() if c is not base and base in c.mro()]


def check_clear(rep, prog):
    base, privs = private_classes(prog)
    cl = base.methods.get('clear')
    if cl is None:
        raise AnalysisError('PrivKey.clear vanished')
    rep.saw(fn=cl)
    loops = [n for n in ast.walk(cl.node) if isinstance(n, ast.For)]
    ok = len(loops) == 1 and ast.unparse(loops[0].iter) == 'self.__privfields__'
    body = ' ; '.join(ast.unparse(x) for x in loops[0].body) if loops else ''
    var = ast.unparse(loops[0].target) if loops else 'field'
    ok = ok and ('setattr(self, %s, MPI(0))' % var) in body
    rep.check(ok, 'C06.2', 'PrivKey.clear', body or '<no loop>', 'clear() must overwrite every private field with the zero placeholder',
              where=cl.where, expected='for field in self.__privfields__: setattr(self, field, MPI(0))', found=body)
    for c in privs:
        if c.name.startswith('Opaque'):
            continue
        own = c.find_method('clear')
        rep.check(own is cl, 'C06.2', '%s.clear' % c.name, 'resolves to %s' % (own.qualname if own else None),
                  'every private key-material class must use the clear() that covers all its private fields', where=c.where)
        pf = c.find_attr('__privfields__')
        priv = set(ast.literal_eval(pf)) if pf is not None else set()
        rep.check(bool(priv), 'C06.2', c.name, '__privfields__ = %s' % sorted(priv), 'a private class must declare its secret fields', where=c.where)
        # no secret-derived value may be kept in another attribute
        allowed_targets = priv | {'chksum', 'encbytes', 's2k', 'oid', 'kdf'} | set(_pubfields(c))
        for k in c.mro():
            if k.module is not c.module:
                continue
            for defs in k.all_defs.values():
                for f in defs:
                    p = f.params
                    if not p:
                        continue
                    for n in ast.walk(f.node):
                        if isinstance(n, ast.Assign):
                            for t in n.targets:
                                if isinstance(t, ast.Attribute) and isinstance(t.value, ast.Name) and t.value.id == p[0] and t.attr not in allowed_targets:
                                    vt = ast.unparse(n.value)
                                    secret = any(re.search(r'\b%s\.%s\b' % (p[0], x), vt) for x in priv) or '__privkey__' in vt or \
                                        'private_key(' in vt or 'from_private_bytes' in vt or re.search(r'\bkb\b|\bpt\b', vt) is not None
                                    rep.check(not secret, 'C06.2', '%s (via %s)' % (c.name, f.qualname), ast.unparse(n),
                                              'a value derived from the secret integers is stored in attribute %s, which clear() does not wipe' % t.attr,
                                              where='%s:%d' % (f.module.relpath, n.lineno), expected='secret values only in %s' % sorted(priv),
                                              found=ast.unparse(n))
        # __privkey__ must build the library key on demand (no memo)
        pk = c.find_method('__privkey__')
        if pk is not None:
            memo = [ast.unparse(n) for n in ast.walk(pk.node) if isinstance(n, (ast.Assign, ast.AugAssign)) and
                    any(isinstance(t, ast.Attribute) for t in (n.targets if isinstance(n, ast.Assign) else [n.target]))]
            glob = [ast.unparse(n) for n in ast.walk(pk.node) if isinstance(n, (ast.Global, ast.Nonlocal))]
            rep.check(not memo and not glob and not pk.node.decorator_list, 'C06.2', '%s.__privkey__' % pk.cls.name, 'memo %s' % (memo + glob),
                      'the library private-key object holds the secret integers; it must not be cached on the object', where=pk.where,
                      found=memo + glob)


def _pubfields(c):
    pf = c.find_attr('__pubfields__')
    try:
        return list(ast.literal_eval(pf)) if pf is not None else []
    except Exception:
        return []


# ------------------------------------------------------------------------------------------------ C06.3
def check_encrypt_keyblob(rep, prog):
    fi = prog.method('pgpy.packet.fields', 'PrivKey', 'encrypt_keyblob')
    rep.saw(fn=fi)
    for s in Interp(prog, Scenario(inline=noinline)).run(fi):
        st = {p: v for p, v, l, _ in s.stores}
        rep.check(st.get('self.s2k.usage') == '254', 'C06.3', 'PrivKey.encrypt_keyblob', 'usage %s' % st.get('self.s2k.usage'),
                  'new protection must use S2K usage 254 (SHA-1 integrity check)', where=fi.where)
        rep.check(st.get('self.s2k.specifier') == 'String2KeyType.Iterated', 'C06.3', 'PrivKey.encrypt_keyblob', 'specifier %s' % st.get('self.s2k.specifier'),
                  'new protection must use the iterated and salted S2K', where=fi.where)
        rep.check(st.get('self.s2k.encalg') == 'enc_alg' and st.get('self.s2k.halg') == 'hash_alg', 'C06.3', 'PrivKey.encrypt_keyblob',
                  'cipher %s hash %s' % (st.get('self.s2k.encalg'), st.get('self.s2k.halg')), 'the specifier records the cipher and hash chosen by the caller',
                  where=fi.where)
        enc = [c for c in s.calls if c[0] == '_encrypt']
        if len(enc) != 1:
            rep.violation('C06.3', 'PrivKey.encrypt_keyblob', '%d _encrypt calls' % len(enc), 'expected one encryption of the secret material', where=fi.where)
            continue
        a = enc[0][1]
        M = 'EACH($1 in self.__privfields__;getattr(self, $1).to_mpibytes())'
        exp_pt = '%s HASH(sha1;%s)' % (M, M)
        rep.check(alpha(a[0]) == exp_pt, 'C06.3', 'PrivKey.encrypt_keyblob', 'plaintext %s' % a[0],
                  'the protected plaintext is the private MPIs followed by their SHA-1 (RFC 4880 5.5.3)', where=fi.where, expected=exp_pt, found=a[0])
        rep.check(a[1:] == ['self.s2k.derive_key(passphrase)', 'enc_alg', 'enc_alg.gen_iv()'], 'C06.3', 'PrivKey.encrypt_keyblob', '_encrypt key/alg/iv %s' % a[1:],
                  'encryption uses the passphrase-derived key, the chosen cipher and the IV stored in the specifier', where=fi.where)
        # clear() after the ciphertext is stored
        idx_store = next((i for i, e in enumerate(s.events) if e[0] == 'store' and e[1] == 'self.encbytes'), None)
        idx_clear = next((i for i, e in enumerate(s.events) if e[0] == 'call' and e[1] == 'self.clear'), None)
        rep.check(idx_store is not None and idx_clear is not None and idx_clear > idx_store, 'C06.3', 'PrivKey.encrypt_keyblob',
                  'encbytes stored at %s, clear at %s' % (idx_store, idx_clear), 'after protecting, the cleartext secret fields must be wiped', where=fi.where)
        rep.check(st.get('self.encbytes', '').startswith('_encrypt('), 'C06.3', 'PrivKey.encrypt_keyblob', 'encbytes = ciphertext',
                  'the at-rest form is the ciphertext', where=fi.where)
    pr = prog.method('pgpy.packet.packets', 'PrivKeyV4', 'protect')
    src = ast.unparse(pr.node)
    rep.check('self.keymaterial.encrypt_keyblob(passphrase, enc_alg, hash_alg)' in src and 'self.update_hlen()' in src, 'C06.3', 'PrivKeyV4.protect',
              'encrypt_keyblob then update_hlen', 'protecting recomputes the packet length', where=pr.where)
    kp = prog.method('pgpy.pgp', 'PGPKey', 'protect')
    loops = [ast.unparse(n.iter) for n in ast.walk(kp.node) if isinstance(n, ast.For)]
    rep.check(loops == ['itertools.chain([self], self.subkeys.values())'], 'C06.3', 'PGPKey.protect', 'protects %s' % loops,
              'protecting a key protects the primary and every subkey', where=kp.where)


# ------------------------------------------------------------------------------------------------ C06.4
def check_decrypt_order(rep, prog):
    base, privs = private_classes(prog)
    bd = base.methods.get('decrypt_keyblob')
    # guards (same as C04.4)
    for usage in (254, 255):
        sc = Scenario(bind={'self.s2k.usage': Const(usage)}, axioms={'not self.s2k': False}, inline=noinline)
        outs = Interp(prog, sc).run(bd)
        PT = None
        for s in outs:
            for c in s.calls:
                if c[0] == '_decrypt':
                    PT = '_decrypt(%s)' % ', '.join(c[1])
        if PT is None:
            raise AnalysisError('PrivKey.decrypt_keyblob no longer calls _decrypt')
        if usage == 254:
            pred = lambda a, b, _PT=PT: a.replace(_PT, 'PT') == 'SLICE(PT;-20;)' and b.replace(_PT, 'PT') == 'HASH(sha1;SLICE(PT;;-20))'  # noqa: E731
            what = 'the SHA-1 check of the decrypted secret material'
        else:
            pred = lambda a, b, _PT=PT: a.replace(_PT, 'PT') == 'self.bytes_to_int(SLICE(PT;-2;))' and b.replace(_PT, 'PT') == '(sum(SLICE(PT;;-2)) % 65536)'  # noqa: E731
            what = 'the 16-bit checksum of the decrypted secret material'
        guards.check_guard(rep, 'C06.4', 'PrivKey.decrypt_keyblob', outs, pred, what, bd.where, scenario='usage %d' % usage)
    for c in privs:
        f = c.methods.get('decrypt_keyblob')
        if f is None or c.name.startswith('Opaque'):
            continue
        rep.saw(fn=f)
        pf = set(ast.literal_eval(c.find_attr('__privfields__')))
        outs = Interp(prog, Scenario(inline=noinline)).run(f)
        for s in outs:
            first_store = next((i for i, e in enumerate(s.events) if e[0] == 'store' and e[1].startswith('self.') and e[1][5:] in pf), None)
            base_call = next((i for i, e in enumerate(s.events) if e[0] == 'call' and e[1].startswith('super:') and e[1].endswith('decrypt_keyblob')), None)
            rep.check(base_call is not None and (first_store is None or base_call < first_store), 'C06.4', '%s.decrypt_keyblob' % c.name,
                      'base check at %s, first secret store at %s' % (base_call, first_store),
                      'the checked decryption must come first: a wrong passphrase must raise before any secret field is written', where=f.where)
            # what is stored comes from the checked plaintext
            for e in s.events:
                if e[0] == 'store' and e[1].startswith('self.') and e[1][5:] in pf:
                    rep.check('decrypt_keyblob(passphrase)' in e[2], 'C06.4', '%s.decrypt_keyblob' % c.name, '%s = %s' % (e[1], e[2][:80]),
                              'secret fields must be read from the checked plaintext', where='%s:%d' % (f.module.relpath, e[3]))
            break


# ------------------------------------------------------------------------------------------------ C06.5
def check_export_discipline(rep, prog):
    base, privs = private_classes(prog)
    writers = {}
    for c in [base] + privs:
        f = c.methods.get('__bytearray__')
        if f is not None and not c.name.startswith('Opaque'):
            writers[c.name] = (c, f)
    for name, (c, f) in writers.items():
        rep.saw(fn=f)
        pf = c.find_attr('__privfields__')
        priv = set(ast.literal_eval(pf)) if pf is not None else set()
        for protected in (True, False):
            sc = Scenario(inline=noinline, axioms={'self.s2k': protected, 'not self.s2k': not protected}, bind={'self.s2k.usage': Const(254 if protected else 0)})
            for s in Interp(prog, sc).run(f):
                r = render(s.ret)
                mentions_priv = '__privfields__' in r or any(re.search(r'self\.%s\.to_mpibytes' % x, r) for x in priv)
                has_enc = 'self.encbytes' in r
                if protected:
                    rep.check(not mentions_priv and has_enc, 'C06.5', '%s.__bytearray__' % name, 'protected arm emits %s' % r[-120:],
                              'a protected key must serialise its ciphertext and none of the private fields', where=f.where,
                              expected='... self.s2k.__bytearray__() self.encbytes', found=r, scenario='protected')
                else:
                    rep.check(mentions_priv and not has_enc, 'C06.5', '%s.__bytearray__' % name, 'unprotected arm emits %s' % r[-120:],
                              'an unprotected key serialises its private fields', where=f.where, found=r, scenario='unprotected')
                rep.check('self.s2k.__bytearray__()' in r, 'C06.5', '%s.__bytearray__' % name, 'S2K specifier emitted', 'the S2K usage/specifier precedes the secret part',
                          where=f.where, scenario='protected' if protected else 'unprotected')


def check_locked_refusal(rep, prog):
    tbl = keyaction.decorator_table(prog)
    for op in ('sign', 'certify', 'revoke', 'revoker', 'bind', 'decrypt'):
        if op not in tbl:
            rep.violation('C06.6', 'PGPKey.%s' % op, 'no KeyAction decorator', 'private operation without preconditions', where=prog.cls('pgpy.pgp', 'PGPKey').where)
            continue
        gf, gc, f = tbl[op]
        rep.check(gc.get('is_unlocked') is True, 'C06.6', 'PGPKey.%s' % op, 'is_unlocked=%r' % gc.get('is_unlocked'),
                  'a locked key must refuse %s' % op, where=f.where, expected='is_unlocked=True', found=gc, scenario=op)


# ------------------------------------------------------------------------------------------------ C06.7
def check_protected_parse(rep, prog):
    base, privs = private_classes(prog)
    for c in privs:
        f = c.methods.get('parse')
        if f is None or c.name.startswith('Opaque'):
            continue
        rep.saw(fn=f)
        for usage in (254, 255, 0):
            protected = usage != 0
            sc = Scenario(inline=noinline, forward_stores=False, model_del=False, bind={'self.s2k.usage': Const(usage)},
                          axioms={'not self.s2k': not protected, 'self.s2k': protected})
            outs = Interp(prog, sc).run(f)
            for s in outs:
                reads, problems = codec.reader_sequence(s, 'packet')
                scen = '%s usage %d' % (c.name, usage)
                bad = [p for p in problems if p[0] in ('alias-then-consume', 'consume-what-you-read')]
                rep.check(not bad, 'C06.7', '%s.parse' % c.name, '%s: %s' % (scen, [p[1] for p in bad] or 'consumes what it reads'),
                          'the encrypted secret material is stored by aliasing the input buffer; consuming from that buffer afterwards '
                          'removes ciphertext octets' if bad else 'ok', where=f.where, found=[p[1] for p in bad], scenario=scen)
                targets = [r.target for r in reads if r.target]
                if protected:
                    rep.check('self.encbytes' in targets, 'C06.7', '%s.parse' % c.name, '%s: stores %s' % (scen, targets),
                              'protected secret material must be kept as ciphertext', where=f.where, scenario=scen)
                    pf = set(ast.literal_eval(c.find_attr('__privfields__')))
                    rep.check(not any(t.startswith('self.') and t[5:] in pf for t in targets), 'C06.7', '%s.parse' % c.name,
                              '%s: no private field parsed from ciphertext' % scen, 'ciphertext must not be read as cleartext MPIs', where=f.where, scenario=scen)
