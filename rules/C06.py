"""C06 - Secret keys at rest: passphrase protection is correct, checked, wiped after use.

  C06.1 unlock(): from every unprotect and from the yield, every way out (normal, exception, generator close) passes the cleanup
        that clears the same set of keys that was unprotected
  C06.2 clear() resets every private field; no secret-derived value is kept in any attribute outside the private fields
  C06.3 encrypt_keyblob: plaintext = private MPIs || SHA-1(private MPIs), usage 254, iterated+salted, CFB under the stored IV;
        clear() after the ciphertext is stored
  C06.4 decrypt_keyblob guards dominate the return (with C04.4); subclasses call the base check before storing any secret field
  C06.5 serialisation emits private fields only on the unprotected arm; the protected arm emits the ciphertext
  C06.6 private operations require is_unlocked=True
  C06.7 parsing protected material never consumes from (or after) an aliased buffer
  C06.8 the S2K derivation has the RFC 4880 3.7.1 structure (shared with C12) so that another implementation derives the same key
  C06.9 the coded octet count decodes by the RFC 4880 3.7.1.3 formula at every coded value (shared with C12.3)
"""
import ast
import re

from sa.interp import alpha, expand_bound, Interp, Scenario, Sym, Const, Bytes, Obj, render, render_items, merge_consts
from sa.loader import AnalysisError, dotted
from sa.cfg import CFG, calls_in, own_exprs
from sa import guards, codec, keyaction, tables, s2kshape
from rules import C12

noinline = lambda f: False  # noqa: E731


def run(rep, prog, tier):
    rep.rule('C06.1', 'unlock: every exit after an unprotect passes the cleanup over the same keys', floor=5)
    rep.rule('C06.2', 'clear() covers all private fields; nothing secret-derived is cached elsewhere', floor=8)
    rep.rule('C06.3', 'encrypt_keyblob layout (MPIs || SHA-1, usage 254, iterated S2K, stored IV) and clear() afterwards', floor=6)
    rep.rule('C06.4', 'base decrypt_keyblob check precedes every secret store in each subclass; guards as C04.4', floor=7)
    rep.rule('C06.5', 'private fields are serialised only when unprotected', floor=4)
    rep.rule('C06.6', 'private operations require is_unlocked=True', floor=6)
    rep.rule('C06.7', 'protected-material parse: no consumption from an aliased buffer', floor=10)
    rep.rule('C06.8', 'S2K derivation structure (RFC 4880 3.7.1)', floor=8)
    rep.rule('C06.8b', 'S2K context count', floor=1)
    rep.rule('C06.9', 'coded S2K count: decode formula over all 256 octets and setter bounds (protect() writes a coded count; shared with C12.3)', floor=3)
    rep.assume('secrets in interpreter-internal copies (locals, GC) are out of reach of a source-level analysis')

    check_unlock(rep, prog)
    check_clear(rep, prog)
    check_encrypt_keyblob(rep, prog)
    check_decrypt_order(rep, prog)
    check_export_discipline(rep, prog)
    check_locked_refusal(rep, prog)
    check_protected_parse(rep, prog)
    C12.check_derive_key(rep, prog, 'C06.8', 'C06.8b')
    # the octet count a protected key is stretched with is stored coded: another implementation decodes it by the RFC formula
    s2kshape.check_count(rep, prog, 'C06.9')
    s2kshape.check_digest_sizes(rep, prog, 'C06.8b')
    check_protection_state(rep, prog)


# ------------------------------------------------------------------------------------------------ C06.1
def _elements(text, backing):
    """The elements an iteration source denotes, as a set of atoms ('one', x) / ('all', coll), from the interpreter's value text:
    chain(a, b), a + b, [x, *c], list(c) / tuple(c) / iter(c) are all the same collection.  A property that only returns an
    attribute is that attribute (self.subkeys == self._children).  None when the text is not understood."""
    try:
        e = ast.parse(text, mode='eval').body
    except SyntaxError:
        return None

    def norm(n):
        t = ast.unparse(n)
        for prop, attr in backing.items():
            t = re.sub(r'(?<![\w.])%s(?![\w])' % re.escape(prop), attr, t)
        return t

    def rec(n):
        if isinstance(n, ast.Call) and not n.keywords:
            fn = dotted(n.func) or ''
            if fn in ('itertools.chain', 'chain'):
                out = set()
                for a in n.args:
                    if isinstance(a, ast.Starred):
                        return None
                    r = rec(a)
                    if r is None:
                        return None
                    out |= r
                return out
            if fn in ('list', 'tuple', 'iter') and len(n.args) == 1:
                return rec(n.args[0])
        if isinstance(n, (ast.List, ast.Tuple)):
            out = set()
            for x in n.elts:
                if isinstance(x, ast.Starred):
                    r = rec(x.value)
                    if r is None:
                        return None
                    out |= r
                else:
                    out.add(('one', norm(x)))
            return out
        if isinstance(n, ast.BinOp) and isinstance(n.op, ast.Add):
            l, r = rec(n.left), rec(n.right)
            return None if l is None or r is None else l | r
        if isinstance(n, (ast.Attribute, ast.Name, ast.Call, ast.Subscript)):
            return {('all', norm(n))}
        return None
    return rec(e)


def _property_backing(ci, first):
    """{'self.subkeys': 'self._children', ...} for the properties of ci whose getter only returns an attribute."""
    out = {}
    for c in ci.mro():
        for name, pp in c.plain_props.items():
            g = pp.get('get')
            if g is None or 'set' in pp:
                continue
            body = [st for st in g.node.body if not (isinstance(st, ast.Expr) and isinstance(st.value, ast.Constant))]
            if len(body) == 1 and isinstance(body[0], ast.Return) and isinstance(body[0].value, ast.Attribute) and \
                    isinstance(body[0].value.value, ast.Name) and body[0].value.value.id == g.params[0]:
                out.setdefault('%s.%s' % (first, name), '%s.%s' % (first, body[0].value.attr))
    return out


def positional(callee, args, kw):
    """Argument texts in the callee's parameter order (keyword arguments bound by name); None when they do not fit."""
    names = callee.params[1:] if callee.cls is not None else callee.params
    out = list(args)
    if len(out) > len(names):
        return None
    for n in names[len(out):]:
        if n not in kw:
            break
        out.append(kw[n])
    if len(out) != len(args) + len(kw):
        return None
    return out


def method_calls_over(prog, fi, states, meth, recv_tail, callee=None):
    """Calls `<key><recv_tail>.<meth>(...)` made by fi (on any path), each with the set of keys it is made for:
    -> list of (ast.Call node, atoms or None, arg texts, receiver text)."""
    first = fi.params[0]
    backing = _property_backing(fi.cls, first) if fi.cls is not None else {}
    seen, out = set(), []
    for s in states:
        for ft, args, kw, line, node in s.calls:
            if not ft.endswith('.' + meth) or id(node) in seen:
                continue
            recv = ft[:-len(meth) - 1]
            seen.add(id(node))
            atoms = None
            if recv.endswith(recv_tail):
                key = recv[:len(recv) - len(recv_tail)] if recv_tail else recv
                if key in s.bound:
                    atoms = _elements(s.bound[key], backing)
                elif re.match(r'^[A-Za-z_][\w.]*$', key):
                    atoms = {('one', key)}
            pa = positional(callee, args, kw) if callee is not None else None
            out.append((node, atoms, pa if pa is not None else list(args) + ['%s=%s' % kv for kv in sorted(kw.items())], recv))
    return out


def _whole_key(fi):
    first = fi.params[0]
    backing = _property_backing(fi.cls, first)
    return {('one', first), ('all', '%s.values()' % backing.get('%s.subkeys' % first, '%s.subkeys' % first))}


def _one_shot_reuse(fi):
    """Local names bound to a one-shot iterator (chain(...), iter(...), map / filter / zip, a generator expression) that are used
    as an iteration source more than once: the second loop sees nothing."""
    bad = []
    srcs = {}
    for n in ast.walk(fi.node):
        it = n.iter if isinstance(n, (ast.For, ast.comprehension)) else None
        if isinstance(it, ast.Name):
            srcs[it.id] = srcs.get(it.id, 0) + 1
    for n in ast.walk(fi.node):
        if isinstance(n, ast.Assign) and len(n.targets) == 1 and isinstance(n.targets[0], ast.Name) and srcs.get(n.targets[0].id, 0) > 1:
            v = n.value
            if isinstance(v, ast.GeneratorExp) or (isinstance(v, ast.Call) and (dotted(v.func) or '').split('.')[-1] in
                                                   ('chain', 'iter', 'map', 'filter', 'zip', 'reversed', 'islice', 'from_iterable')):
                bad.append((n.targets[0].id, n.lineno))
    return bad


def _stmt_nodes_of(g, callnode):
    """CFG nodes (all copies: finally bodies are duplicated per way out) whose own expressions contain the call."""
    out = []
    for n in g.nodes:
        if n.ast is None:
            continue
        for e in own_exprs(n.ast):
            if any(x is callnode for x in ast.walk(e)):
                out.append(n)
                break
    return out


def check_unlock(rep, prog):
    fi = prog.method('pgpy.pgp', 'PGPKey', 'unlock')
    rep.saw(fn=fi)
    first = fi.params[0]
    pw = fi.params[1] if len(fi.params) > 1 else 'passphrase'
    states = Interp(prog, Scenario(inline=noinline)).run(fi)
    up = prog.method('pgpy.packet.packets', 'PrivKeyV4', 'unprotect')
    unp_calls = method_calls_over(prog, fi, states, 'unprotect', '._key', up)
    dk = method_calls_over(prog, fi, states, 'decrypt_keyblob', '._key.keymaterial', prog.method('pgpy.packet.fields', 'PrivKey', 'decrypt_keyblob'))
    clr_calls = method_calls_over(prog, fi, states, 'clear', '._key.keymaterial')
    if not unp_calls and not dk:
        raise AnalysisError('PGPKey.unlock no longer calls unprotect')
    unp_calls = unp_calls + dk
    risky_calls = set(id(c[0]) for c in unp_calls)

    def risky(st):
        return any(id(n) in risky_calls for n in ast.walk(st)) or any(isinstance(n, (ast.Yield, ast.YieldFrom)) for n in ast.walk(st))
    g = CFG(fi.node, raising=risky, any_class=risky)     # a with-body can end in any BaseException (thrown in at the yield)
    if not clr_calls:
        rep.violation('C06.1', 'PGPKey.unlock', 'no cleanup', 'nothing clears the secret material after the unlock scope', where=fi.where)
        return
    want = _whole_key(fi)

    def through_for(atom):
        """CFG nodes that clear the key(s) `atom`: the statement making the call, and the loop whose every iteration makes it."""
        ids = set()
        for node, atoms, args, recv in clr_calls:
            if atoms is None or atom not in atoms:
                continue
            ids |= set(n.id for n in _stmt_nodes_of(g, node))
        for n in g.nodes:
            if n.kind == 'loop':
                for m, lab in g.succ[n.id]:
                    if lab == 'T' and (m in ids or g.must_pass(ids, m, n.id)) and any(x in g.reachable(m) for x in ids):
                        ids = ids | {n.id}
        return ids
    unp = []
    for node, atoms, args, recv in unp_calls:
        unp.extend(_stmt_nodes_of(g, node))
    if not unp:
        raise AnalysisError('PGPKey.unlock: the unprotect call is not made by a statement of unlock itself')
    for u in unp:
        for dst, what in ((g.exit.id, 'normal end of the scope'), (g.raise_exit.id, 'an exception (wrong passphrase on a later key, error in the with-body, generator close)')):
            ok = all(g.must_pass(through_for(a), u.id, dst) for a in sorted(want))
            rep.check(ok, 'C06.1', 'PGPKey.unlock', 'unprotect -> %s' % ('exit' if dst == g.exit.id else 'raise'),
                      'after a key has been unprotected, %s can be reached without clearing the secret material' % what,
                      where='%s:%d' % (fi.module.relpath, u.lineno), expected='every way out passes keymaterial.clear() for the primary and every subkey',
                      found='a path from the unprotect call leaves the function without the cleanup')
    ys = [n for n in g.nodes if n.kind == 'stmt' and n.ast is not None and any(isinstance(x, (ast.Yield, ast.YieldFrom)) for x in ast.walk(n.ast))]
    # the yield that hands out the unlocked key: the one reachable from an unprotect
    reach = set()
    for u in unp:
        reach |= g.reachable(u.id)
    hand = [y for y in ys if y.id in reach]
    rep.check(len(hand) >= 1, 'C06.1', 'PGPKey.unlock', 'yield after unprotect: %d' % len(set(y.lineno for y in hand)), 'the unlocked key is handed out', where=fi.where)
    for y in hand:
        for dst in (g.exit.id, g.raise_exit.id):
            ok = all(g.must_pass(through_for(a), y.id, dst) for a in sorted(want))
            rep.check(ok, 'C06.1', 'PGPKey.unlock', 'yield -> %s' % ('exit' if dst == g.exit.id else 'raise'),
                      'when the unlock scope ends (normally or through an exception) the key must be locked again', where='%s:%d' % (fi.module.relpath, y.lineno))
    # same set of keys, and the thing cleared is the key material of each of them
    def dom(calls):
        out = set()
        for node, atoms, args, recv in calls:
            if atoms is None:
                return None
            out |= atoms
        return out
    ud, cd = dom(unp_calls), dom(clr_calls)
    show = lambda d: sorted('%s%s' % ('' if k == 'one' else 'each of ', v) for k, v in d) if d is not None else 'not the key packets of a set of keys'  # noqa: E731
    rep.check(ud == cd == want, 'C06.1', 'PGPKey.unlock', 'unprotect over %s, clear over %s' % (show(ud), show(cd)),
              'the cleanup must cover exactly the keys that were unprotected: the primary and every subkey', where=fi.where,
              expected='%s for both' % show(want), found='%s / %s' % (show(ud), show(cd)))
    for name, line in _one_shot_reuse(fi):
        rep.violation('C06.1', 'PGPKey.unlock', 'iterator reused', 'the one-shot iterator %s is iterated a second time: the second loop (the cleanup) '
                      'sees no keys' % name, where='%s:%d' % (fi.module.relpath, line))
    for node, atoms, args, recv in clr_calls:
        rep.check(atoms is not None and not args, 'C06.1', 'PGPKey.unlock', 'cleanup call %s.clear(%s)' % (alpha(recv), ', '.join(args)),
                  'the cleanup must clear the key material of each key', where='%s:%d' % (fi.module.relpath, node.lineno))
    for node, atoms, args, recv in unp_calls:
        rep.check(atoms is not None and args == [pw], 'C06.1', 'PGPKey.unlock', 'unprotect call %s(%s)' % (alpha(recv), ', '.join(args)),
                  'each key is unprotected with the caller\'s passphrase', where='%s:%d' % (fi.module.relpath, node.lineno))
    rep.saw(fn=up)
    ups = Interp(prog, Scenario(inline=noinline)).run(up)
    me, p1 = up.params[0], (up.params[1] if len(up.params) > 1 else None)
    dkb = prog.method('pgpy.packet.fields', 'PrivKey', 'decrypt_keyblob')
    ok = bool(ups) and all(any(ft == '%s.keymaterial.decrypt_keyblob' % me and positional(dkb, args, kw) == [p1] for ft, args, kw, l, n in s.calls)
                           for s in ups if s.raised is None)
    rep.check(ok, 'C06.1', 'PrivKeyV4.unprotect', 'delegates to decrypt_keyblob',
              'unprotect decrypts the key material with the passphrase', where=up.where)


# ------------------------------------------------------------------------------------------------ C06.3b / C06.6b
def check_protection_state(rep, prog):
    """(a) no exception path of protect / encrypt_keyblob lowers the protection state: a handler that replaces or rewrites the S2K
    specifier turns a protected key whose re-protection failed into one that serialises its secret integers in the clear;
    (b) PrivKeyV4.unlocked is a function of the key material's current state: a flag kept beside it survives the scope-exit wipe
    (keymaterial.clear()), so the key would claim to be unlocked with zeroed secrets."""
    sites = [(prog.method('pgpy.packet.fields', 'PrivKey', 'encrypt_keyblob'), ''),
             (prog.method('pgpy.packet.packets', 'PrivKeyV4', 'protect'), '.keymaterial'),
             (prog.method('pgpy.pgp', 'PGPKey', 'protect'), None)]
    for f, tail in sites:
        rep.saw(fn=f)
        me = f.params[0]
        hits = []
        for h in [n for n in ast.walk(f.node) if isinstance(n, ast.ExceptHandler)]:
            for n in ast.walk(h):
                tg = []
                if isinstance(n, ast.Assign):
                    tg = n.targets
                elif isinstance(n, (ast.AugAssign, ast.AnnAssign)):
                    tg = [n.target]
                elif isinstance(n, ast.Delete):
                    tg = n.targets
                elif isinstance(n, ast.Call) and (dotted(n.func) or '').split('.')[-1] in ('setattr', 'delattr', '__init__', 'parse') and \
                        's2k' in ast.unparse(n):
                    hits.append(ast.unparse(n))
                for t in tg:
                    for x in (t.elts if isinstance(t, (ast.Tuple, ast.List)) else [t]):
                        d = dotted(x) or ''
                        if re.search(r'(?:^|\.)s2k(?:\.|$)', d) or re.search(r'(?:^|\.)encbytes$', d):
                            hits.append(ast.unparse(n))
        rep.check(not hits, 'C06.3', f.qualname, 'exception path rewrites the protection state: %s' % hits if hits else 'exception paths leave the S2K specifier alone',
                  'when protecting fails the key must stay as protected as it was: an exception handler that replaces / rewrites the S2K '
                  'specifier (or the ciphertext) makes a protected key serialise its secret integers in the clear', where=f.where, found=hits)
    un = (prog.cls('pgpy.packet.packets', 'PrivKeyV4').find_plain_prop('unlocked') or {}).get('get')
    if un is None:
        raise AnalysisError('PrivKeyV4.unlocked vanished')
    rep.saw(fn=un)
    me = un.params[0]
    outs = Interp(prog, Scenario(inline=noinline, axioms={'%s.protected' % me: True, 'bool(%s.protected)' % me: True})).run(un)
    rets = [s for s in outs if s.raised is None]
    if not rets:
        raise AnalysisError('PrivKeyV4.unlocked never returns for a protected key')
    for s in rets:
        r = render(s.ret)
        attrs = set(re.findall(r'(?<![\w.])%s\.(\w+)' % re.escape(me), r))
        ok = 'keymaterial' in attrs and attrs <= {'keymaterial', 'protected'}
        rep.check(ok, 'C06.6', 'PrivKeyV4.unlocked', 'protected key: unlocked = %s' % r[:120],
                  'whether a protected key is unlocked must be read from the key material itself (the scope-exit wipe zeroes it): a '
                  'flag kept beside it is not reset by keymaterial.clear() and the key would claim to be unlocked with zeroed secrets',
                  where=un.where, expected='a function of self.keymaterial', found=r)


# ------------------------------------------------------------------------------------------------ C06.2
def private_classes(prog):
    fields = prog.module('pgpy.packet.fields')
    base = fields.classes.get('PrivKey')
    if base is None:
        raise AnalysisError('fields.PrivKey vanished')
    return base, [c for c in fields.classes.values() if c is not base and base in c.mro()]


SECRET_CALLS = {'decrypt_keyblob', '_decrypt', '__privkey__', 'private_key', 'from_private_bytes', 'private_numbers', 'private_bytes',
                'generate_private_key', 'generate'}


def secret_stores(f, priv, allowed):
    """Attribute stores `self.<attr> = v` (attr not in `allowed`) in function f whose value is derived from a secret: a private
    field, the decrypted key blob, the library private-key object, or a local that was computed from one of those (def-use
    closure over the function's locals, whatever they are called)."""
    me = f.params[0] if f.params else None
    if me is None:
        return []
    # names bound by iterating the private field names
    field_iters = set()

    def is_privfields(e):
        return any(isinstance(n, ast.Attribute) and n.attr == '__privfields__' for n in ast.walk(e))
    for n in ast.walk(f.node):
        if isinstance(n, (ast.For, ast.comprehension)) and is_privfields(n.iter):
            field_iters |= {x.id for x in ast.walk(n.target) if isinstance(x, ast.Name)}
    tainted = set()

    def secret(e):
        for n in ast.walk(e):
            if isinstance(n, ast.Attribute) and isinstance(n.value, ast.Name) and n.value.id == me and n.attr in priv and isinstance(n.ctx, ast.Load):
                return True
            if isinstance(n, ast.Call):
                nm = n.func.attr if isinstance(n.func, ast.Attribute) else (n.func.id if isinstance(n.func, ast.Name) else None)
                if nm in SECRET_CALLS:
                    return True
                if nm == 'getattr' and len(n.args) >= 2 and isinstance(n.args[0], ast.Name) and n.args[0].id == me:
                    k = n.args[1]
                    if (isinstance(k, ast.Constant) and k.value in priv) or (isinstance(k, ast.Name) and k.id in field_iters):
                        return True
            if isinstance(n, ast.Name) and isinstance(n.ctx, ast.Load) and n.id in tainted:
                return True
        return False

    def names(t):
        return {x.id for x in ast.walk(t) if isinstance(x, ast.Name) and isinstance(x.ctx, ast.Store)}
    changed = True
    while changed:
        changed = False
        for n in ast.walk(f.node):
            new = set()
            if isinstance(n, ast.Assign) and secret(n.value):
                for t in n.targets:
                    new |= names(t)
            elif isinstance(n, (ast.AugAssign, ast.AnnAssign)) and n.value is not None and secret(n.value):
                new |= names(n.target)
            elif isinstance(n, ast.NamedExpr) and secret(n.value):
                new |= names(n.target)
            elif isinstance(n, (ast.For, ast.comprehension)) and secret(n.iter):
                new |= names(n.target)
            elif isinstance(n, ast.With):
                for it in n.items:
                    if it.optional_vars is not None and secret(it.context_expr):
                        new |= names(it.optional_vars)
            if new - tainted:
                tainted |= new
                changed = True
    out = []
    for n in ast.walk(f.node):
        tv = []
        if isinstance(n, ast.Assign):
            tv = [(t, n.value) for t in n.targets]
        elif isinstance(n, (ast.AugAssign, ast.AnnAssign)) and n.value is not None:
            tv = [(n.target, n.value)]
        elif isinstance(n, ast.Call) and isinstance(n.func, ast.Name) and n.func.id == 'setattr' and len(n.args) == 3 and \
                isinstance(n.args[0], ast.Name) and n.args[0].id == me and isinstance(n.args[1], ast.Constant):
            tv = [(ast.Attribute(value=n.args[0], attr=n.args[1].value, ctx=ast.Store()), n.args[2])]
        for t, v in tv:
            for x in (t.elts if isinstance(t, (ast.Tuple, ast.List)) else [t]):
                if isinstance(x, ast.Attribute) and isinstance(x.value, ast.Name) and x.value.id == me and x.attr not in allowed and secret(v):
                    out.append((n, x.attr))
    return out


def check_clear(rep, prog):
    base, privs = private_classes(prog)
    cl = base.methods.get('clear')
    if cl is None:
        raise AnalysisError('PrivKey.clear vanished')
    rep.saw(fn=cl)
    me = cl.params[0]
    # every returning path overwrites each private field (a loop / comprehension over __privfields__) with the zero placeholder
    outs = Interp(prog, Scenario(inline=noinline)).run(cl)
    ok = bool(outs)
    found = []
    for s in outs:
        if s.raised is not None:
            continue
        hit = False
        for ft, args, kw, line, node in s.calls:
            if ft in ('setattr', '%s.__setattr__' % me, 'object.__setattr__') and not kw:
                a = args[1:] if ft != '%s.__setattr__' % me else args
                if ft != '%s.__setattr__' % me and args[:1] != [me]:
                    continue
                found.append('%s(%s)' % (ft, ', '.join(expand_bound(s, x) for x in args)))
                if len(a) == 2 and a[0] in s.bound and s.bound[a[0]] in ('%s.__privfields__' % me, 'type(%s).__privfields__' % me):
                    zero = s.env.get(a[1])         # a locally built object is rendered by the local's name: look at what it is
                    if (zero.text if isinstance(zero, Obj) else a[1]) == 'MPI(0)':
                        hit = True
        ok = ok and hit
    rep.check(ok, 'C06.2', 'PrivKey.clear', 'zeroes %s' % (sorted(set(found)) or '<nothing>'), 'clear() must overwrite every private field with the zero placeholder',
              where=cl.where, expected='for field in self.__privfields__: setattr(self, field, MPI(0)) on every path', found=sorted(set(found)))
    for c in privs:
        if c.name.startswith('Opaque'):
            continue
        own = c.find_method('clear')
        rep.check(own is cl, 'C06.2', '%s.clear' % c.name, 'resolves to %s' % (own.qualname if own else None),
                  'every private key-material class must use the clear() that covers all its private fields', where=c.where)
        pf = c.find_attr('__privfields__')
        try:
            priv = set(ast.literal_eval(pf)) if pf is not None else set()
        except Exception:
            raise AnalysisError('%s.__privfields__ is not a literal' % c.name)
        rep.check(bool(priv), 'C06.2', c.name, '__privfields__ = %s' % sorted(priv), 'a private class must declare its secret fields', where=c.where)
        # no secret-derived value may be kept in another attribute
        allowed_targets = priv | {'chksum', 'encbytes', 's2k', 'oid', 'kdf'} | set(_pubfields(c))
        nscan = 0
        for k in c.mro():
            if k.module is not c.module:
                continue
            for defs in k.all_defs.values():
                for f in defs:
                    for n, attr in secret_stores(f, priv, allowed_targets):
                        rep.violation('C06.2', '%s (via %s)' % (c.name, f.qualname), 'secret kept in %s' % attr,
                                      'a value derived from the secret integers is stored in attribute %s, which clear() does not wipe' % attr,
                                      where='%s:%d' % (f.module.relpath, n.lineno), expected='secret values only in %s' % sorted(priv),
                                      found=ast.unparse(n))
                    nscan += 1
        rep.ok('C06.2', c.name, 'no secret-derived value in an attribute outside the private fields (%d functions)' % nscan)
        # __privkey__ must build the library key on demand (no memo)
        pk = c.find_method('__privkey__')
        if pk is not None:
            memo = []
            for n in ast.walk(pk.node):
                if isinstance(n, (ast.Assign, ast.AugAssign, ast.AnnAssign)):
                    for t in (n.targets if isinstance(n, ast.Assign) else [n.target]):
                        for x in (t.elts if isinstance(t, (ast.Tuple, ast.List)) else [t]):
                            if isinstance(x, (ast.Attribute, ast.Subscript)):
                                memo.append(ast.unparse(n))
                if isinstance(n, ast.Call) and (dotted(n.func) or '').split('.')[-1] in ('setattr', '__setattr__', 'setdefault', 'update'):
                    memo.append(ast.unparse(n))
            glob = [ast.unparse(n) for n in ast.walk(pk.node) if isinstance(n, (ast.Global, ast.Nonlocal))]
            rep.check(not memo and not glob and not pk.node.decorator_list, 'C06.2', '%s.__privkey__' % pk.cls.name, 'memo %s' % (memo + glob),
                      'the library private-key object holds the secret integers; it must not be cached on the object', where=pk.where,
                      found=memo + glob)


def _pubfields(c):
    pf = c.find_attr('__pubfields__')
    try:
        return list(ast.literal_eval(pf)) if pf is not None else []
    except Exception:
        return []


# ------------------------------------------------------------------------------------------------ C06.3
def check_encrypt_keyblob(rep, prog):
    fi = prog.method('pgpy.packet.fields', 'PrivKey', 'encrypt_keyblob')
    rep.saw(fn=fi)
    if len(fi.params) < 4:
        raise AnalysisError('PrivKey.encrypt_keyblob signature changed: %s' % fi.params)
    me, pw, enc_alg, hash_alg = fi.params[:4]
    S2K = '%s.s2k' % me
    for s in Interp(prog, Scenario(inline=noinline)).run(fi):
        if s.raised is not None:
            continue
        st = {p: v for p, v, l, _ in s.stores}
        rep.check(st.get(S2K + '.usage') == '254', 'C06.3', 'PrivKey.encrypt_keyblob', 'usage %s' % st.get(S2K + '.usage'),
                  'new protection must use S2K usage 254 (SHA-1 integrity check)', where=fi.where)
        rep.check(st.get(S2K + '.specifier') == 'String2KeyType.Iterated', 'C06.3', 'PrivKey.encrypt_keyblob', 'specifier %s' % st.get(S2K + '.specifier'),
                  'new protection must use the iterated and salted S2K', where=fi.where)
        rep.check(st.get(S2K + '.encalg') == enc_alg and st.get(S2K + '.halg') == hash_alg, 'C06.3', 'PrivKey.encrypt_keyblob',
                  'cipher %s hash %s' % (st.get(S2K + '.encalg'), st.get(S2K + '.halg')), 'the specifier records the cipher and hash chosen by the caller',
                  where=fi.where)
        enc = [c for c in s.calls if c[0] == '_encrypt']
        if len(enc) != 1:
            rep.violation('C06.3', 'PrivKey.encrypt_keyblob', '%d _encrypt calls' % len(enc), 'expected one encryption of the secret material', where=fi.where)
            continue
        a = enc[0][1]
        M = 'EACH($1 in %s.__privfields__;getattr(%s, $1).to_mpibytes())' % (me, me)
        exp_pt = '%s HASH(sha1;%s)' % (M, M)
        rep.check(bool(a) and alpha(a[0]) == exp_pt, 'C06.3', 'PrivKey.encrypt_keyblob', 'plaintext %s' % (a[0] if a else None),
                  'the protected plaintext is the private MPIs followed by their SHA-1 (RFC 4880 5.5.3)', where=fi.where, expected=exp_pt, found=a[0] if a else None)
        iv = st.get(S2K + '.iv')
        exp_rest = ['%s.derive_key(%s)' % (S2K, pw), enc_alg, '%s.gen_iv()' % enc_alg]
        dk = prog.method('pgpy.packet.fields', 'String2Key', 'derive_key')
        # the key is what derive_key returns for the caller's passphrase; further arguments are parameters an edit added to
        # derive_key - C06.8 runs the derivation rule with exactly these call-site values (seen as the callee sees them)
        a_raw = list(a)
        known = dk.params[1:] + [x.arg for x in dk.node.args.kwonlyargs]
        for e in s.events:
            if e[0] == 'call' and e[1] == S2K + '.derive_key' and len(e[2]) <= len(dk.params) - 1 and all(k in known for k in e[3]):
                full = dict(zip(dk.params[1:], e[2]))
                full.update(e[3])
                txt = '%s(%s)' % (e[1], ', '.join(list(e[2]) + ['%s=%s' % kv for kv in e[3].items()]))
                if full.get(dk.params[1]) == pw and len(a) > 1 and a[1] == txt:
                    a = [a[0], exp_rest[0]] + a[2:]
        n_iv = sum(1 for e in s.events if e[0] == 'call' and e[1].endswith('.gen_iv'))     # one IV: the one stored is the one used
        rep.check(a[1:] == exp_rest and iv == exp_rest[2] and not enc[0][2] and n_iv == 1, 'C06.3', 'PrivKey.encrypt_keyblob', '_encrypt key/alg/iv %s' % a[1:],
                  'encryption uses the passphrase-derived key, the chosen cipher and the IV stored in the specifier', where=fi.where,
                  expected='%s with s2k.iv = %s' % (exp_rest, exp_rest[2]), found='%s with s2k.iv = %s' % (a[1:], iv))
        # the key is derived once the specifier is complete (salt, count, hash, type): derive_key reads them
        idx_derive = next((i for i, e in enumerate(s.events) if e[0] == 'call' and e[1] == S2K + '.derive_key'), None)
        late = [e[1] for i, e in enumerate(s.events) if e[0] == 'store' and e[1].startswith(S2K + '.') and idx_derive is not None and i > idx_derive
                and e[1][len(S2K) + 1:] in ('specifier', 'halg', 'salt', 'count', 'encalg')]
        rep.check(idx_derive is not None and not late, 'C06.3', 'PrivKey.encrypt_keyblob', 'derive_key after the specifier fields %s' % late,
                  'the session key must be derived from the specifier that is stored with the ciphertext', where=fi.where, found=late)
        # clear() after the ciphertext is stored
        idx_store = next((i for i, e in enumerate(s.events) if e[0] == 'store' and e[1] == '%s.encbytes' % me), None)
        idx_clear = next((i for i, e in enumerate(s.events) if e[0] == 'call' and e[1] == '%s.clear' % me), None)
        rep.check(idx_store is not None and idx_clear is not None and idx_clear > idx_store, 'C06.3', 'PrivKey.encrypt_keyblob',
                  'encbytes stored at %s, clear at %s' % (idx_store, idx_clear), 'after protecting, the cleartext secret fields must be wiped', where=fi.where)
        rep.check(st.get('%s.encbytes' % me, '') == '_encrypt(%s)' % ', '.join(a_raw), 'C06.3', 'PrivKey.encrypt_keyblob', 'encbytes = ciphertext',
                  'the at-rest form is the ciphertext', where=fi.where, found=st.get('%s.encbytes' % me))
    pr = prog.method('pgpy.packet.packets', 'PrivKeyV4', 'protect')
    rep.saw(fn=pr)
    me = pr.params[0]
    ok = True
    outs = [s for s in Interp(prog, Scenario(inline=noinline)).run(pr) if s.raised is None]
    for s in outs:
        i_enc = next((i for i, e in enumerate(s.events) if e[0] == 'call' and e[1] == '%s.keymaterial.encrypt_keyblob' % me and
                      positional(fi, e[2], e[3]) == pr.params[1:4]), None)
        i_len = [i for i, e in enumerate(s.events) if e[0] == 'call' and e[1] == '%s.update_hlen' % me]
        ok = ok and i_enc is not None and any(i > i_enc for i in i_len)
    rep.check(ok and bool(outs), 'C06.3', 'PrivKeyV4.protect', 'encrypt_keyblob then update_hlen', 'protecting recomputes the packet length', where=pr.where)
    kp = prog.method('pgpy.pgp', 'PGPKey', 'protect')
    rep.saw(fn=kp)
    states = Interp(prog, Scenario(inline=noinline)).run(kp)
    want = _whole_key(kp)
    some = False
    for s in states:
        calls = method_calls_over(prog, kp, [s], 'protect', '._key', pr)
        if not calls:
            continue            # the refusing paths (public key, locked key) protect nothing
        some = True
        dom = set()
        for node, atoms, args, recv in calls:
            dom = None if (atoms is None or dom is None) else dom | atoms
        rep.check(dom == want and all(args == kp.params[1:4] for _n, _a, args, _r in calls), 'C06.3', 'PGPKey.protect',
                  'protects %s' % (sorted(v for _k, v in dom) if dom else dom),
                  'protecting a key protects the primary and every subkey', where=kp.where, expected=sorted(v for _k, v in want),
                  found=[(alpha(r), a) for _n, _a, a, r in calls])
    if not some:
        rep.violation('C06.3', 'PGPKey.protect', 'protects nothing', 'no path protects the key packets', where=kp.where)
    for name, line in _one_shot_reuse(kp):
        rep.violation('C06.3', 'PGPKey.protect', 'iterator reused', 'the one-shot iterator %s is iterated a second time' % name,
                      where='%s:%d' % (kp.module.relpath, line))


# ------------------------------------------------------------------------------------------------ C06.4
def check_decrypt_order(rep, prog):
    base, privs = private_classes(prog)
    bd = base.methods.get('decrypt_keyblob')
    if bd is None:
        raise AnalysisError('PrivKey.decrypt_keyblob vanished')
    rep.saw(fn=bd)
    me = bd.params[0]
    # guards (same as C04.4)
    for usage in (254, 255):
        sc = Scenario(bind={'%s.s2k.usage' % me: Const(usage)}, axioms={'%s.s2k' % me: True, 'bool(%s.s2k)' % me: True}, inline=noinline)
        outs = Interp(prog, sc).run(bd)
        PT = None
        for s in outs:
            for c in s.calls:
                if c[0] == '_decrypt':
                    PT = '_decrypt(%s)' % ', '.join(c[1])
        if PT is None:
            raise AnalysisError('PrivKey.decrypt_keyblob no longer calls _decrypt')
        if usage == 254:
            pred = lambda a, b, _PT=PT: a.replace(_PT, 'PT') == 'SLICE(PT;-20;)' and b.replace(_PT, 'PT') == 'HASH(sha1;SLICE(PT;;-20))'  # noqa: E731
            what = 'the SHA-1 check of the decrypted secret material'
        else:
            pred = lambda a, b, _PT=PT: a.replace(_PT, 'PT') in ('%s.bytes_to_int(SLICE(PT;-2;))' % me, "int.from_bytes(SLICE(PT;-2;), 'big')") and \
                b.replace(_PT, 'PT') in ('(sum(SLICE(PT;;-2)) % 65536)', '(sum(SLICE(PT;;-2)) & 65535)')  # noqa: E731
            what = 'the 16-bit checksum of the decrypted secret material'
        guards.check_guard(rep, 'C06.4', 'PrivKey.decrypt_keyblob', outs, pred, what, bd.where, scenario='usage %d' % usage)
    for c in privs:
        f = c.methods.get('decrypt_keyblob')
        if f is None or c.name.startswith('Opaque'):
            continue
        rep.saw(fn=f)
        pf_order = list(ast.literal_eval(c.find_attr('__privfields__')))
        pf = set(pf_order)
        outs = Interp(prog, Scenario(inline=noinline)).run(f)
        me_, pw = f.params[0], (f.params[1] if len(f.params) > 1 else None)
        pre = me_ + '.'
        seen = set()
        for s in outs:
            if s.raised is not None:
                continue
            first_store = next((i for i, e in enumerate(s.events) if e[0] == 'store' and e[1].startswith(pre) and e[1][len(pre):] in pf), None)
            base_idx = [i for i, e in enumerate(s.events) if e[0] == 'call' and
                        (e[1] in ('super:%s' % bd.qualname, '%s.decrypt_keyblob' % base.name)) and
                        (positional(bd, e[2][1:] if e[1] == '%s.decrypt_keyblob' % base.name and e[2][:1] == [me_] else e[2], e[3]) == [pw])]
            base_call = base_idx[0] if base_idx else None
            key = ('order', base_call is not None and (first_store is None or base_call < first_store))
            if key not in seen:
                seen.add(key)
                rep.check(key[1], 'C06.4', '%s.decrypt_keyblob' % c.name,
                          'base check %s the first secret store' % ('precedes' if key[1] else 'does not precede'),
                          'the checked decryption must come first: a wrong passphrase must raise before any secret field is written', where=f.where)
            # what is stored comes from the checked plaintext
            vals = {(p_, l_): (v_.text if isinstance(v_, Obj) else t_) for p_, t_, l_, v_ in s.stores}   # a local object shows as what it is
            for e in s.events:
                if e[0] == 'store' and e[1].startswith(pre) and e[1][len(pre):] in pf and (e[1], e[2]) not in seen:
                    seen.add((e[1], e[2]))
                    e = (e[0], e[1], vals.get((e[1], e[3]), e[2]), e[3])
                    rep.check(base_call is not None and re.search(r'(?<![\w])(?:super\(%s\)|%s)\.decrypt_keyblob\(' % (base.name, base.name), e[2]) is not None, 'C06.4',
                              '%s.decrypt_keyblob' % c.name, '%s = %s' % (e[1].replace(pre, 'self.'), e[2][:80]),
                              'secret fields must be read from the checked plaintext', where='%s:%d' % (f.module.relpath, e[3]))
            # reader sequence over the decrypted buffer (the codec-pair view of C08): encrypt_keyblob writes the private MPIs in
            # __privfields__ order, so the reader must take one MPI per field, in that order, store each as read, and fill
            # no secret field any other way (nothing recomputed, skipped, read twice or reordered)
            seq, why = decrypted_reader_sequence(s, base, me_, pf)
            key = ('seq', tuple(seq), why)
            if key not in seen:
                seen.add(key)
                exp = ['%s = MPI(<decrypted>)' % x for x in pf_order]
                rep.check(why is None and seq == exp, 'C06.4', '%s.decrypt_keyblob' % c.name,
                          'fields from the decrypted octets: %s' % (why or [x.split(' ')[0] for x in seq]),
                          'every secret field must be filled from the decrypted octets, one MPI per field in __privfields__ order (what '
                          'encrypt_keyblob wrote), and stored as read: %s' % (why or 'found %s' % seq), where=f.where, expected=exp, found=why or seq)


class _Events(object):
    def __init__(self, events):
        self.events = events


def decrypted_reader_sequence(s, base, me, pf):
    """(['<field> = MPI(<decrypted>)' | other descriptions, in order], problem or None) for one path of a subclass decrypt_keyblob:
    sa/codec.reader_sequence applied to the buffer the checked base decryption returned."""
    bufre = r'(?:super\(%s\)|%s)\.decrypt_keyblob\([^()]*\)' % (re.escape(base.name), re.escape(base.name))
    vals = {(p_, l_): (v_.text if isinstance(v_, Obj) else t_) for p_, t_, l_, v_ in s.stores}
    buf = None
    for e in s.events:
        if e[0] in ('assign', 'store'):
            m = re.search(bufre, vals.get((e[1], e[3]), e[2]) if e[0] == 'store' else e[2])
            if m:
                buf = m.group(0)
                break
    if buf is None:
        return [], 'the decrypted buffer of the base class is not used'
    # the buffer is known by its value text, not by a local name: hand the events over without the right-hand-side name sets
    evs = [e[:4] if e[0] in ('store', 'assign') else e for e in s.events if not (e[0] == 'call' and e[1] in ('setattr', 'super'))]   # (their stores follow)
    reads, problems = codec.reader_sequence(_Events(evs), buf, recv=me)
    pre = me + '.'
    seq, last = [], -1
    for i, r in enumerate(reads):
        if r.target and r.target.startswith(pre) and r.target[len(pre):] in pf:
            last = i
    for r in reads[:last + 1]:
        tgt = r.target[len(pre):] if (r.target or '').startswith(pre) else (r.target or '<discarded>')
        if r.kind == 'delegate' and r.via == 'MPI' and r.text == 'MPI(%s)' % buf:
            seq.append('%s = MPI(<decrypted>)' % tgt)
        else:
            seq.append('%s = %s [%s]' % (tgt, r.text.replace(buf, '<decrypted>')[:80], r.kind))
    n_stores = [e[1][len(pre):] for e in s.events if e[0] == 'store' and e[1].startswith(pre) and e[1][len(pre):] in pf]
    why = None
    bad = [p for p in problems if p[0] != 'unmodelled-del']
    if bad:
        why = bad[0][1].replace(buf, '<decrypted>')
    else:
        for e in s.events:
            if e[0] == 'store' and e[1].startswith(pre) and e[1][len(pre):] in pf:
                v = vals.get((e[1], e[3]), e[2])
                if v != 'MPI(%s)' % buf:
                    why = '%s is assigned %s, not the MPI read from the decrypted octets' % (e[1][len(pre):], v.replace(buf, '<decrypted>')[:120])
                    break
        if why is None and len(n_stores) != len(set(n_stores)):
            why = 'secret fields are assigned more than once: %s' % n_stores
    return seq, why


# ------------------------------------------------------------------------------------------------ C06.5
def check_export_discipline(rep, prog):
    base, privs = private_classes(prog)
    writers = {}
    for c in [base] + privs:
        f = c.methods.get('__bytearray__')
        if f is not None and not c.name.startswith('Opaque'):
            writers[c.name] = (c, f)
    for name, (c, f) in writers.items():
        rep.saw(fn=f)
        pf = c.find_attr('__privfields__')
        priv = set(ast.literal_eval(pf)) if pf is not None else set()
        me = f.params[0]
        for protected in (True, False):
            sc = Scenario(inline=noinline, axioms={'%s.s2k' % me: protected, 'bool(%s.s2k)' % me: protected},
                          bind={'%s.s2k.usage' % me: Const(254 if protected else 0)})
            for s in Interp(prog, sc).run(f):
                if s.raised is not None and s.ret is None:
                    continue
                r = render(s.ret)
                mentions_priv = '__privfields__' in r or any(re.search(r'(?<![\w.])%s\.%s(?!\w)' % (re.escape(me), x), r) for x in priv) or \
                    any(re.search(r"getattr\(%s, '%s'\)" % (re.escape(me), x), r) for x in priv)
                has_enc = re.search(r'(?<![\w.])%s\.encbytes(?!\w)' % re.escape(me), r) is not None
                if protected:
                    rep.check(not mentions_priv and has_enc, 'C06.5', '%s.__bytearray__' % name, 'protected arm emits %s' % r[-120:],
                              'a protected key must serialise its ciphertext and none of the private fields', where=f.where,
                              expected='... self.s2k.__bytearray__() self.encbytes', found=r, scenario='protected')
                else:
                    rep.check(mentions_priv and not has_enc, 'C06.5', '%s.__bytearray__' % name, 'unprotected arm emits %s' % r[-120:],
                              'an unprotected key serialises its private fields', where=f.where, found=r, scenario='unprotected')
                rep.check('%s.s2k.__bytearray__()' % me in r, 'C06.5', '%s.__bytearray__' % name, 'S2K specifier emitted', 'the S2K usage/specifier precedes the secret part',
                          where=f.where, scenario='protected' if protected else 'unprotected')


def check_locked_refusal(rep, prog):
    tbl = keyaction.decorator_table(prog)
    for op in ('sign', 'certify', 'revoke', 'revoker', 'bind', 'decrypt'):
        if op not in tbl:
            rep.violation('C06.6', 'PGPKey.%s' % op, 'no KeyAction decorator', 'private operation without preconditions', where=prog.cls('pgpy.pgp', 'PGPKey').where)
            continue
        gf, gc, f = tbl[op]
        rep.check(gc.get('is_unlocked') is True, 'C06.6', 'PGPKey.%s' % op, 'is_unlocked=%r' % gc.get('is_unlocked'),
                  'a locked key must refuse %s' % op, where=f.where, expected='is_unlocked=True', found=gc, scenario=op)


# ------------------------------------------------------------------------------------------------ C06.7
def check_protected_parse(rep, prog):
    base, privs = private_classes(prog)
    for c in privs:
        f = c.methods.get('parse')
        if f is None or c.name.startswith('Opaque'):
            continue
        rep.saw(fn=f)
        for usage in (254, 255, 0):
            protected = usage != 0
            me = f.params[0]
            sc = Scenario(inline=noinline, forward_stores=False, model_del=False, bind={'%s.s2k.usage' % me: Const(usage)},
                          axioms={'bool(%s.s2k)' % me: protected, '%s.s2k' % me: protected})
            outs = Interp(prog, sc).run(f)
            for s in outs:
                reads, problems = codec.reader_sequence(s, f.params[1])
                scen = '%s usage %d' % (c.name, usage)
                bad = [p for p in problems if p[0] in ('alias-then-consume', 'consume-what-you-read')]
                rep.check(not bad, 'C06.7', '%s.parse' % c.name, '%s: %s' % (scen, [p[1] for p in bad] or 'consumes what it reads'),
                          'the encrypted secret material is stored by aliasing the input buffer; consuming from that buffer afterwards '
                          'removes ciphertext octets' if bad else 'ok', where=f.where, found=[p[1] for p in bad], scenario=scen)
                targets = [r.target for r in reads if r.target]
                if protected:
                    rep.check('%s.encbytes' % me in targets, 'C06.7', '%s.parse' % c.name, '%s: stores %s' % (scen, targets),
                              'protected secret material must be kept as ciphertext', where=f.where, scenario=scen)
                    pf = set(ast.literal_eval(c.find_attr('__privfields__')))
                    rep.check(not any(t.startswith(me + '.') and t[len(me) + 1:] in pf for t in targets), 'C06.7', '%s.parse' % c.name,
                              '%s: no private field parsed from ciphertext' % scen, 'ciphertext must not be read as cleartext MPIs', where=f.where, scenario=scen)
